/-
  Lemmas for C12 (Covout): the nested loop of the code (`nestedLoop`, driven by `idx = np.argsort(cov)`) computes
  `Σ_m nestedG 0 1 cov m · g m` for EVERY ascending `idx` — the tie order of numpy's (unstable) sort is irrelevant.
-/
import AtomicaProofs.Lemmas.Covout

namespace Atomica.Covout

theorem nestedG_empty (lo hi : Rat) (cs : List Rat) (m : List Bool) (h : hi ≤ lo) : nestedG lo hi cs m = 0 := by
  induction cs generalizing lo hi m with
  | nil => simp only [nestedG, maxQ_eq]; exact max_eq_left (by linarith)
  | cons c cs ih =>
    cases m with
    | nil => simp only [nestedG, maxQ_eq]; exact max_eq_left (by linarith)
    | cons b m =>
      cases b with
      | true => simp only [nestedG, minQ_eq]; exact ih _ _ _ (le_trans (min_le_left _ _) h)
      | false => simp only [nestedG, maxQ_eq]; exact ih _ _ _ (le_trans h (le_max_left _ _))

/-- a combination containing a program whose coverage is at most `lo` has weight 0 -/
theorem nestedG_in_low (lo hi : Rat) (cs : List Rat) (m : List Bool) (j : Nat)
    (hj : m.getD j false = true) (hc : cs.getD j 0 ≤ lo) (hjl : j < cs.length) : nestedG lo hi cs m = 0 := by
  induction cs generalizing lo hi m j with
  | nil => simp at hjl
  | cons c cs ih =>
    cases m with
    | nil => simp at hj
    | cons b m =>
      cases j with
      | zero =>
        simp only [List.getD_cons_zero] at hj hc
        subst hj
        simp only [nestedG, minQ_eq]
        exact nestedG_empty _ _ _ _ (le_trans (min_le_right _ _) hc)
      | succ j =>
        simp only [List.getD_cons_succ] at hj hc
        have hjl' : j < cs.length := by simpa using hjl
        cases b with
        | true => simp only [nestedG]; exact ih _ _ m j hj hc hjl'
        | false =>
          simp only [nestedG, maxQ_eq]
          exact ih _ _ m j hj (le_trans hc (le_max_left _ _)) hjl'

/-- if some program with coverage ≥ `lo'` is outside the combination, raising `lo` up to `lo'` changes nothing -/
theorem nestedG_out_shift (lo lo' hi : Rat) (cs : List Rat) (m : List Bool) (k : Nat)
    (hk : m.getD k false = false) (hkl : k < cs.length) (hml : m.length = cs.length)
    (h1 : lo ≤ lo') (h2 : lo' ≤ cs.getD k 0) : nestedG lo hi cs m = nestedG lo' hi cs m := by
  induction cs generalizing lo lo' hi m k with
  | nil => simp at hkl
  | cons c cs ih =>
    cases m with
    | nil => simp at hml
    | cons b m =>
      have hml' : m.length = cs.length := by simpa using hml
      cases k with
      | zero =>
        simp only [List.getD_cons_zero] at hk h2
        subst hk
        simp only [nestedG, maxQ_eq]
        rw [max_eq_right (by linarith), max_eq_right h2]
      | succ k =>
        simp only [List.getD_cons_succ] at hk h2
        have hkl' : k < cs.length := by simpa using hkl
        cases b with
        | true => simp only [nestedG]; exact ih _ _ _ m k hk hkl' hml' h1 h2
        | false =>
          simp only [nestedG, maxQ_eq]
          by_cases hc : lo' ≤ c
          · rw [max_eq_right (by linarith), max_eq_right hc]
          · have hc' : c < lo' := not_le.mp hc
            rw [max_eq_left hc'.le]
            exact ih _ _ _ m k hk hkl' hml' (max_le h1 hc'.le) h2

theorem exists_getD_ne {m m' : List Bool} (h : m.length = m'.length) (hne : m ≠ m') :
    ∃ j, j < m.length ∧ m.getD j false ≠ m'.getD j false := by
  induction m generalizing m' with
  | nil =>
    have : m' = [] := List.length_eq_zero_iff.mp h.symm
    exact absurd this.symm hne
  | cons b m ih =>
    cases m' with
    | nil => simp at h
    | cons b' m' =>
      by_cases hb : b = b'
      · subst hb
        have hne' : m ≠ m' := fun e => hne (by rw [e])
        obtain ⟨j, hj, hd⟩ := ih (by simpa using h) hne'
        exact ⟨j + 1, by simpa using hj, by simpa using hd⟩
      · exact ⟨0, by simp, by simpa using hb⟩

theorem setFalse_length (m : List Bool) (i : Nat) : (setFalse m i).length = m.length := by
  induction m generalizing i with
  | nil => rfl
  | cons b m ih => cases i <;> simp [setFalse, ih]

theorem setFalse_getD (m : List Bool) (i j : Nat) :
    (setFalse m i).getD j false = if j = i then false else m.getD j false := by
  induction m generalizing i j with
  | nil => simp [setFalse]
  | cons b m ih =>
    cases i with
    | zero =>
      cases j with
      | zero => simp [setFalse]
      | succ j => simp [setFalse]
    | succ i =>
      cases j with
      | zero => simp [setFalse]
      | succ j => simp only [setFalse, List.getD_cons_succ, ih i j, Nat.add_right_cancel_iff]

theorem sumC_sub (n : Nat) (f g : List Bool → Rat) : sumC n (fun m => f m - g m) = sumC n f - sumC n g := by
  have : sumC n (fun m => f m - g m) = sumC n (fun m => f m + (-1) * g m) := by
    apply sumC_congr; intro m _; ring
  rw [this, sumC_add, sumC_mul_left]; ring

/-- the loop invariant: with `prev` the last coverage processed and `mask` the programs not yet processed, the
    rest of the loop computes `Σ_m nestedG prev 1 cov m · g m` -/
theorem nestedLoop_eq_aux (cov : List Rat) (g : List Bool → Rat) (hg : ∀ m, anyTrue m = false → g m = 0)
    (hcov : ∀ c ∈ cov, 0 ≤ c ∧ c ≤ 1) (idx : List Nat) (prev : Rat) (mask : List Bool)
    (hlen : mask.length = cov.length)
    (hmask : ∀ j, j < cov.length → (mask.getD j false = true ↔ j ∈ idx))
    (hnd : idx.Nodup)
    (hrem : ∀ j, j < cov.length → j ∉ idx → cov.getD j 0 ≤ prev)
    (hin : ∀ j ∈ idx, j < cov.length ∧ prev ≤ cov.getD j 0)
    (hsort : idx.Pairwise (fun a b => cov.getD a 0 ≤ cov.getD b 0)) :
    nestedLoop cov g idx prev mask = sumC cov.length (fun m => nestedG prev 1 cov m * g m) := by
  induction idx generalizing prev mask with
  | nil =>
    simp only [nestedLoop]
    rw [← sumC_zero cov.length]
    apply sumC_congr
    intro m hm
    by_cases ha : anyTrue m = true
    · obtain ⟨j, hj, hb⟩ := exists_bit_of_anyTrue ha
      have hj' : j < cov.length := hm ▸ hj
      rw [nestedG_in_low prev 1 cov m j hb (hrem j hj' (by simp)) hj', zero_mul]
    · rw [hg m (by simpa using ha), mul_zero]
  | cons i rest ih =>
    have hi := hin i (by simp)
    have hnd' := List.nodup_cons.mp hnd
    have hsort' := List.pairwise_cons.mp hsort
    have hci1 : cov.getD i 0 ≤ 1 := by
      have : cov.getD i 0 ∈ cov := by
        rw [List.getD_eq_getElem?_getD, List.getElem?_eq_getElem hi.1]; exact List.getElem_mem hi.1
      exact (hcov _ this).2
    -- the rest of the loop
    have hrest := ih (cov.getD i 0) (setFalse mask i) (by rw [setFalse_length]; exact hlen)
      (by
        intro j hj
        rw [setFalse_getD]
        by_cases hji : j = i
        · subst hji; simp [hnd'.1]
        · rw [if_neg hji, hmask j hj]; simp [hji])
      hnd'.2
      (by
        intro j hj hjr
        by_cases hji : j = i
        · subst hji; exact le_refl _
        · exact le_trans (hrem j hj (by simp [hji, hjr])) hi.2)
      (fun j hj => ⟨(hin j (by simp [hj])).1, hsort'.1 j hj⟩)
      hsort'.2
    simp only [nestedLoop]
    rw [hrest]
    -- difference of the two weight functions is concentrated on `mask`
    let D : List Bool → Rat := fun m => nestedG prev 1 cov m - nestedG (cov.getD i 0) 1 cov m
    have hD0 : ∀ m, m.length = cov.length → m ≠ mask → D m = 0 := by
      intro m hm hne
      obtain ⟨j, hj, hd⟩ := exists_getD_ne (hm.trans hlen.symm) hne
      have hj' : j < cov.length := hm ▸ hj
      show nestedG prev 1 cov m - nestedG (cov.getD i 0) 1 cov m = 0
      cases hmj : m.getD j false with
      | true =>
        have hmk : ¬ mask.getD j false = true := by
          intro h; apply hd; rw [hmj, h]
        have hjn : j ∉ i :: rest := fun h => hmk ((hmask j hj').mpr h)
        have hcj := hrem j hj' hjn
        rw [nestedG_in_low prev 1 cov m j hmj hcj hj',
          nestedG_in_low (cov.getD i 0) 1 cov m j hmj (le_trans hcj hi.2) hj']; ring
      | false =>
        have hmk : mask.getD j false = true := by
          cases h : mask.getD j false with
          | true => rfl
          | false => exact absurd (hmj.trans h.symm) hd
        have hjm : j ∈ i :: rest := (hmask j hj').mp hmk
        have hcij : cov.getD i 0 ≤ cov.getD j 0 := by
          rcases List.mem_cons.mp hjm with rfl | hjr
          · exact le_refl _
          · exact hsort'.1 j hjr
        rw [nestedG_out_shift prev (cov.getD i 0) 1 cov m j hmj hj' hm hi.2 hcij]; ring
    have hsumD : sumC cov.length D = cov.getD i 0 - prev := by
      show sumC cov.length (fun m => nestedG prev 1 cov m - nestedG (cov.getD i 0) 1 cov m) = _
      rw [sumC_sub, sumC_nestedG _ prev 1 cov rfl, sumC_nestedG _ (cov.getD i 0) 1 cov rfl,
        max_eq_right (by linarith), max_eq_right (by linarith)]
      ring
    have hDmask : D mask = cov.getD i 0 - prev := by
      rw [← hsumD]; exact (sumC_eq_single mask hlen hD0).symm
    have hsplit : sumC cov.length (fun m => nestedG prev 1 cov m * g m)
        = sumC cov.length (fun m => D m * g m)
          + sumC cov.length (fun m => nestedG (cov.getD i 0) 1 cov m * g m) := by
      rw [← sumC_add]; apply sumC_congr; intro m _
      show _ = (nestedG prev 1 cov m - nestedG (cov.getD i 0) 1 cov m) * g m + _
      ring
    have hDg : sumC cov.length (fun m => D m * g m) = D mask * g mask :=
      sumC_eq_single (f := fun m => D m * g m) mask hlen
        (fun m hm hne => by show D m * g m = 0; rw [hD0 m hm hne, zero_mul])
    rw [hsplit, hDg, hDmask]

theorem replicate_true_getD (n j : Nat) (hj : j < n) : (List.replicate n true).getD j false = true := by
  induction n generalizing j with
  | zero => omega
  | succ n ih =>
    cases j with
    | zero => simp [List.replicate_succ]
    | succ j => simp only [List.replicate_succ, List.getD_cons_succ]; exact ih j (by omega)

/-- **the nested loop, for every ascending `idx`** -/
theorem nestedLoop_eq (cov : List Rat) (g : List Bool → Rat) (hg : ∀ m, anyTrue m = false → g m = 0)
    (hcov : ∀ c ∈ cov, 0 ≤ c ∧ c ≤ 1) (idx : List Nat) (hperm : idx.Perm (List.range cov.length))
    (hsort : idx.Pairwise (fun a b => cov.getD a 0 ≤ cov.getD b 0)) :
    nestedLoop cov g idx 0 (List.replicate cov.length true)
      = sumC cov.length (fun m => nestedG 0 1 cov m * g m) := by
  have hmem : ∀ j, j ∈ idx ↔ j < cov.length := fun j => by rw [hperm.mem_iff, List.mem_range]
  apply nestedLoop_eq_aux cov g hg hcov idx 0 _ (by simp)
  · intro j hj
    rw [replicate_true_getD _ j hj, hmem]; simp [hj]
  · exact hperm.nodup_iff.mpr List.nodup_range
  · intro j hj hn; exact absurd ((hmem j).mpr hj) hn
  · intro j hj
    have hjl := (hmem j).mp hj
    refine ⟨hjl, ?_⟩
    have : cov.getD j 0 ∈ cov := by
      rw [List.getD_eq_getElem?_getD, List.getElem?_eq_getElem hjl]; exact List.getElem_mem hjl
    exact (hcov _ this).1
  · exact hsort

/-! ### one admissible `idx`: the stable ascending argsort of the model -/

theorem insAsc_perm (cov : List Rat) (i : Nat) (l : List Nat) : (insAsc cov i l).Perm (i :: l) := by
  induction l with
  | nil => exact List.Perm.refl _
  | cons j js ih =>
    simp only [insAsc]
    split_ifs
    · exact ((List.Perm.cons j ih).trans (List.Perm.swap i j js))
    · exact List.Perm.refl _

theorem insAsc_sorted (cov : List Rat) (i : Nat) (l : List Nat)
    (h : l.Pairwise (fun a b => cov.getD a 0 ≤ cov.getD b 0)) :
    (insAsc cov i l).Pairwise (fun a b => cov.getD a 0 ≤ cov.getD b 0) := by
  induction l with
  | nil => simp [insAsc]
  | cons j js ih =>
    rw [List.pairwise_cons] at h
    simp only [insAsc]
    split_ifs with hlt
    · rw [List.pairwise_cons]
      refine ⟨?_, ih h.2⟩
      intro z hz
      rcases List.mem_cons.mp ((insAsc_perm cov i js).mem_iff.mp hz) with rfl | hz
      · exact hlt.le
      · exact h.1 z hz
    · rw [List.pairwise_cons]
      refine ⟨?_, List.pairwise_cons.mpr h⟩
      intro z hz
      rcases List.mem_cons.mp hz with rfl | hz
      · exact not_lt.mp hlt
      · exact le_trans (not_lt.mp hlt) (h.1 z hz)

theorem argsortAsc_perm (cov : List Rat) : (argsortAsc cov).Perm (List.range cov.length) := by
  unfold argsortAsc
  induction List.range cov.length with
  | nil => exact List.Perm.refl _
  | cons i l ih => simp only [List.foldr_cons]; exact (insAsc_perm cov i _).trans (List.Perm.cons i ih)

theorem argsortAsc_sorted (cov : List Rat) :
    (argsortAsc cov).Pairwise (fun a b => cov.getD a 0 ≤ cov.getD b 0) := by
  unfold argsortAsc
  induction List.range cov.length with
  | nil => simp
  | cons i l ih => simp only [List.foldr_cons]; exact insAsc_sorted cov i _ ih

end Atomica.Covout
