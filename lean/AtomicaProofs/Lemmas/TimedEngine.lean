/-
  Engine-side lemmas for C05: what `wfCheck` provides about timed compartments, the value of `resolveFlow`
  on the out-links of a timed compartment, and `updateComps` on its rows.
-/
import AtomicaModel.Engine
import AtomicaModel.Timed
import AtomicaProofs.Lemmas.Sums
import AtomicaProofs.Lemmas.Keyring
import Mathlib.Tactic.Linarith
import Mathlib.Tactic.Ring
import Mathlib.Tactic.FieldSimp
import Mathlib.Tactic.NormNum
import Mathlib.Algebra.Order.Field.Basic

namespace Atomica.Engine
open Atomica

variable (net : Net)

/-! ## well-formedness extraction -/

theorem allBelow_iff (n : Nat) (p : Nat → Bool) : allBelow n p = true ↔ ∀ i, i < n → p i = true := by
  simp [allBelow, List.all_eq_true, List.mem_range]

/-- the facts about links and compartments that the C05 proofs use, extracted from `wfCheck net = true` -/
structure WfTimed : Prop where
  src_lt : ∀ l, l < net.nL → net.src l < net.nC
  dst_lt : ∀ l, l < net.nL → net.dst l < net.nC
  src_not_sink : ∀ l, l < net.nL → net.kind (net.src l) ≠ .sink
  par_lt : ∀ l, l < net.nL → ∀ p, net.par l = some p → p < net.nP
  flush_timed : ∀ l, l < net.nL → net.isFlush l = true → net.kind (net.src l) = .timed
  flush_untimed : ∀ l, l < net.nL → net.isFlush l = true → net.tlink l = false
  flush_nopar : ∀ l, l < net.nL → net.isFlush l = true → net.par l = none
  lrows_timed : ∀ l, l < net.nL → net.kind (net.src l) = .timed → net.lrows l = net.nrows (net.src l)
  tscale_pos : ∀ p, p < net.nP → 0 < net.tscale p
  nrows_pos : ∀ c, c < net.nC → 1 ≤ net.nrows c
  nrows_one : ∀ c, c < net.nC → net.kind c ≠ .timed → net.nrows c = 1
  one_flush : ∀ c, c < net.nC → net.kind c = .timed →
    ((List.range net.nL).filter (fun l => net.src l == c && net.isFlush l)).length = 1

theorem wfTimed_of_wfCheck (h : wfCheck net = true) : WfTimed net := by
  unfold wfCheck at h
  simp only [Bool.and_eq_true, allBelow_iff] at h
  obtain ⟨⟨⟨⟨⟨⟨hL, hP⟩, hC⟩, hF⟩, _⟩, _⟩, _⟩ := h
  refine ⟨?_, ?_, ?_, ?_, ?_, ?_, ?_, ?_, ?_, ?_, ?_, ?_⟩
  · intro l hl
    have := (hL l hl).1.1.1.1.1.1.1.1.1.1.1
    exact of_decide_eq_true this
  · intro l hl
    have := (hL l hl).1.1.1.1.1.1.1.1.1.1.2
    exact of_decide_eq_true this
  · intro l hl
    have := (hL l hl).1.1.1.1.1.1.1.1.1.2
    simpa using this
  · intro l hl p hp
    have := (hL l hl).1.1.1.1.1.1.2
    rw [hp] at this
    exact of_decide_eq_true this
  · intro l hl hf
    have := (hL l hl).1.1.1.1.1.2
    simp only [hf, Bool.not_true, Bool.false_or, Bool.and_eq_true] at this
    simpa using this.1.1
  · intro l hl hf
    have := (hL l hl).1.1.1.1.1.2
    simp only [hf, Bool.not_true, Bool.false_or, Bool.and_eq_true] at this
    simpa using this.1.2
  · intro l hl hf
    have := (hL l hl).1.1.1.1.1.2
    simp only [hf, Bool.not_true, Bool.false_or, Bool.and_eq_true] at this
    simpa using this.2
  · intro l hl hk
    have := (hL l hl).1.1.1.1.2
    rw [hk] at this
    simpa using this
  · intro p hp
    exact of_decide_eq_true (hP p hp)
  · intro c hc
    exact of_decide_eq_true (hC c hc).1
  · intro c hc hk
    have := (hC c hc).2
    simp only [Bool.or_eq_true, beq_iff_eq] at this
    rcases this with h | h
    · exact absurd h hk
    · exact h
  · intro c hc hk
    have := hF c hc
    simp only [hk, bne_self_eq_false, Bool.false_or, beq_iff_eq] at this
    exact this

/-! ## sums over the links that satisfy a Boolean predicate -/

theorem sumTo_filter_const (n : Nat) (p : Nat → Bool) (v : Rat) :
    sumTo n (fun l => if p l = true then v else 0) = (((List.range n).filter p).length : Rat) * v := by
  induction n with
  | zero => simp [sumTo]
  | succ n ih =>
    rw [sumTo, ih, List.range_succ, List.filter_append, List.length_append]
    by_cases h : p n = true
    · simp [h]; ring
    · simp [h]

/-! ## survival factor of a row -/

/-- fraction of row `r` of compartment `c` that is not removed by ordinary (non-flush) links this step -/
def surv (cache : Nat → Rat) (c r : Nat) : Rat :=
  1 - rescale (outReq net cache c r) * outReq net cache c r

theorem rescale_mul_nonneg {t : Rat} (h : 0 ≤ t) : 0 ≤ rescale t * t := by
  unfold rescale
  split
  · have : (0 : Rat) < t := by linarith
    positivity
  · simpa using h

theorem rescale_mul_le_one (t : Rat) : rescale t * t ≤ 1 := by
  unfold rescale
  split
  · rename_i h
    have : t ≠ 0 := by intro h0; rw [h0] at h; linarith
    have : 1 / t * t = 1 := by field_simp
    linarith
  · rename_i h
    simp only [one_mul]
    exact not_lt.mp h

theorem outReq_nonneg (cache : Nat → Rat) (hc : ∀ l, l < net.nL → 0 ≤ cache l) (c r : Nat) : 0 ≤ outReq net cache c r := by
  unfold outReq
  apply sumTo_nonneg
  intro l hl
  split
  · exact hc l hl
  · exact le_refl 0

theorem surv_nonneg (cache : Nat → Rat) (c r : Nat) : 0 ≤ surv net cache c r := by
  unfold surv
  have := rescale_mul_le_one (outReq net cache c r)
  linarith

theorem surv_le_one (cache : Nat → Rat) (hc : ∀ l, l < net.nL → 0 ≤ cache l) (c r : Nat) : surv net cache c r ≤ 1 := by
  unfold surv
  have := rescale_mul_nonneg (outReq_nonneg net cache hc c r)
  linarith

/-- no ordinary out-link is active: nothing is removed -/
theorem surv_eq_one (cache : Nat → Rat) (c r : Nat)
    (h : ∀ l, l < net.nL → net.src l = c → acts net l r = true → cache l = 0) : surv net cache c r = 1 := by
  have : outReq net cache c r = 0 := by
    unfold outReq
    apply sumTo_zero
    intro l hl
    split
    · rename_i hh; exact h l hl hh.1 hh.2
    · rfl
  simp [surv, this]

/-! ## resolve_outflows on a timed compartment -/

theorem baseFlow_timed (cache : Nat → Rat) (x : Stock) (l r : Nat) (hk : net.kind (net.src l) = .timed) :
    baseFlow net cache x l r =
      if r < net.nrows (net.src l) ∧ acts net l r = true
      then cache l * (rescale (outReq net cache (net.src l) r) * x (net.src l) r) else 0 := by
  simp only [baseFlow, hk]

theorem baseOut_timed (cache : Nat → Rat) (x : Stock) (c r : Nat) (hk : net.kind c = .timed) (hr : r < net.nrows c) :
    baseOut net cache x c r = rescale (outReq net cache c r) * outReq net cache c r * x c r := by
  unfold baseOut
  have : ∀ l, l < net.nL → (if net.src l = c then baseFlow net cache x l r else 0)
      = (if net.src l = c ∧ acts net l r = true then cache l else 0) * (rescale (outReq net cache c r) * x c r) := by
    intro l _
    by_cases hs : net.src l = c
    · subst hs
      rw [if_pos rfl, baseFlow_timed net cache x l r hk]
      by_cases ha : acts net l r = true
      · simp [hr, ha]
      · simp [ha]
    · simp [hs]
  rw [sumTo_congr this, sumTo_mul_right]
  unfold outReq
  ring

/-- value of the timed outflow (flush link) of a timed compartment with a non-negative row 0 -/
theorem resolveFlow_flush (cache : Nat → Rat) (x : Stock) (l : Nat)
    (hk : net.kind (net.src l) = .timed) (hf : net.isFlush l = true) (hn : 1 ≤ net.nrows (net.src l))
    (hx : 0 ≤ x (net.src l) 0) (r : Nat) :
    resolveFlow net cache x l r = if r = 0 then surv net cache (net.src l) 0 * x (net.src l) 0 else 0 := by
  unfold resolveFlow
  simp only [hk, hf, and_self, if_true]
  by_cases hr : r = 0
  · simp only [hr, if_true]
    rw [baseOut_timed net cache x _ 0 hk (by omega)]
    have h1 := rescale_mul_le_one (outReq net cache (net.src l) 0)
    have e : x (net.src l) 0 - rescale (outReq net cache (net.src l) 0) * outReq net cache (net.src l) 0 * x (net.src l) 0
        = surv net cache (net.src l) 0 * x (net.src l) 0 := by unfold surv; ring
    rw [e]
    have h2 : 0 ≤ surv net cache (net.src l) 0 * x (net.src l) 0 := mul_nonneg (surv_nonneg net cache _ 0) hx
    split
    · rfl
    · rename_i hh
      linarith [not_lt.mp hh]
  · simp [hr]

theorem resolveFlow_nonflush (cache : Nat → Rat) (x : Stock) (l r : Nat) (hf : net.isFlush l = false) :
    resolveFlow net cache x l r = baseFlow net cache x l r := by
  unfold resolveFlow
  simp [hf]

theorem baseFlow_flush_zero (cache : Nat → Rat) (x : Stock) (l r : Nat)
    (hk : net.kind (net.src l) = .timed) (hf : net.isFlush l = true) : baseFlow net cache x l r = 0 := by
  rw [baseFlow_timed net cache x l r hk]
  simp [acts, hf]

/-- total removed from row `r` of a timed compartment by `resolve_outflows` (ordinary links + flush link) -/
theorem outRow_resolve_timed (hwf : WfTimed net) (cache : Nat → Rat) (x : Stock) (fl : Flow) (c r : Nat)
    (hc : c < net.nC) (hk : net.kind c = .timed) (hr : r < net.nrows c) (hx : 0 ≤ x c 0)
    (hfl : ∀ l, l < net.nL → net.src l = c → ∀ r, fl l r = resolveFlow net cache x l r) :
    outRow net fl c r = if r = 0 then x c 0 else (1 - surv net cache c r) * x c r := by
  unfold outRow
  have hn : 1 ≤ net.nrows c := hwf.nrows_pos c hc
  have h1 : ∀ l, l < net.nL → (if net.src l = c then fl l r else 0)
      = (if net.src l = c then baseFlow net cache x l r else 0)
        + (if (net.src l == c && net.isFlush l) = true then (if r = 0 then surv net cache c 0 * x c 0 else 0) else 0) := by
    intro l hl
    by_cases hs : net.src l = c
    · subst hs
      rw [hfl l hl rfl r]
      by_cases hf : net.isFlush l = true
      · rw [resolveFlow_flush net cache x l hk hf hn hx r, baseFlow_flush_zero net cache x l r hk hf]
        simp [hf]
      · have hf' : net.isFlush l = false := by simpa using hf
        rw [resolveFlow_nonflush net cache x l r hf']
        simp [hf']
    · simp [hs]
  rw [sumTo_congr h1, sumTo_add, sumTo_filter_const, hwf.one_flush c hc hk]
  have h2 := baseOut_timed net cache x c r hk hr
  unfold baseOut at h2
  rw [h2]
  by_cases h0 : r = 0
  · subst h0; simp only [if_true]; unfold surv; push_cast; ring
  · simp only [h0, if_false]; unfold surv; push_cast; ring

/-! ## junction balancing does not touch the out-links of non-junction compartments -/

theorem balanceOne_other (pv : Nat → Rat) (fl fl' : Flow) (j : Nat) (h : balanceOne net pv fl j = some fl')
    (l r : Nat) (hl : isJunction net (net.src l) = false) : fl' l r = fl l r := by
  unfold balanceOne at h
  split at h
  · rename_i hk
    have hne : net.src l ≠ j := by
      intro e; rw [e] at hl; simp [isJunction, hk] at hl
    split at h
    · split at h
      · injection h with h; subst h
        simp [hne]
      · exact absurd h (by simp)
    · injection h with h; subst h
      simp [hne]
  · rename_i hk
    injection h with h; subst h
    have : net.src l ≠ j := by
      intro e; rw [e] at hl; simp [isJunction, hk] at hl
    simp [this]
  · injection h with h; subst h; rfl

theorem balanceAll_other (pv : Nat → Rat) (js : List Nat) : ∀ (fl fl' : Flow), balanceAll net pv fl js = some fl' →
    ∀ l r, isJunction net (net.src l) = false → fl' l r = fl l r := by
  induction js with
  | nil => intro fl fl' h l r _; simp [balanceAll] at h; rw [h]
  | cons j js ih =>
    intro fl fl' h l r hl
    simp only [balanceAll] at h
    cases h1 : balanceOne net pv fl j with
    | none => rw [h1] at h; simp at h
    | some fl1 =>
      rw [h1] at h
      simp only [Option.bind_some] at h
      rw [ih fl1 fl' h l r hl, balanceOne_other net pv fl fl1 j h1 l r hl]

theorem flows_nonjunction (dt : Rat) (pv : Nat → Rat) (x : Stock) (fl : Flow) (h : flows net dt pv x = some fl)
    (l r : Nat) (hl : isJunction net (net.src l) = false) :
    fl l r = resolveFlow net (convert net dt pv x) x l r :=
  balanceAll_other net pv net.jorder _ fl h l r hl

/-! ## non-negativity of `link._cache` -/

/-- stocks are non-negative everywhere except possibly in sinks (which have no outflow) -/
def NonnegOffSink (x : Stock) : Prop := ∀ c r, net.kind c ≠ .sink → 0 ≤ x c r

theorem popsize_nonneg (hwf : WfTimed net) (x : Stock) (hx : NonnegOffSink net x) (p : Nat) : 0 ≤ popsize net x p := by
  unfold popsize
  apply sumTo_nonneg
  intro l hl
  split
  · unfold stockTotal
    apply sumTo_nonneg
    intro r _
    exact hx _ r (hwf.src_not_sink l hl)
  · exact le_refl 0

theorem convert_nonneg (hwf : WfTimed net) (dt : Rat) (hdt : 0 < dt) (pv : Nat → Rat) (x : Stock)
    (hx : NonnegOffSink net x) (l : Nat) (hl : l < net.nL) : 0 ≤ convert net dt pv x l := by
  unfold convert
  split
  · exact le_refl 0
  · rename_i p hp
    have hts : 0 < net.tscale p := hwf.tscale_pos p (hwf.par_lt l hl p hp)
    simp only
    split
    · exact le_refl 0
    · rename_i hv
      have hv' : 0 < pv p := not_le.mp hv
      split
      · positivity
      · positivity
      · split
        · positivity
        · split
          · exact le_refl 0
          · rename_i hn
            have h0 := popsize_nonneg net hwf x hx p
            have : 0 < popsize net x p := lt_of_le_of_ne h0 (Ne.symm hn)
            positivity
      · exact le_refl 0

theorem clip0_nonneg (v : Rat) : 0 ≤ clip0 v := by
  unfold clip0; split <;> [linarith; exact le_refl 0]

theorem clip0_of_nonneg {v : Rat} (h : 0 ≤ v) : clip0 v = v := by
  unfold clip0; split
  · rfl
  · rename_i hh; linarith [not_lt.mp hh]

/-- the clipping at the end of `TimedCompartment.update` is `clip0` -/
theorem neg_clip_eq (v : Rat) : (if v < 0 then 0 else v) = clip0 v := by
  unfold clip0
  by_cases h : v < 0
  · have : ¬ v > 0 := by intro h'; linarith
    simp [h, this]
  · by_cases h' : v > 0
    · simp [h, h']
    · have : v = 0 := le_antisymm (not_lt.mp h') (not_lt.mp h)
      simp [this]

/-- stocks stay non-negative off sinks, whatever the flows -/
theorem updateComps_nonneg (x : Stock) (fl : Flow) (hx : NonnegOffSink net x) : NonnegOffSink net (updateComps net x fl) := by
  intro c r hk
  unfold updateComps
  split
  · split
    · exact clip0_nonneg _
    · exact le_refl 0
  · rename_i h; exact absurd h hk
  · simp only
    split
    · rw [neg_clip_eq]; exact clip0_nonneg _
    · exact le_refl 0
  · exact hx c r hk

/-! ## `TimedCompartment.update` -/

theorem updateComps_timed (x : Stock) (fl : Flow) (c r : Nat) (hk : net.kind c = .timed) :
    updateComps net x fl c r =
      if r < net.nrows c then
        clip0 ((if net.nrows c ≤ 1 then x c r - outRow net fl c r + inTimedRow net fl c r
                else if r + 1 < net.nrows c then x c (r + 1) - outRow net fl c (r + 1) + inTimedRow net fl c (r + 1) else 0)
               + (if r + 1 = net.nrows c then inUntimed net fl c else 0))
      else 0 := by
  unfold updateComps
  simp only [hk]
  split
  · rw [neg_clip_eq]
  · rfl

/-- one step of a timed compartment, row by row -/
theorem timed_step (hwf : WfTimed net) (cache : Nat → Rat) (x : Stock) (fl : Flow) (c : Nat)
    (hc : c < net.nC) (hk : net.kind c = .timed) (hx : 0 ≤ x c 0)
    (hfl : ∀ l, l < net.nL → net.src l = c → ∀ r, fl l r = resolveFlow net cache x l r) (r : Nat) :
    updateComps net x fl c r =
      if r + 1 < net.nrows c then clip0 (surv net cache c (r + 1) * x c (r + 1) + inTimedRow net fl c (r + 1))
      else if r + 1 = net.nrows c then clip0 ((if net.nrows c = 1 then inTimedRow net fl c 0 else 0) + inUntimed net fl c)
      else 0 := by
  rw [updateComps_timed net x fl c r hk]
  have hn : 1 ≤ net.nrows c := hwf.nrows_pos c hc
  by_cases h1 : r + 1 < net.nrows c
  · have hr : r < net.nrows c := by omega
    have hn1 : ¬ net.nrows c ≤ 1 := by omega
    have hne : ¬ r + 1 = net.nrows c := by omega
    rw [if_pos hr, if_neg hn1, if_pos h1, if_neg hne, if_pos h1,
      outRow_resolve_timed net hwf cache x fl c (r + 1) hc hk h1 hx hfl]
    simp only [Nat.succ_ne_zero, if_false, add_zero]
    congr 1; ring
  · simp only [h1, ↓reduceIte]
    by_cases h2 : r + 1 = net.nrows c
    · have hr : r < net.nrows c := by omega
      simp only [hr, h2, ↓reduceIte]
      by_cases h3 : net.nrows c = 1
      · have hr0 : r = 0 := by omega
        subst hr0
        simp only [h3, ↓reduceIte]
        rw [outRow_resolve_timed net hwf cache x fl c 0 hc hk hr hx hfl]
        simp
      · have hn1 : ¬ net.nrows c ≤ 1 := by omega
        simp only [hn1, h3, ↓reduceIte]
    · have hr : ¬ r < net.nrows c := by omega
      simp only [hr, h2, ↓reduceIte]
/-! ## timed links into a timed compartment -/

/-- a timed link whose row count equals the destination's puts row `r` into row `r` -/
theorem tlinkInto_same (fl : Flow) (l n r : Nat) (h : net.lrows l = n) :
    tlinkInto net fl l n r = if r < n then fl l r else 0 := by
  unfold tlinkInto
  simp [h]

/-- nothing is ever placed beyond the destination's last row -/
theorem tlinkInto_beyond (fl : Flow) (l n r : Nat) (h : n ≤ r) : tlinkInto net fl l n r = 0 := by
  unfold tlinkInto
  have h1 : ¬ r < n := by omega
  have h2 : ¬ r + 1 = n := by omega
  have h3 : ∀ L, L ≤ n → ¬ r < L := by intro L hL; omega
  simp only
  split
  · rename_i hL; rw [if_neg (h3 _ hL)]
  · simp

/-- whatever the two row counts, a timed link delivers its whole recorded flow -/
theorem tlinkInto_total (fl : Flow) (l n : Nat) (hn : 1 ≤ n) :
    sumTo n (tlinkInto net fl l n) = recorded net fl l := by
  unfold recorded
  by_cases hL : net.lrows l ≤ n
  · have : ∀ r, r < n → tlinkInto net fl l n r = if r < net.lrows l then fl l r else 0 := by
      intro r _; unfold tlinkInto; simp [hL]
    rw [sumTo_congr this, sumTo_ite_lt hL]
  · have hL' : n < net.lrows l := by omega
    have : ∀ r, r < n → tlinkInto net fl l n r
        = fl l r + (if r = n - 1 then sumTo (net.lrows l - n) (fun k => fl l (n + k)) else 0) := by
      intro r hr; unfold tlinkInto
      simp only [hL, if_false, hr, if_true]
      by_cases h : r + 1 = n
      · have h' : r = n - 1 := by omega
        rw [if_pos h, if_pos h']
      · have h' : ¬ r = n - 1 := by omega
        rw [if_neg h, if_neg h']
    rw [sumTo_congr this, sumTo_add, sumTo_single (n - 1) (by omega)]
    have e : net.lrows l = n + (net.lrows l - n) := by omega
    conv_rhs => rw [e, sumTo_split]

theorem inTimedRow_zero (fl : Flow) (c r : Nat) (h : ∀ l, l < net.nL → net.dst l = c → net.tlink l = false) :
    inTimedRow net fl c r = 0 := by
  unfold inTimedRow
  apply sumTo_zero
  intro l hl
  split
  · rename_i hh; have := h l hl hh.1; rw [this] at hh; exact absurd hh.2 (by simp)
  · rfl

theorem inTimedRow_same (fl : Flow) (c r : Nat) (hr : r < net.nrows c)
    (h : ∀ l, l < net.nL → net.dst l = c → net.tlink l = true → net.lrows l = net.nrows c) :
    inTimedRow net fl c r = sumTo net.nL (fun l => if net.dst l = c ∧ net.tlink l = true then fl l r else 0) := by
  unfold inTimedRow
  apply sumTo_congr
  intro l hl
  by_cases hh : net.dst l = c ∧ net.tlink l = true
  · rw [if_pos hh, if_pos hh, tlinkInto_same net fl l _ r (h l hl hh.1 hh.2), if_pos hr]
  · rw [if_neg hh, if_neg hh]

end Atomica.Engine
