/-
  Lemmas about the y-factor table model (`Atomica.Tables.YF`), used by Properties/C16.lean.
-/
import AtomicaModel.Tables
import Mathlib.Data.List.Nodup

namespace Atomica.Tables.YF

def keys (p : ParSet) : List (String × Option String) := p.map fun e => (e.par, e.pop)

/-- `find` written on the list of keys -/
def findK (ks : List (String × Option String)) (n : String) (pop : Option String) : Found :=
  if ks.any (fun k => k.1 == n && k.2.isNone) then
    match pop with
    | none => match ks.findIdx? (fun k => k.1 == n && k.2.isNone) with
              | some i => .entry i
              | none => .unknown
    | some _ => .assertion
  else if ks.any (fun k => k.1 == n && k.2.isSome) then
    match pop with
    | none => .assertion
    | some s => match ks.findIdx? (fun k => k.1 == n && k.2 == some s) with
                | some i => .entry i
                | none => .unknown
  else .unknown

theorem find_eq_findK (p : ParSet) (n : String) (pop : Option String) : find p n pop = findK (keys p) n pop := by
  unfold find findK keys isParName isTdcName
  simp only [List.any_map, List.findIdx?_map]
  rfl

theorem find_congr {p p' : ParSet} (h : keys p = keys p') (n : String) (pop : Option String) :
    find p n pop = find p' n pop := by
  rw [find_eq_findK, find_eq_findK, h]

theorem applyCells_key (e : Entry) (cells : List (String × Option Rat)) :
    (applyCells e cells).par = e.par ∧ (applyCells e cells).pop = e.pop := by
  induction cells generalizing e with
  | nil => exact ⟨rfl, rfl⟩
  | cons c cs ih =>
      obtain ⟨k, v⟩ := c
      cases v with
      | none => simpa [applyCells] using ih e
      | some v =>
          simp only [applyCells]
          split
          · exact ih _
          · exact ih _

theorem keys_modify (p : ParSet) (i : Nat) (cells : List (String × Option Rat)) :
    keys (p.modify i (fun e => applyCells e cells)) = keys p := by
  unfold keys
  apply List.ext_getElem?
  intro j
  simp only [List.getElem?_map, List.getElem?_modify]
  cases h : p[j]? with
  | none => simp
  | some e =>
      by_cases hij : i = j
      · simp [hij, (applyCells_key e cells).1, (applyCells_key e cells).2]
      · simp [hij]

/-- loading never changes which (par, pop) entries exist -/
theorem loadRows_keys (t : Table) (p p' : ParSet) (h : loadRows t p = .ok p') : keys p' = keys p := by
  induction t generalizing p with
  | nil => simp [loadRows] at h; rw [h]
  | cons r rest ih =>
      simp only [loadRows] at h
      split at h
      · rw [ih _ h, keys_modify]
      · exact ih _ h
      · cases h

def isKnown (p : ParSet) (r : TRow) : Bool :=
  match find p r.par r.pop with
  | .unknown => false
  | _ => true

theorem loadRows_filter_known (t : Table) (p q : ParSet) (hk : keys q = keys p) :
    loadRows t q = loadRows (t.filter (isKnown p)) q := by
  induction t generalizing q with
  | nil => rfl
  | cons r rest ih =>
      have hf : find q r.par r.pop = find p r.par r.pop := find_congr hk _ _
      cases hfp : find p r.par r.pop with
      | entry i =>
          have : isKnown p r = true := by simp [isKnown, hfp]
          simp only [List.filter_cons, this, if_true, loadRows, hf, hfp]
          exact ih _ (by rw [keys_modify, hk])
      | unknown =>
          have : isKnown p r = false := by simp [isKnown, hfp]
          simp only [List.filter_cons, this, loadRows, hf, hfp]
          exact ih _ hk
      | assertion =>
          have : isKnown p r = true := by simp [isKnown, hfp]
          simp only [List.filter_cons, this, if_true, loadRows, hf, hfp]

theorem modify_eq_self {α} (l : List α) (i : Nat) (f : α → α) (e : α) (h : l[i]? = some e) (hf : f e = e) :
    l.modify i f = l := by
  apply List.ext_getElem?
  intro j
  rw [List.getElem?_modify]
  by_cases hij : i = j
  · subst hij; simp [h, hf]
  · cases l[j]? <;> simp [hij]

/-- an entry that no row addresses keeps its value -/
theorem loadRows_keeps (t : Table) (p p' : ParSet) (i : Nat) (h : loadRows t p = .ok p')
    (hno : ∀ r ∈ t, find p r.par r.pop ≠ .entry i) : p'[i]? = p[i]? := by
  induction t generalizing p with
  | nil => simp [loadRows] at h; rw [h]
  | cons r rest ih =>
      simp only [loadRows] at h
      have hr := hno r (by simp)
      split at h
      · rename_i j hj
        have hne : j ≠ i := by intro hji; apply hr; rw [hj, hji]
        have := ih (p.modify j (fun e => applyCells e r.cells)) h (by
          intro r' hr'
          rw [find_congr (keys_modify p j r.cells)]
          exact hno r' (by simp [hr']))
        rw [this, List.getElem?_modify]
        cases p[i]? <;> simp [hne]
      · exact ih p h (fun r' hr' => hno r' (by simp [hr']))
      · cases h

theorem applyCells_blank (e : Entry) (cells : List (String × Option Rat)) (h : ∀ c ∈ cells, c.2 = none) :
    applyCells e cells = e := by
  induction cells with
  | nil => rfl
  | cons c cs ih =>
      obtain ⟨k, v⟩ := c
      have hv : v = none := h (k, v) (by simp)
      subst hv
      simp only [applyCells]
      exact ih (fun c hc => h c (by simp [hc]))

theorem setY_keys (k : String) (v : Rat) (y : List (String × Rat)) : (setY k v y).map (·.1) = y.map (·.1) := by
  induction y with
  | nil => rfl
  | cons a as ih =>
      obtain ⟨k', v'⟩ := a
      simp only [setY]
      split
      · simp
      · simp [ih]

theorem setY_lookup_ne (k k' : String) (v : Rat) (y : List (String × Rat)) (h : k' ≠ k) :
    (setY k v y).lookup k' = y.lookup k' := by
  induction y with
  | nil => rfl
  | cons a as ih =>
      obtain ⟨a1, a2⟩ := a
      simp only [setY]
      split
      · rename_i heq
        subst heq
        have : (k' == a1) = false := by simp [h]
        simp [List.lookup_cons, this]
      · simp only [List.lookup_cons]
        split
        · rfl
        · exact ih

/-- a population for which the row has no value keeps its y-factor; the meta factor is kept when its cell is blank -/
theorem applyCells_keeps (e : Entry) (cells : List (String × Option Rat)) (k : String)
    (h : ∀ c ∈ cells, c.1 = k → c.2 = none) :
    (applyCells e cells).y.lookup k = e.y.lookup k ∧ (k = metaCol → (applyCells e cells).metaY = e.metaY) := by
  induction cells generalizing e with
  | nil => exact ⟨rfl, fun _ => rfl⟩
  | cons c cs ih =>
      obtain ⟨k', v⟩ := c
      have ih' := fun e' => ih e' (fun c hc => h c (by simp [hc]))
      cases v with
      | none => simpa [applyCells] using ih' e
      | some v =>
          have hk : k' ≠ k := by
            intro hkk
            have := h (k', some v) (by simp) hkk
            simp at this
          simp only [applyCells]
          split
          · rename_i hm
            have := ih' { e with metaY := v }
            refine ⟨this.1, fun hkm => ?_⟩
            exact absurd (hm.trans hkm.symm) hk
          · have := ih' { e with y := setY k' v e.y }
            refine ⟨?_, fun hkm => (this.2 hkm)⟩
            rw [this.1]
            exact setY_lookup_ne k' k v e.y (Ne.symm hk)

theorem setY_self (k : String) (v : Rat) (y : List (String × Rat)) (h : y.lookup k = some v ∨ y.lookup k = none) :
    setY k v y = y := by
  induction y with
  | nil => rfl
  | cons a as ih =>
      obtain ⟨k', v'⟩ := a
      simp only [setY]
      by_cases hk : k' = k
      · subst hk
        simp only [if_true]
        rcases h with h | h
        · simp at h; rw [h]
        · simp at h
      · simp only [hk, if_false]
        have hb : (k == k') = false := by simp [Ne.symm hk]
        rw [ih]
        simpa [List.lookup_cons, hb] using h

/-- cells that only repeat what the entry already holds leave it unchanged -/
theorem applyCells_self (e : Entry) (cells : List (String × Option Rat))
    (h : ∀ c ∈ cells, ∀ v, c.2 = some v → (c.1 = metaCol ∧ v = e.metaY) ∨ (c.1 ≠ metaCol ∧ (e.y.lookup c.1 = some v ∨ e.y.lookup c.1 = none))) :
    applyCells e cells = e := by
  induction cells with
  | nil => rfl
  | cons c cs ih =>
      obtain ⟨k, v⟩ := c
      have ih' := ih (fun c hc => h c (by simp [hc]))
      cases v with
      | none => simpa [applyCells] using ih'
      | some v =>
          simp only [applyCells]
          rcases h (k, some v) (by simp) v rfl with ⟨hk, hv⟩ | ⟨hk, hv⟩
          · simp only at hk hv
            simp only [hk, if_true]
            subst hv
            exact ih'
          · simp only at hk hv
            simp only [hk, if_false]
            rw [setY_self k v e.y hv]
            exact ih'

/-- rows that each address an existing entry and only repeat its values leave the parameter set unchanged -/
theorem loadRows_self (t : Table) (p : ParSet)
    (h : ∀ r ∈ t, ∃ i e, find p r.par r.pop = .entry i ∧ p[i]? = some e ∧ applyCells e r.cells = e) :
    loadRows t p = .ok p := by
  induction t with
  | nil => rfl
  | cons r rest ih =>
      obtain ⟨i, e, hf, hi, ha⟩ := h r (by simp)
      simp only [loadRows, hf]
      rw [modify_eq_self p i _ e hi ha]
      exact ih (fun r' hr' => h r' (by simp [hr']))

/-! ### round trip of the library's own file -/

/-- Well-formed y-factor state: distinct (par, pop) keys; a name is either a framework quantity (no population) or a
    transfer/interaction (per source population), never both; no population is called `meta_y_factor`. -/
def WFp (p : ParSet) : Prop :=
  (keys p).Nodup
  ∧ (∀ e ∈ p, e.pop.isSome → isParName p e.par = false)
  ∧ (∀ e ∈ p, metaCol ∉ e.y.map (·.1))

instance (p : ParSet) : Decidable (WFp p) := by unfold WFp; infer_instance

theorem lookup_none_of_not_mem (k : String) (y : List (String × Rat)) (h : k ∉ y.map (·.1)) : y.lookup k = none := by
  induction y with
  | nil => rfl
  | cons a as ih =>
      obtain ⟨k', v⟩ := a
      simp only [List.map_cons, List.mem_cons, not_or] at h
      have hb : (k == k') = false := by simp [h.1]
      simp [List.lookup_cons, hb, ih h.2]

theorem entryDict_wf (e : Entry) (h : metaCol ∉ e.y.map (·.1)) : entryDict e = (metaCol, e.metaY) :: e.y := by
  unfold entryDict
  rw [lookup_none_of_not_mem _ _ h]

theorem keys_index_inj (p : ParSet) (hn : (keys p).Nodup) (i j : Nat) (a b : Entry)
    (hi : p[i]? = some a) (hj : p[j]? = some b) (hk : (a.par, a.pop) = (b.par, b.pop)) : i = j := by
  have hi' : (keys p)[i]? = some (a.par, a.pop) := by simp [keys, hi]
  have hj' : (keys p)[j]? = some (b.par, b.pop) := by simp [keys, hj]
  obtain ⟨h1, e1⟩ := List.getElem?_eq_some_iff.mp hi'
  obtain ⟨h2, e2⟩ := List.getElem?_eq_some_iff.mp hj'
  exact (hn.getElem_inj_iff (hi := h1) (hj := h2)).mp (by rw [e1, e2, hk])

/-- in a well-formed state, `get_par` finds every entry under its own key -/
theorem find_own (p : ParSet) (h : WFp p) (i : Nat) (e : Entry) (hi : p[i]? = some e) :
    find p e.par e.pop = .entry i := by
  obtain ⟨hn, hkind, _⟩ := h
  have hmem : e ∈ p := List.mem_of_getElem? hi
  obtain ⟨hlt, hget⟩ := List.getElem?_eq_some_iff.mp hi
  unfold find
  cases hpop : e.pop with
  | none =>
      have hany : isParName p e.par = true := by
        unfold isParName
        exact List.any_eq_true.mpr ⟨e, hmem, by simp [hpop]⟩
      simp only [hany, if_true]
      cases hf : p.findIdx? (fun e' => e'.par == e.par && e'.pop.isNone) with
      | none =>
          have := (List.findIdx?_eq_none_iff.mp hf) e hmem
          simp [hpop] at this
      | some j =>
          obtain ⟨hj, hp, _⟩ := List.findIdx?_eq_some_iff_getElem.mp hf
          simp only [Bool.and_eq_true, beq_iff_eq, Option.isNone_iff_eq_none] at hp
          have : j = i := keys_index_inj p hn j i p[j] e (by simp [hj]) hi (by rw [hp.1, hp.2, hpop])
          rw [this]
  | some s =>
      have hnot : isParName p e.par = false := hkind e hmem (by simp [hpop])
      have hany : isTdcName p e.par = true := by
        unfold isTdcName
        exact List.any_eq_true.mpr ⟨e, hmem, by simp [hpop]⟩
      simp only [hnot, hany, if_true, Bool.false_eq_true, if_false]
      cases hf : p.findIdx? (fun e' => e'.par == e.par && e'.pop == some s) with
      | none =>
          have := (List.findIdx?_eq_none_iff.mp hf) e hmem
          simp [hpop] at this
      | some j =>
          obtain ⟨hj, hp, _⟩ := List.findIdx?_eq_some_iff_getElem.mp hf
          simp only [Bool.and_eq_true, beq_iff_eq] at hp
          have : j = i := keys_index_inj p hn j i p[j] e (by simp [hj]) hi (by rw [hp.1, hp.2, hpop])
          rw [this]

theorem save_keys (p : ParSet) : (save p).map keyOf = keys p := by
  simp [save, keys, keyOf, Function.comp_def]

theorem applyCells_own (e : Entry) (cols : List String) (h : metaCol ∉ e.y.map (·.1)) :
    applyCells e (cols.map fun c => (c, (entryDict e).lookup c)) = e := by
  apply applyCells_self
  intro c hc v hv
  obtain ⟨k, hk, rfl⟩ := List.mem_map.mp hc
  simp only at hv ⊢
  rw [entryDict_wf e h] at hv
  by_cases hkm : k = metaCol
  · left
    subst hkm
    simp at hv
    exact ⟨rfl, hv.symm⟩
  · right
    have hb : (k == metaCol) = false := by simp [hkm]
    simp only [List.lookup_cons, hb] at hv
    exact ⟨hkm, Or.inl hv⟩

/-! ### transfer of y-factors between parameter sets of the same shape -/

def shape (e : Entry) : String × Option String × List String := (e.par, e.pop, e.y.map (·.1))

def SameShape (p p' : ParSet) : Prop := p.map shape = p'.map shape

instance (p p' : ParSet) : Decidable (SameShape p p') := by unfold SameShape; infer_instance

theorem sameShape_keys {p p' : ParSet} (h : SameShape p p') : keys p' = keys p := by
  unfold SameShape at h
  unfold keys
  have : ∀ (l : ParSet), l.map (fun e => (e.par, e.pop)) = (l.map shape).map (fun s => (s.1, s.2.1)) := by
    intro l; simp [shape, Function.comp_def]
  rw [this p, this p', h]

/-! #### columns of the sheet -/

theorem addNew_nodup (acc ks : List String) (h : acc.Nodup) : (addNew acc ks).Nodup := by
  unfold addNew
  induction ks generalizing acc with
  | nil => exact h
  | cons k ks ih =>
      simp only [List.foldl_cons]
      apply ih
      split
      · exact h
      · rename_i hc
        apply List.Nodup.append h (by simp)
        intro a ha hb
        simp at hb
        subst hb
        exact hc (by simpa using ha)

theorem addNew_subset_acc (acc ks : List String) : ∀ a ∈ acc, a ∈ addNew acc ks := by
  unfold addNew
  induction ks generalizing acc with
  | nil => intro a ha; exact ha
  | cons k ks ih =>
      intro a ha
      simp only [List.foldl_cons]
      apply ih
      split
      · exact ha
      · exact List.mem_append_left _ ha

theorem addNew_subset_ks (acc ks : List String) : ∀ k ∈ ks, k ∈ addNew acc ks := by
  induction ks generalizing acc with
  | nil => intro k hk; cases hk
  | cons k0 ks ih =>
      intro k hk
      unfold addNew
      simp only [List.foldl_cons]
      rcases List.mem_cons.mp hk with h | h
      · subst h
        apply addNew_subset_acc
        split
        · rename_i hc; simpa using hc
        · simp
      · exact ih _ k h

theorem columns_aux (p : ParSet) (acc : List String) (hacc : acc.Nodup) :
    (p.foldl (fun acc e => addNew acc (metaCol :: e.y.map (·.1))) acc).Nodup
    ∧ (∀ a ∈ acc, a ∈ p.foldl (fun acc e => addNew acc (metaCol :: e.y.map (·.1))) acc)
    ∧ (∀ e ∈ p, ∀ k ∈ metaCol :: e.y.map (·.1), k ∈ p.foldl (fun acc e => addNew acc (metaCol :: e.y.map (·.1))) acc) := by
  induction p generalizing acc with
  | nil => exact ⟨hacc, fun a ha => ha, fun e he => by cases he⟩
  | cons e es ih =>
      simp only [List.foldl_cons]
      obtain ⟨h1, h2, h3⟩ := ih (addNew acc (metaCol :: e.y.map (·.1))) (addNew_nodup _ _ hacc)
      refine ⟨h1, fun a ha => h2 a (addNew_subset_acc _ _ a ha), ?_⟩
      intro e' he' k hk
      rcases List.mem_cons.mp he' with h | h
      · subst h
        exact h2 k (addNew_subset_ks _ _ k hk)
      · exact h3 e' h k hk

theorem columns_facts (p : ParSet) :
    (columns p).Nodup ∧ (∀ e ∈ p, metaCol ∈ columns p ∧ ∀ k ∈ e.y.map (·.1), k ∈ columns p) := by
  obtain ⟨h1, _, h3⟩ := columns_aux p [] List.nodup_nil
  refine ⟨h1, fun e he => ⟨h3 e he metaCol (by simp), fun k hk => h3 e he k (by simp [hk])⟩⟩

/-! #### what one row does to one entry -/

def metaFold (cells : List (String × Option Rat)) (m : Rat) : Rat :=
  cells.foldl (fun m c => match c.2 with
    | some v => if c.1 = metaCol then v else m
    | none => m) m

def yFold (cells : List (String × Option Rat)) (y : List (String × Rat)) : List (String × Rat) :=
  cells.foldl (fun y c => match c.2 with
    | some v => if c.1 = metaCol then y else setY c.1 v y
    | none => y) y

theorem applyCells_eq (e : Entry) (cells : List (String × Option Rat)) :
    applyCells e cells = { e with metaY := metaFold cells e.metaY, y := yFold cells e.y } := by
  induction cells generalizing e with
  | nil => rfl
  | cons c cs ih =>
      obtain ⟨k, v⟩ := c
      cases v with
      | none => simpa [applyCells, metaFold, yFold] using ih e
      | some v =>
          simp only [applyCells]
          split
          · rename_i hk
            rw [ih]
            simp [metaFold, yFold, hk]
          · rename_i hk
            rw [ih]
            simp [metaFold, yFold, hk]

theorem yFold_keys (cells : List (String × Option Rat)) (y : List (String × Rat)) :
    (yFold cells y).map (·.1) = y.map (·.1) := by
  unfold yFold
  induction cells generalizing y with
  | nil => rfl
  | cons c cs ih =>
      simp only [List.foldl_cons]
      rw [ih]
      cases c.2 with
      | none => rfl
      | some v =>
          simp only
          split
          · rfl
          · exact setY_keys _ _ _

theorem setY_lookup_eq (k : String) (v : Rat) (y : List (String × Rat)) (h : k ∈ y.map (·.1)) :
    (setY k v y).lookup k = some v := by
  induction y with
  | nil => simp at h
  | cons a as ih =>
      obtain ⟨k', v'⟩ := a
      simp only [setY]
      by_cases hk : k' = k
      · subst hk; simp [List.lookup_cons]
      · simp only [hk, if_false]
        have hb : (k == k') = false := by simp [Ne.symm hk]
        simp only [List.lookup_cons, hb]
        apply ih
        simp only [List.map_cons, List.mem_cons] at h
        rcases h with h | h
        · exact absurd h.symm hk
        · exact h

theorem yFold_lookup (G : String → Option Rat) (cols : List String) (y : List (String × Rat)) (k : String)
    (hk : k ∈ y.map (·.1)) (hm : k ≠ metaCol) :
    (yFold (cols.map fun c => (c, G c)) y).lookup k
      = (if k ∈ cols then (match G k with | some v => some v | none => y.lookup k) else y.lookup k) := by
  induction cols generalizing y with
  | nil => simp [yFold]
  | cons c cs ih =>
      have unfold1 : yFold (((c :: cs).map fun c => (c, G c))) y
          = yFold (cs.map fun c => (c, G c)) (match G c with
              | some v => if c = metaCol then y else setY c v y
              | none => y) := by
        simp [yFold]
      rw [unfold1]
      cases hG : G c with
      | none =>
          simp only
          rw [ih y hk]
          by_cases hkc : k = c
          · subst hkc; simp [hG]
          · simp [hkc]
      | some v =>
          simp only
          by_cases hcm : c = metaCol
          · simp only [hcm, if_true]
            rw [ih y hk]
            have hkc : k ≠ c := by rw [hcm]; exact hm
            simp [hkc, hcm ▸ hkc]
          · simp only [hcm, if_false]
            rw [ih (setY c v y) (by rw [setY_keys]; exact hk)]
            by_cases hkc : k = c
            · subst hkc
              simp only [List.mem_cons, true_or, if_true, hG]
              rw [setY_lookup_eq k v y hk]
              split <;> rfl
            · rw [setY_lookup_ne c k v y hkc]
              simp [hkc]

theorem metaFold_cols (G : String → Option Rat) (cols : List String) (m m0 : Rat) (hG : G metaCol = some m0) :
    metaFold (cols.map fun c => (c, G c)) m = if metaCol ∈ cols then m0 else m := by
  induction cols generalizing m with
  | nil => simp [metaFold]
  | cons c cs ih =>
      have unfold1 : metaFold (((c :: cs).map fun c => (c, G c))) m
          = metaFold (cs.map fun c => (c, G c)) (match G c with
              | some v => if c = metaCol then v else m
              | none => m) := by
        simp [metaFold]
      rw [unfold1, ih]
      by_cases hc : c = metaCol
      · subst hc
        simp [hG]
      · have : metaCol ≠ c := Ne.symm hc
        cases G c <;> simp [hc, this]

theorem assoc_ext (y1 y2 : List (String × Rat)) (hk : y1.map (·.1) = y2.map (·.1)) (hn : (y1.map (·.1)).Nodup)
    (hl : ∀ k ∈ y1.map (·.1), y1.lookup k = y2.lookup k) : y1 = y2 := by
  induction y1 generalizing y2 with
  | nil =>
      cases y2 with
      | nil => rfl
      | cons b bs => simp at hk
  | cons a as ih =>
      cases y2 with
      | nil => simp at hk
      | cons b bs =>
          obtain ⟨ka, va⟩ := a
          obtain ⟨kb, vb⟩ := b
          simp only [List.map_cons, List.cons.injEq] at hk
          obtain ⟨hkab, hks⟩ := hk
          subst hkab
          have hn' : ka ∉ as.map (·.1) ∧ (as.map (·.1)).Nodup := by
            rw [List.map_cons] at hn
            exact List.nodup_cons.mp hn
          have hv : va = vb := by
            have := hl ka (by simp)
            simpa [List.lookup_cons] using this
          subst hv
          congr 1
          apply ih bs hks hn'.2
          intro k hk'
          have hne : k ≠ ka := by intro h; exact hn'.1 (h ▸ hk')
          have hb : (k == ka) = false := by simp [hne]
          have := hl k (by simp [hk'])
          simpa [List.lookup_cons, hb] using this

theorem lookup_some_of_mem (k : String) (y : List (String × Rat)) (h : k ∈ y.map (·.1)) : ∃ v, y.lookup k = some v := by
  induction y with
  | nil => simp at h
  | cons a as ih =>
      obtain ⟨k', v'⟩ := a
      by_cases hk : k = k'
      · subst hk; exact ⟨v', by simp [List.lookup_cons]⟩
      · have hb : (k == k') = false := by simp [hk]
        simp only [List.map_cons, List.mem_cons] at h
        rcases h with h | h
        · exact absurd h hk
        · obtain ⟨v, hv⟩ := ih h
          exact ⟨v, by simp [List.lookup_cons, hb, hv]⟩

/-- the cells written for `e`, applied to any entry of the same shape, give `e` -/
theorem applyCells_transfer (e e' : Entry) (cols : List String) (hs : shape e' = shape e)
    (hm : metaCol ∉ e.y.map (·.1)) (hn : (e.y.map (·.1)).Nodup) (hmc : metaCol ∈ cols)
    (hsub : ∀ k ∈ e.y.map (·.1), k ∈ cols) :
    applyCells e' (cols.map fun c => (c, (entryDict e).lookup c)) = e := by
  rw [applyCells_eq, entryDict_wf e hm]
  simp only [shape, Prod.mk.injEq] at hs
  obtain ⟨hpar, hpop, hkeys⟩ := hs
  have hmeta : metaFold (cols.map fun c => (c, ((metaCol, e.metaY) :: e.y).lookup c)) e'.metaY = e.metaY := by
    rw [metaFold_cols _ cols e'.metaY e.metaY (by simp [List.lookup_cons])]
    simp [hmc]
  have hy : yFold (cols.map fun c => (c, ((metaCol, e.metaY) :: e.y).lookup c)) e'.y = e.y := by
    apply assoc_ext
    · rw [yFold_keys, hkeys]
    · rw [yFold_keys, hkeys]; exact hn
    · intro k hk
      rw [yFold_keys, hkeys] at hk
      have hkm : k ≠ metaCol := fun h => hm (h ▸ hk)
      rw [yFold_lookup _ cols e'.y k (by rw [hkeys]; exact hk) hkm]
      have hb : (k == metaCol) = false := by simp [hkm]
      obtain ⟨v, hv⟩ := lookup_some_of_mem k e.y hk
      simp [hsub k hk, List.lookup_cons, hb, hv]
  rw [hmeta, hy]
  cases e; cases e'
  simp_all

/-! #### the whole file -/

theorem modify_append_length {α} (l1 : List α) (a : α) (l2 : List α) (f : α → α) :
    (l1 ++ a :: l2).modify l1.length f = l1 ++ f a :: l2 := by
  induction l1 with
  | nil => simp [List.modify_cons]
  | cons x xs ih => simp [List.modify_cons, ih]

theorem keys_of_shapes {q p : ParSet} (h : q.map shape = p.map shape) : keys q = keys p :=
  (sameShape_keys (p := p) (p' := q) h.symm)

def rowOf (cols : List String) (e : Entry) : TRow :=
  { par := e.par, pop := e.pop, cells := cols.map fun c => (c, (entryDict e).lookup c) }

theorem save_eq (p : ParSet) : save p = p.map (rowOf (columns p)) := rfl

theorem transfer_aux (p : ParSet) (hwf : WFp p) (hny : ∀ e ∈ p, (e.y.map (·.1)).Nodup) :
    ∀ (suf pre suf' : ParSet), p = pre ++ suf → suf.map shape = suf'.map shape →
      loadRows (suf.map (rowOf (columns p))) (pre ++ suf') = .ok p := by
  intro suf
  induction suf with
  | nil =>
      intro pre suf' hp hs
      have : suf' = [] := by
        cases suf' with
        | nil => rfl
        | cons a as => simp at hs
      subst this
      simp [loadRows, hp]
  | cons e es ih =>
      intro pre suf' hp hs
      cases suf' with
      | nil => simp at hs
      | cons e' es' =>
          simp only [List.map_cons, List.cons.injEq] at hs
          obtain ⟨hse, hses⟩ := hs
          have hmem : e ∈ p := by rw [hp]; simp
          have hidx : p[pre.length]? = some e := by rw [hp]; simp
          have hkeys : keys (pre ++ e' :: es') = keys p := by
            apply keys_of_shapes
            rw [hp]
            simp [hse, hses]
          have hfind : find (pre ++ e' :: es') e.par e.pop = .entry pre.length := by
            rw [find_congr hkeys]
            exact find_own p hwf pre.length e hidx
          obtain ⟨hcn, hcf⟩ := columns_facts p
          have happly : applyCells e' ((columns p).map fun c => (c, (entryDict e).lookup c)) = e :=
            applyCells_transfer e e' (columns p) hse.symm (hwf.2.2 e hmem) (hny e hmem) (hcf e hmem).1 (hcf e hmem).2
          simp only [List.map_cons, loadRows, rowOf, hfind]
          rw [modify_append_length, happly]
          have := ih (pre ++ [e]) es' (by rw [hp]; simp) hses
          simpa using this

/-- `yfactor_transfer`: the file written for `p`, loaded into **any** parameter set of the same shape (same entries,
    same populations per entry), gives exactly `p` — whatever y-factors the target held before. -/
theorem load_save_transfer (p p' : ParSet) (hwf : WFp p) (hny : ∀ e ∈ p, (e.y.map (·.1)).Nodup)
    (hs : SameShape p p') : load (save p) p' = .ok p := by
  have hd : hasDup (save p) = false := by
    unfold hasDup
    rw [save_keys]
    simpa using hwf.1
  unfold load
  simp only [hd, Bool.false_eq_true, if_false]
  have := transfer_aux p hwf hny p [] p' (by simp) hs
  rw [save_eq]
  simpa using this

end Atomica.Tables.YF
