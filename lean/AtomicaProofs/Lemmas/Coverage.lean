/-
  Lemmas about the saturation curve `x ↦ 2s/(1+E(-2x/s)) - s` over an arbitrary linearly ordered field,
  for an abstract `E` that is positive, monotone and has `E 0 = 1` (`ExpLike`), plus — for the comparison
  with the raw fraction only — the (1,1)-Padé lower bound `(2-u)/(2+u) ≤ E(-u)` (`PadeBound`).
  Instantiated with `K = ℚ` (the executable model, AtomicaProofs/Properties/C11.lean) and with
  `K = ℝ`, `E = Real.exp` (AtomicaProofs/Properties/C11Real.lean).
-/
import Mathlib.Algebra.Order.Field.Basic
import Mathlib.Order.Monotone.Basic
import Mathlib.Tactic.Linarith
import Mathlib.Tactic.Ring
import Mathlib.Tactic.FieldSimp
import Mathlib.Tactic.Positivity

namespace Atomica.CoverageLemmas

variable {K : Type*} [Field K] [LinearOrder K] [IsStrictOrderedRing K]

/-- what the theorems need to know about `exp` -/
structure ExpLike (E : K → K) : Prop where
  pos : ∀ x, 0 < E x
  mono : Monotone E
  zero : E 0 = 1

/-- `tanh y ≤ y` in disguise: `(2-u)/(2+u) ≤ E(-u)` for `u ≥ 0` -/
def PadeBound (E : K → K) : Prop := ∀ u, 0 ≤ u → 2 - u ≤ E (-u) * (2 + u)

/-- the saturation curve on the raw fraction `x`, before the cap at 1 -/
def curve (E : K → K) (s x : K) : K := 2 * s / (1 + E (-2 * x / s)) - s

theorem arg_nonpos {s x : K} (hs : 0 < s) (hx : 0 ≤ x) : -2 * x / s ≤ 0 := by
  apply div_nonpos_of_nonpos_of_nonneg _ hs.le
  linarith

omit [IsStrictOrderedRing K] in
theorem E_le_one {E : K → K} (hE : ExpLike E) {a : K} (ha : a ≤ 0) : E a ≤ 1 := by
  have := hE.mono ha
  rwa [hE.zero] at this

/-- core algebra: for `0 < e ≤ 1`, `0 ≤ 2s/(1+e) - s < s` -/
theorem core_nonneg {s e : K} (hs : 0 < s) (he0 : 0 < e) (he1 : e ≤ 1) : 0 ≤ 2 * s / (1 + e) - s := by
  have h1 : 0 < 1 + e := by linarith
  rw [sub_nonneg, le_div_iff₀ h1]
  nlinarith

theorem core_lt_sat {s e : K} (hs : 0 < s) (he0 : 0 < e) : 2 * s / (1 + e) - s < s := by
  have h1 : 0 < 1 + e := by linarith
  rw [sub_lt_iff_lt_add, div_lt_iff₀ h1]
  nlinarith

/-- the curve is antitone in `e` -/
theorem core_anti {s e₁ e₂ : K} (hs : 0 < s) (h1 : 0 < e₁) (h12 : e₁ ≤ e₂) :
    2 * s / (1 + e₂) - s ≤ 2 * s / (1 + e₁) - s := by
  have ha : 0 < 1 + e₁ := by linarith
  have hb : 0 < 1 + e₂ := by linarith
  have : 2 * s / (1 + e₂) ≤ 2 * s / (1 + e₁) := by
    apply div_le_div_of_nonneg_left (by positivity) ha (by linarith)
  linarith

theorem curve_nonneg {E : K → K} (hE : ExpLike E) {s x : K} (hs : 0 < s) (hx : 0 ≤ x) :
    0 ≤ curve E s x :=
  core_nonneg hs (hE.pos _) (E_le_one hE (arg_nonpos hs hx))

theorem curve_lt_sat {E : K → K} (hE : ExpLike E) {s : K} (x : K) (hs : 0 < s) :
    curve E s x < s :=
  core_lt_sat hs (hE.pos _)

theorem curve_zero {E : K → K} (hE : ExpLike E) (s : K) : curve E s 0 = 0 := by
  have : (-2 : K) * 0 / s = 0 := by simp
  rw [curve, this, hE.zero]
  have : (1 : K) + 1 = 2 := by norm_num
  rw [this]
  field_simp
  ring

theorem curve_mono {E : K → K} (hE : ExpLike E) {s x y : K} (hs : 0 < s) (hxy : x ≤ y) :
    curve E s x ≤ curve E s y := by
  apply core_anti hs (hE.pos _)
  apply hE.mono
  apply div_le_div_of_nonneg_right _ hs.le
  linarith

/-- with the Padé bound the saturated coverage never exceeds the raw fraction -/
theorem curve_le_raw {E : K → K} (hP : PadeBound E) (hE : ExpLike E) {s x : K} (hs : 0 < s) (hx : 0 ≤ x) :
    curve E s x ≤ x := by
  have hu : 0 ≤ 2 * x / s := by positivity
  have hp := hP (2 * x / s) hu
  have harg : -(2 * x / s) = -2 * x / s := by ring
  rw [harg] at hp
  unfold curve
  set e := E (-2 * x / s) with he
  have he0 : 0 < e := hE.pos _
  have h1 : 0 < 1 + e := by linarith
  rw [sub_le_iff_le_add, div_le_iff₀ h1]
  -- hp : 2 - 2x/s ≤ e (2 + 2x/s); multiply by s
  have hp' : (2 - 2 * x / s) * s ≤ e * (2 + 2 * x / s) * s := mul_le_mul_of_nonneg_right hp hs.le
  have e1 : (2 - 2 * x / s) * s = 2 * s - 2 * x := by field_simp
  have e2 : e * (2 + 2 * x / s) * s = e * (2 * s + 2 * x) := by field_simp
  rw [e1, e2] at hp'
  nlinarith

end Atomica.CoverageLemmas
