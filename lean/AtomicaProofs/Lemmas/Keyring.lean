/-
  Lemmas about the abstract keyring `Atomica.Timed.krows` (sliding window with survival factors).
  The property theorems built from them are in `AtomicaProofs/Properties/C05.lean`.
-/
import AtomicaModel.Timed
import AtomicaProofs.Lemmas.Sums
import Mathlib.Algebra.Order.BigOperators.Ring.Finset
import Mathlib.Tactic.Linarith
import Mathlib.Tactic.Ring
import Mathlib.Tactic.FieldSimp
import Mathlib.Tactic.NormNum

namespace Atomica.Timed
open Finset Atomica

/-- fraction of the cohort that arrived at step `s` which is still there `k` steps after it entered the last row
    (at step `s+1+j` it sits in row `n-1-j`) -/
def cohortSurv (n : Nat) (σ : Nat → Nat → Rat) (s k : Nat) : Rat :=
  ∏ j ∈ range k, σ (s + 1 + j) (n - 1 - j)

/-- fraction of the initial occupants of row `r0` still there after `t` steps (at step `j` they sit in row `r0-j`) -/
def initSurv (σ : Nat → Nat → Rat) (r0 t : Nat) : Rat :=
  ∏ j ∈ range t, σ j (r0 - j)

theorem kstep_lt {n : Nat} {σ : Nat → Rat} {a : Rat} {rows : Nat → Rat} {r : Nat} (h : r + 1 < n) :
    kstep n σ a rows r = σ (r + 1) * rows (r + 1) := by
  simp [kstep, h]

theorem kstep_last {n : Nat} {σ : Nat → Rat} {a : Rat} {rows : Nat → Rat} {r : Nat} (h : r + 1 = n) :
    kstep n σ a rows r = a := by
  have : ¬ r + 1 < n := by omega
  simp [kstep, h]

theorem kstep_beyond {n : Nat} {σ : Nat → Rat} {a : Rat} {rows : Nat → Rat} {r : Nat} (h : n ≤ r) :
    kstep n σ a rows r = 0 := by
  have h1 : ¬ r + 1 < n := by omega
  have h2 : ¬ r + 1 = n := by omega
  simp [kstep, h1, h2]

theorem krows_succ (n : Nat) (σ : Nat → Nat → Rat) (a : Nat → Rat) (init : Nat → Rat) (t : Nat) :
    krows n σ a init (t + 1) = kstep n (σ t) (a t) (krows n σ a init t) := rfl

/-- nobody sits beyond the last row -/
theorem krows_beyond (n : Nat) (σ : Nat → Nat → Rat) (a init : Nat → Rat) (hinit : ∀ r, n ≤ r → init r = 0)
    (t r : Nat) (h : n ≤ r) : krows n σ a init t r = 0 := by
  cases t with
  | zero => exact hinit r h
  | succ t => rw [krows_succ]; exact kstep_beyond h

/-- the cohort that arrives at step `s`: `k` steps after entering it sits in row `n-1-k`, reduced only by the
    survival factors it met -/
theorem krows_cohort (n : Nat) (σ : Nat → Nat → Rat) (a init : Nat → Rat) (s k : Nat) (hk : k < n) :
    krows n σ a init (s + 1 + k) (n - 1 - k) = a s * cohortSurv n σ s k := by
  induction k with
  | zero =>
    simp only [Nat.add_zero, Nat.sub_zero, cohortSurv, range_zero, prod_empty, mul_one]
    rw [krows_succ]
    exact kstep_last (by omega)
  | succ k ih =>
    have hk' : k < n := by omega
    have e1 : s + 1 + (k + 1) = (s + 1 + k) + 1 := by omega
    rw [e1, krows_succ, kstep_lt (by omega)]
    have e2 : n - 1 - (k + 1) + 1 = n - 1 - k := by omega
    rw [e2, ih hk', cohortSurv, cohortSurv, prod_range_succ]
    ring

/-- the initial occupants of row `r+t` sit in row `r` at step `t` -/
theorem krows_init (n : Nat) (σ : Nat → Nat → Rat) (a init : Nat → Rat) (t : Nat) :
    ∀ r, r + t < n → krows n σ a init t r = init (r + t) * initSurv σ (r + t) t := by
  induction t with
  | zero => intro r _; simp [krows, initSurv]
  | succ t ih =>
    intro r h
    rw [krows_succ, kstep_lt (by omega), ih (r + 1) (by omega)]
    have e : r + 1 + t = r + (t + 1) := by omega
    rw [e, initSurv, initSurv, prod_range_succ]
    have e2 : r + (t + 1) - t = r + 1 := by omega
    rw [e2]
    ring

theorem cohortSurv_one (n : Nat) (σ : Nat → Nat → Rat) (hσ : ∀ u r, σ u r = 1) (s k : Nat) : cohortSurv n σ s k = 1 := by
  simp [cohortSurv, hσ]

theorem initSurv_one (σ : Nat → Nat → Rat) (hσ : ∀ u r, σ u r = 1) (r0 t : Nat) : initSurv σ r0 t = 1 := by
  simp [initSurv, hσ]

theorem cohortSurv_nonneg (n : Nat) (σ : Nat → Nat → Rat) (h0 : ∀ u r, 0 ≤ σ u r) (s k : Nat) : 0 ≤ cohortSurv n σ s k :=
  prod_nonneg (fun _ _ => h0 _ _)

theorem cohortSurv_le_one (n : Nat) (σ : Nat → Nat → Rat) (h0 : ∀ u r, 0 ≤ σ u r) (h1 : ∀ u r, σ u r ≤ 1) (s k : Nat) :
    cohortSurv n σ s k ≤ 1 :=
  prod_le_one (fun _ _ => h0 _ _) (fun _ _ => h1 _ _)

theorem initSurv_nonneg (σ : Nat → Nat → Rat) (h0 : ∀ u r, 0 ≤ σ u r) (r0 t : Nat) : 0 ≤ initSurv σ r0 t :=
  prod_nonneg (fun _ _ => h0 _ _)

theorem initSurv_le_one (σ : Nat → Nat → Rat) (h0 : ∀ u r, 0 ≤ σ u r) (h1 : ∀ u r, σ u r ≤ 1) (r0 t : Nat) :
    initSurv σ r0 t ≤ 1 :=
  prod_le_one (fun _ _ => h0 _ _) (fun _ _ => h1 _ _)

/-- closed form of every row in "(t, r)" coordinates -/
theorem krows_closed (n : Nat) (σ : Nat → Nat → Rat) (a init : Nat → Rat) (t r : Nat) (hr : r < n) :
    krows n σ a init t r =
      if n - r ≤ t then a (t - (n - r)) * cohortSurv n σ (t - (n - r)) (n - 1 - r)
      else init (r + t) * initSurv σ (r + t) t := by
  by_cases h : n - r ≤ t
  · rw [if_pos h]
    have := krows_cohort n σ a init (t - (n - r)) (n - 1 - r) (by omega)
    have e1 : t - (n - r) + 1 + (n - 1 - r) = t := by omega
    have e2 : n - 1 - (n - 1 - r) = r := by omega
    rw [e1, e2] at this
    exact this
  · rw [if_neg h]
    exact krows_init n σ a init t r (by omega)

/-- arrivals of the `n` steps preceding step `t` (fewer when `t < n`) -/
def window (a : Nat → Rat) (n t : Nat) : Rat := sumTo n (fun j => if j + 1 ≤ t then a (t - (j + 1)) else 0)

theorem sumTo_reflect (n : Nat) (f : Nat → Rat) : sumTo n (fun r => f (n - 1 - r)) = sumTo n f := by
  rw [sumTo_eq_sum, sumTo_eq_sum]
  exact Finset.sum_range_reflect f n

theorem sumTo_const (n : Nat) (c : Rat) : sumTo n (fun _ => c) = (n : Rat) * c := by
  induction n with
  | zero => simp [sumTo]
  | succ n ih => simp only [sumTo, ih]; push_cast; ring

/-- the part of the occupancy made of arrivals is the window sum; the rest are unexpired initial occupants -/
theorem total_split (n : Nat) (σ : Nat → Nat → Rat) (a init : Nat → Rat) (t : Nat) :
    total n σ a init t =
      sumTo n (fun j => if j + 1 ≤ t then a (t - (j + 1)) * cohortSurv n σ (t - (j + 1)) j else 0)
      + sumTo n (fun r => if r + t < n then init (r + t) * initSurv σ (r + t) t else 0) := by
  unfold total
  have h1 : sumTo n (krows n σ a init t) =
      sumTo n (fun r => (if n - r ≤ t then a (t - (n - r)) * cohortSurv n σ (t - (n - r)) (n - 1 - r) else 0)
        + (if r + t < n then init (r + t) * initSurv σ (r + t) t else 0)) := by
    apply sumTo_congr
    intro r hr
    rw [krows_closed n σ a init t r hr]
    by_cases h : n - r ≤ t
    · have : ¬ r + t < n := by omega
      simp [h, this]
    · have : r + t < n := by omega
      simp [h, this]
  rw [h1, sumTo_add]
  congr 1
  rw [← sumTo_reflect n (fun j => if j + 1 ≤ t then a (t - (j + 1)) * cohortSurv n σ (t - (j + 1)) j else 0)]
  apply sumTo_congr
  intro r hr
  have e1 : n - 1 - r + 1 = n - r := by omega
  simp only [e1]

/-- number of rows still holding initial occupants at step `t`, for the uniform initial distribution -/
theorem init_count (n : Nat) (c : Rat) (t : Nat) :
    sumTo n (fun r => if r + t < n then c else 0) = ((n - t : Nat) : Rat) * c := by
  have : sumTo n (fun r => if r + t < n then c else 0) = sumTo n (fun r => if r < n - t then c else 0) := by
    apply sumTo_congr; intro r _
    by_cases h : r + t < n
    · have : r < n - t := by omega
      simp [h, this]
    · have : ¬ r < n - t := by omega
      simp [h, this]
  rw [this, sumTo_ite_lt (Nat.sub_le n t), sumTo_const]

/-! ## rows that also receive people below the last row (timed links) -/

/-- general sliding-window bound: rows that advance by one per step, only ever lose people on the way, and receive
    `B t r ≥ 0` into row `r` (after the shift) at step `t`, with `Σ_r B t r ≤ arr t` -/
theorem window_bound_general (n T : Nat) (R B : Nat → Nat → Rat) (arr : Nat → Rat)
    (hB0 : ∀ t r, 0 ≤ B t r) (hBarr : ∀ t, t < T → ∑ r ∈ range n, B t r ≤ arr t)
    (hstep : ∀ t, t < T → ∀ r, r < n → R (t + 1) r ≤ (if r + 1 < n then R t (r + 1) else 0) + B t r) :
    ∀ t, t ≤ T → ∀ lo, ∑ r ∈ Ico lo n, R t r
      ≤ ∑ j ∈ range t, (if lo + j < n then arr (t - 1 - j) else 0) + ∑ r ∈ Ico (lo + t) n, R 0 r := by
  intro t
  induction t with
  | zero => intro _ lo; simp
  | succ t ih =>
    intro ht lo
    have ht' : t < T := by omega
    -- one step
    have h1 : ∑ r ∈ Ico lo n, R (t + 1) r
        ≤ ∑ r ∈ Ico lo n, (if r + 1 < n then R t (r + 1) else 0) + ∑ r ∈ Ico lo n, B t r := by
      rw [← Finset.sum_add_distrib]
      apply Finset.sum_le_sum
      intro r hr
      exact hstep t ht' r (Finset.mem_Ico.mp hr).2
    -- the shifted part
    have h2 : ∑ r ∈ Ico lo n, (if r + 1 < n then R t (r + 1) else 0) = ∑ r ∈ Ico (lo + 1) n, R t r := by
      have e := Finset.sum_Ico_add' (fun r => if r < n then R t r else 0) lo n 1
      rw [e]
      by_cases hlo : lo + 1 ≤ n
      · rw [Finset.sum_Ico_succ_top hlo]
        simp only [lt_irrefl, if_false, add_zero]
        apply Finset.sum_congr rfl
        intro r hr
        simp [(Finset.mem_Ico.mp hr).2]
      · have e1 : Ico (lo + 1) (n + 1) = ∅ := Finset.Ico_eq_empty (by omega)
        have e2 : Ico (lo + 1) n = ∅ := Finset.Ico_eq_empty (by omega)
        rw [e1, e2]; simp
    -- the arrivals
    have h3 : ∑ r ∈ Ico lo n, B t r ≤ if lo < n then arr t else 0 := by
      by_cases hlo : lo < n
      · rw [if_pos hlo]
        refine le_trans ?_ (hBarr t ht')
        apply Finset.sum_le_sum_of_subset_of_nonneg
        · intro r hr; exact Finset.mem_range.mpr (Finset.mem_Ico.mp hr).2
        · intro r _ _; exact hB0 t r
      · rw [if_neg hlo, Finset.Ico_eq_empty (by omega)]; simp
    have h4 := ih (by omega) (lo + 1)
    rw [Finset.sum_range_succ']
    have e5 : lo + 1 + t = lo + (t + 1) := by omega
    have e6 : ∀ j, lo + 1 + j = lo + (j + 1) := by intro j; omega
    have e7 : ∀ j, t - 1 - j = t + 1 - 1 - (j + 1) := by intro j; omega
    rw [e5] at h4
    simp only [e6] at h4
    simp only [add_zero, Nat.add_sub_cancel, Nat.sub_zero]
    have e8 : ∑ j ∈ range t, (if lo + (j + 1) < n then arr (t - 1 - j) else 0)
        = ∑ j ∈ range t, (if lo + (j + 1) < n then arr (t - (j + 1)) else 0) := by
      apply Finset.sum_congr rfl; intro j _
      have : t - 1 - j = t - (j + 1) := by omega
      rw [this]
    rw [e8] at h4
    linarith

/-- the window sum in `Finset` form -/
theorem window_eq (a : Nat → Rat) (n t : Nat) : window a n t = ∑ j ∈ range t, (if j < n then a (t - 1 - j) else 0) := by
  unfold window
  have e : ∀ j, (if j + 1 ≤ t then a (t - (j + 1)) else 0) = (if j < t then a (t - 1 - j) else 0) := by
    intro j
    have : t - (j + 1) = t - 1 - j := by omega
    rw [this]
    by_cases h : j < t
    · have : j + 1 ≤ t := h
      simp [h, this]
    · have : ¬ j + 1 ≤ t := by omega
      simp [h, this]
  simp only [e]
  by_cases h : t ≤ n
  · rw [sumTo_ite_lt h, sumTo_eq_sum]
    apply Finset.sum_congr rfl
    intro j hj
    have : j < n := by have := Finset.mem_range.mp hj; omega
    simp [this]
  · have h' : n ≤ t := by omega
    rw [← sumTo_eq_sum, sumTo_ite_lt h']
    apply sumTo_congr
    intro j hj
    have : j < t := by omega
    simp [this]

/-- the unexpired initial occupants in `Finset` form -/
theorem init_part_eq (n t : Nat) (f : Nat → Rat) :
    sumTo n (fun r => if r + t < n then f (r + t) else 0) = ∑ r ∈ Ico t n, f r := by
  have : sumTo n (fun r => if r + t < n then f (r + t) else 0) = sumTo n (fun r => if r < n - t then f (r + t) else 0) := by
    apply sumTo_congr; intro r _
    by_cases h : r + t < n
    · have : r < n - t := by omega
      simp [h, this]
    · have : ¬ r < n - t := by omega
      simp [h, this]
  rw [this, sumTo_ite_lt (Nat.sub_le n t), sumTo_eq_sum, Finset.sum_Ico_eq_sum_range]
  apply Finset.sum_congr rfl
  intro r _
  rw [add_comm]

end Atomica.Timed
