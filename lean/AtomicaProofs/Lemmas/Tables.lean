/-
  Lemmas about the TDVE table model (`Atomica.Tables`), used by Properties/C16.lean (`tdve_roundtrip`).
-/
import AtomicaModel.Tables
import Mathlib.Data.List.Nodup
import Mathlib.Tactic.Linarith

namespace Atomica.Tables

/-! ### small facts about cells -/

theorem mkStr_of_ne {s : String} (h : s ≠ "") : mkStr s = .str s := by simp [mkStr, h]

theorem cellGetNumber_optNum (x : Option Rat) : cellGetNumber (optNum x) = .ok x := by
  cases x <;> rfl

/-! ### sorting a sorted year vector -/

theorem insSorted_of_le (x : Rat) (l : List Rat) (h : ∀ y ∈ l, x ≤ y) : insSorted x l = x :: l := by
  cases l with
  | nil => rfl
  | cons y ys => simp [insSorted, h y (by simp)]

theorem sortRat_sorted (l : List Rat) (h : l.Pairwise (· < ·)) : sortRat l = l := by
  induction l with
  | nil => rfl
  | cons x xs ih =>
      have hx := List.pairwise_cons.mp h
      simp only [sortRat, List.foldr_cons]
      have : List.foldr insSorted [] xs = xs := ih hx.2
      rw [this]
      exact insSorted_of_le x xs (fun y hy => le_of_lt (hx.1 y hy))

/-! ### `TimeSeries.insert` in increasing order appends -/

theorem tsInsert_append (t v : Rat) (acc : List (Rat × Rat)) (h : ∀ p ∈ acc, p.1 < t) :
    tsInsert t v acc = acc ++ [(t, v)] := by
  induction acc with
  | nil => rfl
  | cons a as ih =>
      obtain ⟨t', v'⟩ := a
      have h1 : t' < t := h (t', v') (by simp)
      have hn1 : ¬ t < t' := not_lt.mpr (le_of_lt h1)
      have hn2 : ¬ t = t' := ne_of_gt h1
      simp only [tsInsert, hn1, hn2, if_false, List.cons_append]
      rw [ih (fun p hp => h p (by simp [hp]))]

/-- the year columns of a row, read back in column order -/
theorem readPts_years (tv : List Rat) (pts acc : List (Rat × Rat))
    (hs : tv.Pairwise (· < ·)) (hacc : ∀ p ∈ acc, ∀ t ∈ tv, p.1 < t) :
    readPts (tv.map fun t => (Col.year t, optNum (pts.lookup t))) acc
      = .ok (acc ++ tv.filterMap fun t => (pts.lookup t).map fun v => (t, v)) := by
  induction tv generalizing acc with
  | nil => simp [readPts]
  | cons t ts ih =>
      have hp := List.pairwise_cons.mp hs
      simp only [List.map_cons, readPts, cellGetNumber_optNum, List.filterMap_cons]
      cases hl : pts.lookup t with
      | none =>
          simp only [Option.map_none]
          show readPts _ acc = _
          exact ih acc hp.2 (fun p hp' t' ht' => hacc p hp' t' (by simp [ht']))
      | some v =>
          simp only [Option.map_some]
          show readPts _ (tsInsert t v acc) = _
          rw [tsInsert_append t v acc (fun p hp' => hacc p hp' t (by simp))]
          rw [ih (acc ++ [(t, v)]) hp.2 (by
            intro p hp' t' ht'
            rcases List.mem_append.mp hp' with h | h
            · exact hacc p h t' (by simp [ht'])
            · simp at h; subst h; exact hp.1 t' ht')]
          simp

theorem lookup_none_of_forall_ne (t : Rat) (pts : List (Rat × Rat)) (h : ∀ p ∈ pts, p.1 ≠ t) : pts.lookup t = none := by
  induction pts with
  | nil => rfl
  | cons a as ih =>
      obtain ⟨k, v⟩ := a
      have hk : k ≠ t := h (k, v) (by simp)
      have hb : (t == k) = false := by simp [Ne.symm hk]
      simp only [List.lookup_cons, hb]
      exact ih (fun p hp => h p (by simp [hp]))

/-- a series dated inside a strictly increasing year vector is recovered exactly from the year columns -/
theorem filterMap_lookup_eq (tv : List Rat) (pts : List (Rat × Rat))
    (hs : tv.Pairwise (· < ·)) (hp : pts.Pairwise (fun a b => a.1 < b.1)) (hsub : ∀ p ∈ pts, p.1 ∈ tv) :
    (tv.filterMap fun t => (pts.lookup t).map fun v => (t, v)) = pts := by
  induction tv generalizing pts with
  | nil =>
      cases pts with
      | nil => rfl
      | cons a as => exact absurd (hsub a (by simp)) (by simp)
  | cons t ts ih =>
      have hs' := List.pairwise_cons.mp hs
      cases pts with
      | nil => simp
      | cons a as =>
          obtain ⟨k, v⟩ := a
          have hp' := List.pairwise_cons.mp hp
          have hk : k ∈ t :: ts := hsub (k, v) (by simp)
          by_cases hkt : k = t
          · subst hkt
            have hsub' : ∀ p ∈ as, p.1 ∈ ts := by
              intro p hpm
              have h1 : k < p.1 := hp'.1 p hpm
              have h2 := hsub p (by simp [hpm])
              rcases List.mem_cons.mp h2 with h | h
              · exact absurd h (ne_of_gt h1)
              · exact h
            simp only [List.filterMap_cons, List.lookup_cons, beq_self_eq_true, Option.map_some]
            congr 1
            refine Eq.trans ?_ (ih as hs'.2 hp'.2 hsub')
            apply List.filterMap_congr
            intro t' ht'
            have : (t' == k) = false := by simp [ne_of_gt (hs'.1 t' ht')]
            simp [this]
          · have hkts : k ∈ ts := by
              rcases List.mem_cons.mp hk with h | h
              · exact absurd h hkt
              · exact h
            have hlt : t < k := hs'.1 k hkts
            have hnone : ((k, v) :: as).lookup t = none := by
              apply lookup_none_of_forall_ne
              intro p hpm
              rcases List.mem_cons.mp hpm with h | h
              · subst h; exact ne_of_gt hlt
              · exact ne_of_gt (lt_trans hlt (hp'.1 p h))
            simp only [List.filterMap_cons, hnone, Option.map_none]
            apply ih ((k, v) :: as) hs'.2 hp
            intro p hpm
            have h2 := hsub p hpm
            rcases List.mem_cons.mp h2 with h | h
            · exfalso
              rcases List.mem_cons.mp hpm with h' | h'
              · subst h'; exact hkt h
              · have := hp'.1 p h'
                rw [h] at this
                exact absurd (lt_trans hlt this) (lt_irrefl _)
            · exact h

/-- columns that are not year columns contribute nothing to the series -/
theorem readPts_skip (l m : List (Col × Cell)) (acc : List (Rat × Rat)) (h : ∀ z ∈ l, colYear? z.1 = none) :
    readPts (l ++ m) acc = readPts m acc := by
  induction l with
  | nil => rfl
  | cons z zs ih =>
      obtain ⟨c, x⟩ := z
      have hc : colYear? c = none := h (c, x) (by simp)
      have ih' := ih (fun z hz => h z (by simp [hz]))
      cases c <;> simp_all [readPts, colYear?]

/-! ### the header row -/

/-- the header cell of a column is read back as that column -/
def ColOK (a : AHead) (c : Col) : Prop := isBreak (headCell a c) = false ∧ classify (headCell a c) = c

theorem parseCols_map (a : AHead) (l : List Col) (h : ∀ c ∈ l, ColOK a c) : parseCols (l.map (headCell a)) = l := by
  unfold parseCols
  induction l with
  | nil => rfl
  | cons c cs ih =>
      have hc := h c (by simp)
      have ih' := ih (fun c' hc' => h c' (by simp [hc']))
      simp only [List.map_cons, List.takeWhile_cons, hc.1, Bool.not_false, if_true, hc.2]
      rw [ih']

theorem colOK_attr (a : AHead) (n : String) (h : AttrOK n) : ColOK a (.attr n) := by
  obtain ⟨h1, h2, h3⟩ := h
  show isBreak (mkStr n) = false ∧ classify (mkStr n) = Col.attr n
  rw [mkStr_of_ne h1]
  exact ⟨h2, h3⟩

theorem colOK_units (a : AHead) : ColOK a .units := by
  show isBreak (.str "Units") = false ∧ classify (.str "Units") = Col.units
  decide
theorem colOK_unc (a : AHead) : ColOK a .unc := by
  show isBreak (.str "Uncertainty") = false ∧ classify (.str "Uncertainty") = Col.unc
  decide
theorem colOK_skip (a : AHead) : ColOK a .skip := ⟨rfl, rfl⟩
theorem colOK_year (a : AHead) (t : Rat) : ColOK a (.year t) := ⟨rfl, rfl⟩
theorem colOK_ahead (a : AHead) : ColOK a (aheadCol a) := by cases a <;> (unfold ColOK; decide)

theorem mem_layout (e : TDVE) (c : Col) (h : c ∈ layout e) :
    (∃ n ∈ e.attrNames, c = .attr n) ∨ c = .units ∨ c = .unc ∨ c = aheadCol e.ahead ∨ c = .skip ∨ (∃ t ∈ e.tvec, c = .year t) := by
  unfold layout at h
  simp only [List.mem_append, List.mem_map] at h
  rcases h with (((h | h) | h) | h) | h
  · obtain ⟨n, hn, rfl⟩ := h; exact Or.inl ⟨n, hn, rfl⟩
  · split at h <;> simp at h; exact Or.inr (Or.inl h)
  · split at h <;> simp at h; exact Or.inr (Or.inr (Or.inl h))
  · split at h <;> simp at h
    rcases h with h | h
    · exact Or.inr (Or.inr (Or.inr (Or.inl h)))
    · exact Or.inr (Or.inr (Or.inr (Or.inr (Or.inl h))))
  · obtain ⟨t, ht, rfl⟩ := h; exact Or.inr (Or.inr (Or.inr (Or.inr (Or.inr ⟨t, ht, rfl⟩))))

theorem layout_colOK (e : TDVE) (hattr : ∀ n ∈ e.attrNames, AttrOK n) : ∀ c ∈ layout e, ColOK e.ahead c := by
  intro c hc
  rcases mem_layout e c hc with ⟨n, hn, rfl⟩ | rfl | rfl | h | rfl | ⟨t, _, rfl⟩
  · exact colOK_attr _ n (hattr n hn)
  · exact colOK_units _
  · exact colOK_unc _
  · rw [h]; exact colOK_ahead _
  · exact colOK_skip _
  · exact colOK_year _ t

theorem parseCols_header (e : TDVE) (hattr : ∀ n ∈ e.attrNames, AttrOK n) :
    parseCols ((layout e).map (headCell e.ahead)) = layout e :=
  parseCols_map e.ahead (layout e) (layout_colOK e hattr)

theorem layout_years (e : TDVE) : (layout e).filterMap colYear? = e.tvec := by
  unfold layout
  simp only [List.filterMap_append, List.filterMap_map]
  have h1 : List.filterMap (colYear? ∘ Col.attr) e.attrNames = [] := by
    apply List.filterMap_eq_nil_iff.mpr; intro a _; rfl
  have h2 : List.filterMap (colYear? ∘ Col.year) e.tvec = e.tvec := by
    induction e.tvec with
    | nil => rfl
    | cons t ts ih => simp [colYear?, ih]
  rw [h1, h2]
  cases effUnits e <;> cases effUnc e <;> cases effAssump e <;> cases e.ahead <;> rfl

theorem layout_attrs (e : TDVE) : (layout e).filterMap colAttr? = e.attrNames := by
  unfold layout
  simp only [List.filterMap_append, List.filterMap_map]
  have h1 : List.filterMap (colAttr? ∘ Col.year) e.tvec = [] := by
    apply List.filterMap_eq_nil_iff.mpr; intro a _; rfl
  have h2 : List.filterMap (colAttr? ∘ Col.attr) e.attrNames = e.attrNames := by
    induction e.attrNames with
    | nil => rfl
    | cons t ts ih => simp [colAttr?, ih]
  rw [h1, h2]
  cases effUnits e <;> cases effUnc e <;> cases effAssump e <;> cases e.ahead <;> simp <;> (first | rfl | exact ⟨rfl, rfl⟩ | exact ⟨rfl, rfl, rfl⟩ | exact ⟨rfl, rfl, rfl, rfl⟩)

theorem hasCol_units (e : TDVE) : hasCol .units (layout e) = effUnits e := by
  unfold hasCol layout
  cases effUnits e <;> cases effUnc e <;> cases effAssump e <;> cases e.ahead <;> simp [aheadCol]

theorem hasCol_unc (e : TDVE) : hasCol .unc (layout e) = effUnc e := by
  unfold hasCol layout
  cases effUnits e <;> cases effUnc e <;> cases effAssump e <;> cases e.ahead <;> simp [aheadCol]

theorem hasCol_const (e : TDVE) : hasCol .const (layout e) = (effAssump e && e.ahead == .constant) := by
  unfold hasCol layout
  cases effUnits e <;> cases effUnc e <;> cases effAssump e <;> cases e.ahead <;> simp [aheadCol]

theorem hasCol_assump (e : TDVE) : hasCol .assump (layout e) = (effAssump e && e.ahead == .assumption) := by
  unfold hasCol layout
  cases effUnits e <;> cases effUnc e <;> cases effAssump e <;> cases e.ahead <;> simp [aheadCol]

theorem layout_nodup (e : TDVE) (hn : e.attrNames.Nodup) (ht : e.tvec.Pairwise (· < ·)) :
    ((layout e).filter (· ≠ .skip)).Nodup := by
  have hA : (e.attrNames.map Col.attr).Nodup := hn.map (fun a b h => by injection h)
  have hY : (e.tvec.map Col.year).Nodup := by
    apply List.Nodup.map (fun a b h => by injection h)
    exact ht.imp (fun h => ne_of_lt h)
  have hfA : (e.attrNames.map Col.attr).filter (· ≠ .skip) = e.attrNames.map Col.attr := by
    apply List.filter_eq_self.mpr; intro c hc; obtain ⟨n, _, rfl⟩ := List.mem_map.mp hc; simp
  have hfY : (e.tvec.map Col.year).filter (· ≠ .skip) = e.tvec.map Col.year := by
    apply List.filter_eq_self.mpr; intro c hc; obtain ⟨n, _, rfl⟩ := List.mem_map.mp hc; simp
  unfold layout
  simp only [List.filter_append, hfA, hfY]
  cases effUnits e <;> cases effUnc e <;> cases effAssump e <;> cases e.ahead <;>
    simp [aheadCol, List.nodup_append, hA, hY]

/-! ### one series row -/

theorem cellAt_append (c : Col) (l m : List (Col × Cell)) : cellAt c (l ++ m) = (cellAt c l).or (cellAt c m) := by
  unfold cellAt
  rw [List.find?_append]
  cases List.find? (fun z => z.1 == c) l <;> simp

theorem cellAt_none (c : Col) (l : List (Col × Cell)) (h : ∀ z ∈ l, z.1 ≠ c) : cellAt c l = none := by
  unfold cellAt
  have : List.find? (fun z => z.1 == c) l = none := by
    apply List.find?_eq_none.mpr
    intro z hz
    simpa using h z hz
  rw [this]; rfl

theorem cellAt_cons_ne (c : Col) (z : Col × Cell) (l : List (Col × Cell)) (h : z.1 ≠ c) :
    cellAt c (z :: l) = cellAt c l := by
  unfold cellAt
  have : (z.1 == c) = false := by simpa using h
  simp [this]

theorem cellAt_cons_eq (c : Col) (x : Cell) (l : List (Col × Cell)) : cellAt c ((c, x) :: l) = some x := by
  unfold cellAt
  simp

theorem padTo_length_ge (n : Nat) (cells : List Cell) : n ≤ (padTo n cells).length := by
  unfold padTo; simp; omega

theorem padTo_of_length (n : Nat) (cells : List Cell) (h : cells.length = n) : padTo n cells = cells := by
  unfold padTo; simp [h]

theorem attrPairs_fst (e : TDVE) (r : Row) : (attrPairs e r).map (·.1) = e.attrNames.map Col.attr := by
  unfold attrPairs
  rw [List.map_map]
  have : (fun (nc : String × Cell) => (Col.attr nc.1, normCell nc.2).1) = Col.attr ∘ Prod.fst := by funext x; rfl
  show List.map ((fun (z : Col × Cell) => z.1) ∘ fun (nc : String × Cell) => (Col.attr nc.1, normCell nc.2)) _ = _
  have h2 : ((fun (z : Col × Cell) => z.1) ∘ fun (nc : String × Cell) => (Col.attr nc.1, normCell nc.2)) = Col.attr ∘ Prod.fst := by
    funext x; rfl
  rw [h2, ← List.map_map, List.map_fst_zip (padTo_length_ge _ _)]

theorem rowPairs_fst (e : TDVE) (r : Row) : (rowPairs e r).map (·.1) = layout e := by
  unfold rowPairs layout
  simp only [List.map_append, attrPairs_fst, List.map_map]
  have hy : (List.map ((fun (z : Col × Cell) => z.1) ∘ fun t => (Col.year t, optNum (List.lookup t r.ts.pts))) e.tvec) = e.tvec.map Col.year := by
    apply List.map_congr_left; intro t _; rfl
  rw [hy]
  cases effUnits e <;> cases effUnc e <;> cases effAssump e <;> rfl

theorem zip_fst_snd {α β} (l : List (α × β)) : (l.map (·.1)).zip (l.map (·.2)) = l := by
  induction l with
  | nil => rfl
  | cons a as ih => simp [ih]

theorem zip_layout_row (e : TDVE) (r : Row) :
    (layout e).zip (padTo (layout e).length ((rowPairs e r).map (·.2))) = rowPairs e r := by
  have hl : ((rowPairs e r).map (·.2)).length = (layout e).length := by
    rw [← rowPairs_fst e r]; simp
  rw [padTo_of_length _ _ hl]
  conv_lhs => rw [← rowPairs_fst e r]
  exact zip_fst_snd _

/-- the attribute cells of a row, looked up by heading, come back in order -/
theorem attrs_back (names : List String) (cells : List Cell) (hn : names.Nodup) (hl : cells.length = names.length)
    (rest : List (Col × Cell)) :
    names.map (fun n => optCell (cellAt (.attr n)
      ((names.zip cells).map (fun nc => (Col.attr nc.1, normCell nc.2)) ++ rest))) = cells.map normCell := by
  induction names generalizing cells with
  | nil =>
      cases cells with
      | nil => rfl
      | cons c cs => simp at hl
  | cons n ns ih =>
      cases cells with
      | nil => simp at hl
      | cons c cs =>
          have hn' := List.nodup_cons.mp hn
          simp only [List.zip_cons_cons, List.map_cons, List.cons_append]
          congr 1
          · rw [cellAt_cons_eq]; rfl
          · rw [← ih cs hn'.2 (by simpa using hl)]
            apply List.map_congr_left
            intro n' hn''
            rw [cellAt_cons_ne]
            intro h
            injection h with h
            exact hn'.1 (h ▸ hn'')

theorem readUnit_unitCell (u : Option String) (h : unitOKOpt u = true) : readUnit (unitCell u) = .ok u := by
  cases u with
  | none => simp [unitOKOpt] at h
  | some s =>
      simp only [unitOKOpt, decide_eq_true_eq] at h
      exact h.2

/-- `from_rows` on the cells `write` produced for one series gives the series back -/
theorem readRow_rowPairs (e : TDVE) (r : Row) (hn : e.attrNames.Nodup) (ht : e.tvec.Pairwise (· < ·)) (hr : RowOK e r) :
    readRow e.attrNames (rowPairs e r) r.name = .ok r := by
  obtain ⟨_, hlen, hnorm, hpts, hsub, hunits, hsig, hass⟩ := hr
  -- segments
  have hAPne : ∀ c, (∀ n, c ≠ Col.attr n) → cellAt c (attrPairs e r) = none := by
    intro c hc
    apply cellAt_none
    intro z hz
    unfold attrPairs at hz
    obtain ⟨nc, _, rfl⟩ := List.mem_map.mp hz
    exact fun h => hc nc.1 h.symm
  have hYne : ∀ c, (∀ t, c ≠ Col.year t) → cellAt c (e.tvec.map fun t => (Col.year t, optNum (r.ts.pts.lookup t))) = none := by
    intro c hc
    apply cellAt_none
    intro z hz
    obtain ⟨t, _, rfl⟩ := List.mem_map.mp hz
    exact fun h => hc t h.symm
  -- units
  have hU : readUnit (optCell (cellAt .units (rowPairs e r))) = .ok r.ts.units := by
    unfold rowPairs
    simp only [cellAt_append, hAPne .units (by intro n; simp), hYne .units (by intro t; simp)]
    cases hu : effUnits e
    · have hunits' : r.ts.units = none := by simpa [hu] using hunits
      rw [hunits']
      cases effUnc e <;> cases effAssump e <;> cases e.ahead <;>
        simp [cellAt, optCell, readUnit, aheadCol]
    · have hunits' : unitOKOpt r.ts.units = true := by simpa [hu] using hunits
      simp only [if_true, cellAt_cons_eq, Option.none_or, Option.some_or]
      show readUnit (unitCell r.ts.units) = _
      exact readUnit_unitCell _ hunits'
  have hS : cellGetNumber (optCell (cellAt .unc (rowPairs e r))) = .ok r.ts.sigma := by
    unfold rowPairs
    simp only [cellAt_append, hAPne .unc (by intro n; simp), hYne .unc (by intro t; simp)]
    cases hu : effUnc e
    · rw [hsig hu]
      cases effUnits e <;> cases effAssump e <;> cases e.ahead <;>
        simp [cellAt, optCell, cellGetNumber, aheadCol]
    · cases effUnits e <;> cases effAssump e <;> cases e.ahead <;>
        simp [cellAt, optCell, cellGetNumber_optNum, aheadCol]
  have hA : readAssump (rowPairs e r) = .ok r.ts.assumption := by
    unfold readAssump rowPairs
    simp only [cellAt_append, hAPne .const (by intro n; simp), hYne .const (by intro t; simp),
      hAPne .assump (by intro n; simp), hYne .assump (by intro t; simp)]
    cases hu : effAssump e
    · rw [hass hu]
      cases effUnits e <;> cases effUnc e <;> cases e.ahead <;>
        simp [cellAt, optCell, cellGetNumber, aheadCol]
    · cases effUnits e <;> cases effUnc e <;> cases e.ahead <;>
        simp [cellAt, optCell, cellGetNumber_optNum, aheadCol]
  have hAt : (e.attrNames.map fun n => optCell (cellAt (.attr n) (rowPairs e r))) = r.attrs := by
    have hpad : padTo e.attrNames.length r.attrs = r.attrs := padTo_of_length _ _ hlen
    unfold rowPairs attrPairs
    rw [hpad]
    simp only [List.append_assoc]
    rw [attrs_back e.attrNames r.attrs hn hlen]
    conv_rhs => rw [← List.map_id r.attrs]
    apply List.map_congr_left
    intro c hc
    exact hnorm c hc
  have hP : readPts (rowPairs e r) [] = .ok r.ts.pts := by
    unfold rowPairs
    rw [readPts_skip]
    · rw [readPts_years e.tvec r.ts.pts [] ht (by simp)]
      rw [filterMap_lookup_eq e.tvec r.ts.pts ht hpts hsub]
      rfl
    · intro z hz
      simp only [List.mem_append] at hz
      rcases hz with ((hz | hz) | hz) | hz
      · unfold attrPairs at hz
        obtain ⟨nc, _, rfl⟩ := List.mem_map.mp hz
        rfl
      · split at hz <;> simp at hz; subst hz; rfl
      · split at hz <;> simp at hz; subst hz; rfl
      · split at hz <;> simp at hz
        rcases hz with hz | hz <;> subst hz
        · cases e.ahead <;> rfl
        · rfl
  unfold readRow
  simp only [hU, hS, hA, hAt, hP, bind, Except.bind, pure, Except.pure]

/-! ### all rows, and the whole table -/

theorem dictSet_append (r : Row) (acc : List Row) (h : ∀ r' ∈ acc, r'.name ≠ r.name) : dictSet r acc = acc ++ [r] := by
  induction acc with
  | nil => rfl
  | cons a as ih =>
      have ha : a.name ≠ r.name := h a (by simp)
      simp only [dictSet, ha, if_false, List.cons_append]
      rw [ih (fun r' hr' => h r' (by simp [hr']))]

theorem readRows_rows (e : TDVE) (rows acc : List Row) (hn : e.attrNames.Nodup) (ht : e.tvec.Pairwise (· < ·))
    (hnames : (rows.map (·.name)).Nodup) (hdisj : ∀ a ∈ acc, ∀ r ∈ rows, a.name ≠ r.name)
    (hrows : ∀ r ∈ rows, RowOK e r) :
    readRows e.attrNames (layout e) (rows.map (rowCells e)) acc = .ok (acc ++ rows) := by
  induction rows generalizing acc with
  | nil => simp [readRows]
  | cons r rs ih =>
      have hr := hrows r (by simp)
      have hnm : r.name ∉ rs.map (·.name) ∧ (rs.map (·.name)).Nodup := by
        rw [List.map_cons] at hnames
        exact List.nodup_cons.mp hnames
      simp only [List.map_cons, rowCells, mkStr_of_ne hr.1.1, readRows, zip_layout_row, hr.1.2,
        readRow_rowPairs e r hn ht hr, bind, Except.bind]
      rw [dictSet_append r acc (fun a ha => hdisj a ha r (by simp))]
      rw [ih (acc ++ [r]) hnm.2 (by
        intro a ha r' hr'
        rcases List.mem_append.mp ha with h | h
        · exact hdisj a h r' (by simp [hr'])
        · simp at h; subst h
          intro heq
          exact hnm.1 (List.mem_map.mpr ⟨r', hr', heq.symm⟩)) (fun r' hr' => hrows r' (by simp [hr']))]
      simp

theorem provenance_first (names : List String) (hp : names.head? = some "Provenance") (hn : names.Nodup) :
    "Provenance" :: names.filter (· ≠ "Provenance") = names := by
  cases names with
  | nil => simp at hp
  | cons n ns =>
      simp only [List.head?_cons, Option.some.injEq] at hp
      subst hp
      have hn' := List.nodup_cons.mp hn
      simp only [List.filter_cons, ne_eq, not_true_eq_false, decide_false, Bool.false_eq_true, if_false]
      congr 1
      apply List.filter_eq_self.mpr
      intro a ha
      simp only [ne_eq, decide_eq_true_eq]
      intro h
      exact hn'.1 (h ▸ ha)

/-- `decode ∘ encode` on a well-formed entry -/
theorem decode_encode (e : TDVE) (h : WF e) : decode (encode e) = .ok (canon e) := by
  obtain ⟨hname, hprov, hnd, hattr, htv, hval, hrn, hrows⟩ := h
  have hcols := parseCols_header e hattr
  have hno : (!((layout e).filterMap colYear?).isEmpty || hasCol .const (layout e) || (true && hasCol .assump (layout e))) = true := by
    rw [layout_years, hasCol_const, hasCol_assump]
    rcases hval with h | h
    · cases htv' : e.tvec with
      | nil => exact absurd htv' h
      | cons a as => simp
    · rw [h]; cases e.ahead <;> simp
  unfold decode encode header
  rw [mkStr_of_ne hname.1]
  simp only [decodeWith, hcols, layout_nodup e hnd htv, not_true_eq_false, if_false]
  have hcond : ((List.filterMap colYear? (layout e)).isEmpty && !hasCol Col.const (layout e) &&
      !(true && hasCol Col.assump (layout e))) = false := by
    have := hno
    revert this
    cases (List.filterMap colYear? (layout e)).isEmpty <;> cases hasCol Col.const (layout e) <;>
      cases hasCol Col.assump (layout e) <;> simp
  have hprov' : "Provenance" :: List.filter (fun x => decide (x ≠ "Provenance")) (List.filterMap colAttr? (layout e))
      = e.attrNames := by
    rw [layout_attrs]; exact provenance_first e.attrNames hprov hnd
  have hrows' := readRows_rows e e.rows [] hnd htv hrn (by simp) hrows
  rw [hcond, hprov']
  simp only [Bool.false_eq_true, if_false, hrows', List.nil_append, bind, Except.bind, pure, Except.pure,
    layout_years, sortRat_sorted e.tvec htv, hname.2, hasCol_units, hasCol_unc, hasCol_const, hasCol_assump]
  unfold canon
  cases hA : effAssump e <;> cases hH : e.ahead <;> simp

/-! ### the second round trip -/

theorem eff_canon (e : TDVE) (hrows : ∀ r ∈ e.rows, RowOK e r) :
    effUnits (canon e) = effUnits e ∧ effUnc (canon e) = effUnc e ∧ effAssump (canon e) = effAssump e := by
  have e1 : effUnits (canon e) = (if effUnits e then some true else none).getD (e.rows.any (·.ts.units.isSome)) := rfl
  have e2 : effUnc (canon e) = (if effUnc e then some true else none).getD (e.rows.any (·.ts.sigma.isSome)) := rfl
  have e3 : effAssump (canon e) = (if effAssump e then some true else none).getD (e.rows.any (·.ts.assumption.isSome)) := rfl
  rw [e1, e2, e3]
  refine ⟨?_, ?_, ?_⟩
  · cases h : effUnits e
    · have : e.rows.any (fun r => r.ts.units.isSome) = false := by
        apply List.any_eq_false.mpr
        intro r hr
        have := (hrows r hr).2.2.2.2.2.1
        simp only [h, Bool.false_eq_true, if_false] at this
        simp [this]
      simp [this]
    · simp
  · cases h : effUnc e
    · have : e.rows.any (fun r => r.ts.sigma.isSome) = false := by
        apply List.any_eq_false.mpr
        intro r hr
        simp [(hrows r hr).2.2.2.2.2.2.1 h]
      simp [this]
    · simp
  · cases h : effAssump e
    · have : e.rows.any (fun r => r.ts.assumption.isSome) = false := by
        apply List.any_eq_false.mpr
        intro r hr
        simp [(hrows r hr).2.2.2.2.2.2.2 h]
      simp [this]
    · simp

theorem layout_canon (e : TDVE) (hrows : ∀ r ∈ e.rows, RowOK e r) : layout (canon e) = layout e := by
  obtain ⟨h1, h2, h3⟩ := eff_canon e hrows
  unfold layout
  rw [h1, h2, h3]
  cases h : effAssump e <;> simp [canon, h]

theorem rowPairs_canon (e : TDVE) (hrows : ∀ r ∈ e.rows, RowOK e r) (r : Row) : rowPairs (canon e) r = rowPairs e r := by
  obtain ⟨h1, h2, h3⟩ := eff_canon e hrows
  unfold rowPairs attrPairs
  rw [h1, h2, h3]
  cases h : effAssump e <;> simp [canon, h]

theorem header_canon (e : TDVE) (hrows : ∀ r ∈ e.rows, RowOK e r) : header (canon e) = header e := by
  unfold header
  rw [layout_canon e hrows]
  cases h : effAssump e
  · have hname : (canon e).name = e.name := rfl
    rw [hname]
    congr 1
    apply List.map_congr_left
    intro c hc
    unfold layout at hc
    simp only [h, Bool.false_eq_true, if_false, List.append_nil, List.mem_append, List.mem_map] at hc
    rcases hc with ((hc | hc) | hc) | hc
    · obtain ⟨n, _, rfl⟩ := hc; rfl
    · split at hc <;> simp at hc; subst hc; rfl
    · split at hc <;> simp at hc; subst hc; rfl
    · obtain ⟨t, _, rfl⟩ := hc; rfl
  · simp [canon, h]

theorem encode_canon (e : TDVE) (hrows : ∀ r ∈ e.rows, RowOK e r) : encode (canon e) = encode e := by
  unfold encode
  rw [header_canon e hrows]
  congr 1
  have : (canon e).rows = e.rows := rfl
  rw [this]
  apply List.map_congr_left
  intro r _
  unfold rowCells
  rw [rowPairs_canon e hrows]

theorem wf_canon (e : TDVE) (h : WF e) : WF (canon e) := by
  obtain ⟨hname, hprov, hnd, hattr, htv, hval, hrn, hrows⟩ := h
  obtain ⟨h1, h2, h3⟩ := eff_canon e hrows
  refine ⟨hname, hprov, hnd, hattr, htv, ?_, hrn, ?_⟩
  · rw [h3]; exact hval
  · intro r hr
    have := hrows r hr
    unfold RowOK at this ⊢
    rw [h1, h2, h3]
    exact this

theorem canon_idem (e : TDVE) (hrows : ∀ r ∈ e.rows, RowOK e r) : canon (canon e) = canon e := by
  obtain ⟨h1, h2, h3⟩ := eff_canon e hrows
  unfold canon at *
  simp only [h1, h2, h3]
  cases h : effAssump e <;> simp_all

end Atomica.Tables
