/-
  Lemmas for C12 (Covout): sums over the 2^n combinations (`sumC`), the three weight families
  (`randomW`, `nestedG`, `addW`/`lowW`) are probability distributions with the coverages as marginals.
-/
import AtomicaModel.Covout
import Mathlib.Tactic.Linarith
import Mathlib.Tactic.Ring
import Mathlib.Tactic.FieldSimp
import Mathlib.Tactic.NormNum

namespace Atomica.Covout

/-! ### bridges to Mathlib's `max`, `min`, `|·|` -/

theorem maxQ_eq (a b : Rat) : maxQ a b = max a b := by
  unfold maxQ; rw [max_def]; split_ifs <;> first | rfl | linarith

theorem minQ_eq (a b : Rat) : minQ a b = min a b := by
  unfold minQ; rw [min_def]; split_ifs <;> first | rfl | linarith

theorem absQ_eq (x : Rat) : absQ x = |x| := by
  unfold absQ; split_ifs with h
  · rw [abs_of_neg h]
  · rw [abs_of_nonneg (not_lt.mp h)]

/-! ### sums over all combinations -/

/-- `Σ_{m ∈ {0,1}^n} f m`, by recursion on the first position (same order as `combos`) -/
def sumC : Nat → (List Bool → Rat) → Rat
  | 0, f => f []
  | n + 1, f => sumC n (fun m => f (false :: m)) + sumC n (fun m => f (true :: m))

theorem listSum_append (l₁ l₂ : List Rat) : listSum (l₁ ++ l₂) = listSum l₁ + listSum l₂ := by
  induction l₁ with
  | nil => simp [listSum]
  | cons x xs ih => simp only [listSum, List.cons_append, List.foldr_cons] at *; rw [ih]; ring

theorem listSum_cons (x : Rat) (l : List Rat) : listSum (x :: l) = x + listSum l := rfl

theorem listSum_nil : listSum [] = 0 := rfl

theorem listSum_combos (n : Nat) (f : List Bool → Rat) : listSum ((combos n).map f) = sumC n f := by
  induction n generalizing f with
  | zero => simp [combos, sumC, listSum]
  | succ n ih =>
    simp only [combos, List.map_append, List.map_map, listSum_append, sumC]
    rw [← ih, ← ih]; rfl

theorem tableSum_eq (n : Nat) (w g : List Bool → Rat) : tableSum n w g = sumC n (fun m => w m * g m) :=
  listSum_combos n _

theorem sumC_congr {n : Nat} {f g : List Bool → Rat} (h : ∀ m, m.length = n → f m = g m) :
    sumC n f = sumC n g := by
  induction n generalizing f g with
  | zero => exact h [] rfl
  | succ n ih =>
    simp only [sumC]
    rw [ih (fun m hm => h (false :: m) (by simp [hm])), ih (fun m hm => h (true :: m) (by simp [hm]))]

theorem sumC_zero (n : Nat) : sumC n (fun _ => 0) = 0 := by
  induction n with
  | zero => rfl
  | succ n ih => simp only [sumC, ih, add_zero]

theorem sumC_add (n : Nat) (f g : List Bool → Rat) :
    sumC n (fun m => f m + g m) = sumC n f + sumC n g := by
  induction n generalizing f g with
  | zero => rfl
  | succ n ih => simp only [sumC, ih]; ring

theorem sumC_mul_left (n : Nat) (k : Rat) (f : List Bool → Rat) :
    sumC n (fun m => k * f m) = k * sumC n f := by
  induction n generalizing f with
  | zero => rfl
  | succ n ih => simp only [sumC, ih]; ring

theorem sumC_mul_right (n : Nat) (k : Rat) (f : List Bool → Rat) :
    sumC n (fun m => f m * k) = sumC n f * k := by
  induction n generalizing f with
  | zero => rfl
  | succ n ih => simp only [sumC, ih]; ring

theorem sumC_le {n : Nat} {f g : List Bool → Rat} (h : ∀ m, m.length = n → f m ≤ g m) :
    sumC n f ≤ sumC n g := by
  induction n generalizing f g with
  | zero => exact h [] rfl
  | succ n ih =>
    simp only [sumC]
    exact add_le_add (ih (fun m hm => h (false :: m) (by simp [hm]))) (ih (fun m hm => h (true :: m) (by simp [hm])))

theorem sumC_nonneg {n : Nat} {f : List Bool → Rat} (h : ∀ m, m.length = n → 0 ≤ f m) : 0 ≤ sumC n f := by
  have := sumC_le (f := fun _ => 0) (g := f) h
  rwa [sumC_zero] at this

/-- one term of a sum of non-negative terms is at most the sum -/
theorem le_sumC {n : Nat} {f : List Bool → Rat} (h : ∀ m, m.length = n → 0 ≤ f m) (m : List Bool)
    (hm : m.length = n) : f m ≤ sumC n f := by
  induction n generalizing f m with
  | zero =>
    have : m = [] := List.length_eq_zero_iff.mp hm
    subst this; exact le_refl _
  | succ n ih =>
    match m, hm with
    | b :: m', hm' =>
      have hl : m'.length = n := by simpa using hm'
      have h0 : 0 ≤ sumC n (fun m => f (false :: m)) := sumC_nonneg (fun m hm => h _ (by simp [hm]))
      have h1 : 0 ≤ sumC n (fun m => f (true :: m)) := sumC_nonneg (fun m hm => h _ (by simp [hm]))
      simp only [sumC]
      cases b with
      | false =>
        have := ih (f := fun m => f (false :: m)) (fun m hm => h _ (by simp [hm])) m' hl
        linarith
      | true =>
        have := ih (f := fun m => f (true :: m)) (fun m hm => h _ (by simp [hm])) m' hl
        linarith

/-- marginal of position `i`: `Σ_{m ∋ i} f m` -/
def margC (n i : Nat) (f : List Bool → Rat) : Rat := sumC n (fun m => if m.getD i false then f m else 0)

theorem margC_zero (n : Nat) (f : List Bool → Rat) : margC (n + 1) 0 f = sumC n (fun m => f (true :: m)) := by
  simp [margC, sumC, sumC_zero]

theorem margC_succ (n i : Nat) (f : List Bool → Rat) :
    margC (n + 1) (i + 1) f = margC n i (fun m => f (false :: m)) + margC n i (fun m => f (true :: m)) := by
  simp [margC, sumC]

theorem margC_mul_left (n i : Nat) (k : Rat) (f : List Bool → Rat) :
    margC n i (fun m => k * f m) = k * margC n i f := by
  unfold margC
  rw [← sumC_mul_left]
  apply sumC_congr; intro m _; split_ifs <;> simp

theorem margC_add (n i : Nat) (f g : List Bool → Rat) :
    margC n i (fun m => f m + g m) = margC n i f + margC n i g := by
  unfold margC
  rw [← sumC_add]
  apply sumC_congr; intro m _; split_ifs <;> simp

theorem margC_congr {n i : Nat} {f g : List Bool → Rat} (h : ∀ m, m.length = n → f m = g m) :
    margC n i f = margC n i g := by
  unfold margC; apply sumC_congr; intro m hm; rw [h m hm]

theorem le_margC {n i : Nat} {f : List Bool → Rat} (h : ∀ m, m.length = n → 0 ≤ f m) (m : List Bool)
    (hm : m.length = n) (hi : m.getD i false = true) : f m ≤ margC n i f := by
  have := le_sumC (f := fun m => if m.getD i false then f m else 0)
    (fun m hm => by split_ifs; exact h m hm; exact le_refl _) m hm
  beta_reduce at this
  rw [if_pos hi] at this
  exact this

/-! ### random interaction -/

theorem randomW_nonneg (cs : List Rat) (h : ∀ c ∈ cs, 0 ≤ c ∧ c ≤ 1) (m : List Bool) : 0 ≤ randomW cs m := by
  induction cs generalizing m with
  | nil => simp [randomW]
  | cons c cs ih =>
    have hc := h c (by simp)
    have ih' := ih (fun c hc => h c (by simp [hc]))
    cases m with
    | nil => simp [randomW]
    | cons b m =>
      simp only [randomW]
      cases b <;> simp only [Bool.false_eq_true, if_false, if_true]
      · exact mul_nonneg (by linarith) (ih' m)
      · exact mul_nonneg hc.1 (ih' m)

theorem sumC_randomW (n : Nat) (cs : List Rat) (h : cs.length = n) : sumC n (randomW cs) = 1 := by
  induction cs generalizing n with
  | nil => subst h; simp [sumC, randomW]
  | cons c cs ih =>
    cases n with
    | zero => simp at h
    | succ n =>
      have hl : cs.length = n := by simpa using h
      simp only [sumC, randomW, Bool.false_eq_true, if_false, if_true, sumC_mul_left, ih n hl]
      ring

theorem margC_randomW (n i : Nat) (cs : List Rat) (h : cs.length = n) (hi : i < n) :
    margC n i (randomW cs) = cs.getD i 0 := by
  induction cs generalizing n i with
  | nil => simp at h; subst h; omega
  | cons c cs ih =>
    cases n with
    | zero => omega
    | succ n =>
      have hl : cs.length = n := by simpa using h
      cases i with
      | zero =>
        rw [margC_zero]
        simp only [randomW, if_true, sumC_mul_left, sumC_randomW n cs hl, List.getD_cons_zero]
        ring
      | succ i =>
        rw [margC_succ]
        simp only [randomW, Bool.false_eq_true, if_false, if_true, margC_mul_left,
          ih n i hl (by omega), List.getD_cons_succ]
        ring

/-! ### nested interaction -/

theorem nested_arith (lo hi c : Rat) :
    max 0 (min hi c - lo) + max 0 (hi - max lo c) = max 0 (hi - lo) := by
  simp only [max_def, min_def]; split_ifs <;> linarith

theorem nestedG_nonneg (lo hi : Rat) (cs : List Rat) (m : List Bool) : 0 ≤ nestedG lo hi cs m := by
  induction cs generalizing lo hi m with
  | nil => simp [nestedG, maxQ_eq]
  | cons c cs ih =>
    cases m with
    | nil => simp [nestedG, maxQ_eq]
    | cons b m => cases b <;> simp only [nestedG] <;> exact ih _ _ _

theorem sumC_nestedG (n : Nat) (lo hi : Rat) (cs : List Rat) (h : cs.length = n) :
    sumC n (nestedG lo hi cs) = max 0 (hi - lo) := by
  induction cs generalizing n lo hi with
  | nil => subst h; simp [sumC, nestedG, maxQ_eq]
  | cons c cs ih =>
    cases n with
    | zero => simp at h
    | succ n =>
      have hl : cs.length = n := by simpa using h
      simp only [sumC, nestedG, ih n _ _ hl, maxQ_eq, minQ_eq]
      have := nested_arith lo hi c
      linarith

theorem margC_nestedG (n i : Nat) (lo hi : Rat) (cs : List Rat) (h : cs.length = n) (hi' : i < n) :
    margC n i (nestedG lo hi cs) = max 0 (min hi (cs.getD i 0) - lo) := by
  induction cs generalizing n i lo hi with
  | nil => simp at h; subst h; omega
  | cons c cs ih =>
    cases n with
    | zero => omega
    | succ n =>
      have hl : cs.length = n := by simpa using h
      cases i with
      | zero =>
        rw [margC_zero]
        simp only [nestedG, sumC_nestedG n _ _ cs hl, List.getD_cons_zero, minQ_eq]
      | succ i =>
        rw [margC_succ]
        simp only [nestedG, ih n i _ _ hl (by omega), List.getD_cons_succ, minQ_eq, maxQ_eq]
        have := nested_arith lo (min hi (cs.getD i 0)) c
        rw [min_right_comm] at this
        linarith

/-! ### additive interaction above 100 % -/

theorem addOf_nonneg (p c : Rat) : 0 ≤ addOf p c := by
  unfold addOf; rw [maxQ_eq]; exact le_max_right _ _

theorem addOf_eq (p c : Rat) (hc : 0 ≤ c) : addOf p c = min 1 (p + c) - min 1 p := by
  unfold addOf; simp only [maxQ_eq, max_def, min_def]; split_ifs <;> linarith

theorem addOf_le (p c : Rat) (hc : 0 ≤ c) : addOf p c ≤ c := by
  unfold addOf; simp only [maxQ_eq, max_def]; split_ifs <;> linarith

theorem rpOf_range (p c : Rat) (hc : 0 ≤ c) (hc1 : c ≤ 1) : 0 ≤ rpOf p c ∧ rpOf p c ≤ 1 := by
  have h1 := addOf_le p c hc
  unfold rpOf
  split_ifs with h
  · exact ⟨le_refl _, by norm_num⟩
  · have hpos : 0 < 1 - addOf p c := lt_of_le_of_ne (by linarith) (Ne.symm h)
    exact ⟨div_nonneg (by linarith) hpos.le, (div_le_iff₀ hpos).mpr (by linarith)⟩

theorem add_rp (p c : Rat) (hc : 0 ≤ c) (hc1 : c ≤ 1) :
    addOf p c + rpOf p c * (1 - addOf p c) = c := by
  have h1 := addOf_le p c hc
  unfold rpOf
  split_ifs with h
  · linarith
  · field_simp
    ring

theorem rpOf_ne_zero (p c : Rat) (hc : 0 ≤ c) (h : rpOf p c ≠ 0) : 1 < p + c := by
  by_contra hle
  apply h
  have ha : addOf p c = c := by
    rw [addOf_eq p c hc, min_eq_right (by linarith), min_eq_right (by linarith)]; ring
  unfold rpOf
  split_ifs
  · rfl
  · rw [ha]; simp

theorem adds_length (p : Rat) (cs : List Rat) : (adds p cs).length = cs.length := by
  induction cs generalizing p with
  | nil => rfl
  | cons c cs ih => simp [adds, ih]

theorem rps_length (p : Rat) (cs : List Rat) : (rps p cs).length = cs.length := by
  induction cs generalizing p with
  | nil => rfl
  | cons c cs ih => simp [rps, ih]

theorem listSum_nonneg (l : List Rat) (h : ∀ x ∈ l, 0 ≤ x) : 0 ≤ listSum l := by
  induction l with
  | nil => exact le_refl _
  | cons x xs ih =>
    rw [listSum_cons]
    exact add_nonneg (h x (by simp)) (ih (fun y hy => h y (by simp [hy])))

theorem listSum_adds (p : Rat) (cs : List Rat) (hp : 0 ≤ p) (h : ∀ c ∈ cs, 0 ≤ c) :
    listSum (adds p cs) = min 1 (p + listSum cs) - min 1 p := by
  induction cs generalizing p with
  | nil => simp [adds, listSum]
  | cons c cs ih =>
    have hc := h c (by simp)
    simp only [adds, listSum_cons]
    rw [ih (p + c) (by linarith) (fun x hx => h x (by simp [hx])), addOf_eq p c hc]
    ring_nf

theorem adds_mem_nonneg (p : Rat) (cs : List Rat) : ∀ a ∈ adds p cs, 0 ≤ a := by
  induction cs generalizing p with
  | nil => simp [adds]
  | cons c cs ih =>
    intro a ha
    simp only [adds, List.mem_cons] at ha
    rcases ha with rfl | ha
    · exact addOf_nonneg _ _
    · exact ih _ a ha

theorem rps_mem_range (p : Rat) (cs : List Rat) (h : ∀ c ∈ cs, 0 ≤ c ∧ c ≤ 1) :
    ∀ r ∈ rps p cs, 0 ≤ r ∧ r ≤ 1 := by
  induction cs generalizing p with
  | nil => simp [rps]
  | cons c cs ih =>
    intro r hr
    simp only [rps, List.mem_cons] at hr
    rcases hr with rfl | hr
    · exact rpOf_range _ _ (h c (by simp)).1 (h c (by simp)).2
    · exact ih _ (fun x hx => h x (by simp [hx])) r hr

/-- `additive_k + random_portion_k · (1 − additive_k) = cov_k` -/
theorem adds_rps_getD (p : Rat) (cs : List Rat) (h : ∀ c ∈ cs, 0 ≤ c ∧ c ≤ 1) (i : Nat) (hi : i < cs.length) :
    (adds p cs).getD i 0 + (rps p cs).getD i 0 * (1 - (adds p cs).getD i 0) = cs.getD i 0 := by
  induction cs generalizing p i with
  | nil => simp at hi
  | cons c cs ih =>
    cases i with
    | zero =>
      simp only [adds, rps, List.getD_cons_zero]
      exact add_rp p c (h c (by simp)).1 (h c (by simp)).2
    | succ i =>
      simp only [adds, rps, List.getD_cons_succ]
      exact ih (p + c) (fun x hx => h x (by simp [hx])) i (by simpa using hi)

theorem addW_nonneg (as rs : List Rat) (ha : ∀ a ∈ as, 0 ≤ a) (hr : ∀ r ∈ rs, 0 ≤ r ∧ r ≤ 1) (m : List Bool) :
    0 ≤ addW as rs m := by
  induction as generalizing rs m with
  | nil => simp [addW]
  | cons a as ih =>
    cases rs with
    | nil => simp [addW]
    | cons r rs =>
      cases m with
      | nil => simp [addW]
      | cons b m =>
        have hr0 := hr r (by simp)
        have ha0 := ha a (by simp)
        have hrs : ∀ r ∈ rs, 0 ≤ r ∧ r ≤ 1 := fun x hx => hr x (by simp [hx])
        have ih' := ih rs (fun x hx => ha x (by simp [hx])) hrs m
        have hw := randomW_nonneg rs hrs m
        simp only [addW]
        cases b <;> simp only [Bool.false_eq_true, if_false, if_true]
        · have : 0 ≤ (1 - r) * addW as rs m := mul_nonneg (by linarith) ih'
          linarith
        · have h1 : 0 ≤ a * randomW rs m := mul_nonneg ha0 hw
          have h2 : 0 ≤ r * addW as rs m := mul_nonneg hr0.1 ih'
          linarith

theorem sumC_addW (n : Nat) (as rs : List Rat) (ha : as.length = n) (hr : rs.length = n) :
    sumC n (addW as rs) = listSum as := by
  induction as generalizing n rs with
  | nil => simp at ha; subst ha; simp [sumC, addW, listSum]
  | cons a as ih =>
    cases n with
    | zero => simp at ha
    | succ n =>
      cases rs with
      | nil => simp at hr
      | cons r rs =>
        have hla : as.length = n := by simpa using ha
        have hlr : rs.length = n := by simpa using hr
        simp only [sumC, addW, Bool.false_eq_true, if_false, if_true, sumC_add, sumC_mul_left,
          ih n rs hla hlr, sumC_randomW n rs hlr, listSum_cons]
        ring

theorem margC_addW (n i : Nat) (as rs : List Rat) (ha : as.length = n) (hr : rs.length = n) (hi : i < n) :
    margC n i (addW as rs) = as.getD i 0 + rs.getD i 0 * (listSum as - as.getD i 0) := by
  induction as generalizing n i rs with
  | nil => simp at ha; subst ha; omega
  | cons a as ih =>
    cases n with
    | zero => omega
    | succ n =>
      cases rs with
      | nil => simp at hr
      | cons r rs =>
        have hla : as.length = n := by simpa using ha
        have hlr : rs.length = n := by simpa using hr
        cases i with
        | zero =>
          rw [margC_zero]
          simp only [addW, if_true, sumC_add, sumC_mul_left, sumC_addW n as rs hla hlr,
            sumC_randomW n rs hlr, List.getD_cons_zero, listSum_cons]
          ring
        | succ i =>
          rw [margC_succ]
          simp only [addW, Bool.false_eq_true, if_false, if_true, margC_add, margC_mul_left,
            ih n i rs hla hlr (by omega), margC_randomW n i rs hlr (by omega), List.getD_cons_succ,
            listSum_cons]
          ring

/-! ### additive interaction up to 100 % -/

theorem sumC_allFalse_mul (n : Nat) (x : Rat) (h : List Bool → Rat) :
    sumC n (fun m => (if allFalse m then x else 0) * h m) = x * h (List.replicate n false) := by
  induction n generalizing h with
  | zero => simp [sumC, allFalse]
  | succ n ih =>
    simp only [sumC, allFalse, Bool.not_false, Bool.true_and, Bool.not_true, Bool.false_and,
      Bool.false_eq_true, if_false, zero_mul, sumC_zero, add_zero, List.replicate_succ]
    exact ih (fun m => h (false :: m))

theorem sumC_allFalse (n : Nat) (x : Rat) : sumC n (fun m => if allFalse m then x else 0) = x := by
  have := sumC_allFalse_mul n x (fun _ => 1)
  simpa using this

theorem allFalse_of_getD {m : List Bool} {i : Nat} (h : m.getD i false = true) : allFalse m = false := by
  induction m generalizing i with
  | nil => simp at h
  | cons b m ih =>
    cases i with
    | zero => simp only [List.getD_cons_zero] at h; subst h; simp [allFalse]
    | succ i =>
      simp only [List.getD_cons_succ] at h
      simp [allFalse, ih h]

theorem margC_allFalse (n i : Nat) (x : Rat) : margC n i (fun m => if allFalse m then x else 0) = 0 := by
  unfold margC
  have : sumC n (fun m => if m.getD i false then (if allFalse m then x else 0) else 0)
      = sumC n (fun _ => 0) := by
    apply sumC_congr
    intro m _
    by_cases h1 : m.getD i false = true
    · rw [if_pos h1, allFalse_of_getD h1]; simp
    · rw [if_neg h1]
  rw [this, sumC_zero]

theorem lowW_nonneg (r : Rat) (cs : List Rat) (hc : ∀ c ∈ cs, 0 ≤ c) (hr : listSum cs ≤ r) (m : List Bool) :
    0 ≤ lowW r cs m := by
  have hs := listSum_nonneg cs hc
  induction cs generalizing r m with
  | nil => simp only [lowW]; rw [listSum_nil] at hr; exact hr
  | cons c cs ih =>
    have hc0 := hc c (by simp)
    have hcs : ∀ c ∈ cs, 0 ≤ c := fun x hx => hc x (by simp [hx])
    rw [listSum_cons] at hr hs
    cases m with
    | nil => simp only [lowW]; linarith [listSum_nonneg cs hcs]
    | cons b m =>
      cases b
      · simp only [lowW]; exact ih (r - c) hcs (by linarith) m (listSum_nonneg cs hcs)
      · simp only [lowW]; split_ifs <;> linarith

theorem sumC_lowW (n : Nat) (r : Rat) (cs : List Rat) (h : cs.length = n) : sumC n (lowW r cs) = r := by
  induction cs generalizing n r with
  | nil => simp at h; subst h; simp [sumC, lowW]
  | cons c cs ih =>
    cases n with
    | zero => simp at h
    | succ n =>
      have hl : cs.length = n := by simpa using h
      simp only [sumC, lowW, ih n _ hl, sumC_allFalse]
      ring

theorem margC_lowW (n i : Nat) (r : Rat) (cs : List Rat) (h : cs.length = n) (hi : i < n) :
    margC n i (lowW r cs) = cs.getD i 0 := by
  induction cs generalizing n i r with
  | nil => simp at h; subst h; omega
  | cons c cs ih =>
    cases n with
    | zero => omega
    | succ n =>
      have hl : cs.length = n := by simpa using h
      cases i with
      | zero =>
        rw [margC_zero]
        simp only [lowW, sumC_allFalse, List.getD_cons_zero]
      | succ i =>
        rw [margC_succ]
        simp only [lowW, ih n i _ hl (by omega), margC_allFalse, List.getD_cons_succ, add_zero]

/-! ### consequences of "non-negative, total 1, marginals = coverage" for any weight function -/

theorem sumC_weighted_bounds {n : Nat} {w g : List Bool → Rat} {lo hi : Rat}
    (hw : ∀ m, m.length = n → 0 ≤ w m) (ht : sumC n w = 1)
    (hg : ∀ m, m.length = n → lo ≤ g m ∧ g m ≤ hi) :
    lo ≤ sumC n (fun m => w m * g m) ∧ sumC n (fun m => w m * g m) ≤ hi := by
  constructor
  · have h1 : sumC n (fun m => w m * lo) = lo := by rw [sumC_mul_right, ht, one_mul]
    rw [← h1]
    exact sumC_le (fun m hm => mul_le_mul_of_nonneg_left (hg m hm).1 (hw m hm))
  · have h1 : sumC n (fun m => w m * hi) = hi := by rw [sumC_mul_right, ht, one_mul]
    rw [← h1]
    exact sumC_le (fun m hm => mul_le_mul_of_nonneg_left (hg m hm).2 (hw m hm))

theorem exists_bit_of_anyTrue {m : List Bool} (h : anyTrue m = true) :
    ∃ i, i < m.length ∧ m.getD i false = true := by
  induction m with
  | nil => simp [anyTrue] at h
  | cons b m ih =>
    cases b with
    | true => exact ⟨0, by simp, by simp⟩
    | false =>
      simp only [anyTrue, Bool.false_or] at h
      obtain ⟨i, hi, hb⟩ := ih h
      exact ⟨i + 1, by simpa using hi, by simpa using hb⟩

theorem anyTrue_of_getD {m : List Bool} {i : Nat} (h : m.getD i false = true) : anyTrue m = true := by
  induction m generalizing i with
  | nil => simp at h
  | cons b m ih =>
    cases i with
    | zero => simp only [List.getD_cons_zero] at h; subst h; simp [anyTrue]
    | succ i =>
      simp only [List.getD_cons_succ] at h
      simp [anyTrue, ih h]

theorem weight_zero_of_marg_zero {n i : Nat} {w : List Bool → Rat} (hw : ∀ m, m.length = n → 0 ≤ w m)
    (h0 : margC n i w = 0) (m : List Bool) (hm : m.length = n) (hb : m.getD i false = true) : w m = 0 := by
  have h1 := le_margC hw m hm hb
  have h2 := hw m hm
  linarith

/-- all marginals zero: only the empty combination carries weight -/
theorem sumC_all_marg_zero {n : Nat} {w g : List Bool → Rat} (hw : ∀ m, m.length = n → 0 ≤ w m)
    (h0 : ∀ i, i < n → margC n i w = 0) (hg : ∀ m, anyTrue m = false → g m = 0) :
    sumC n (fun m => w m * g m) = 0 := by
  rw [← sumC_zero n]
  apply sumC_congr
  intro m hm
  by_cases ha : anyTrue m = true
  · obtain ⟨i, hi, hb⟩ := exists_bit_of_anyTrue ha
    rw [weight_zero_of_marg_zero hw (h0 i (hm ▸ hi)) m hm hb, zero_mul]
  · rw [hg m (by simpa using ha), mul_zero]

/-- the combination consisting of program `i` alone -/
def unitMask : Nat → Nat → List Bool
  | 0, _ => []
  | n + 1, 0 => true :: List.replicate n false
  | n + 1, i + 1 => false :: unitMask n i

theorem unitMask_length (n i : Nat) : (unitMask n i).length = n := by
  induction n generalizing i with
  | zero => rfl
  | succ n ih => cases i <;> simp [unitMask, ih]

theorem unitMask_getD (n i : Nat) (hi : i < n) : (unitMask n i).getD i false = true := by
  induction n generalizing i with
  | zero => omega
  | succ n ih =>
    cases i with
    | zero => simp [unitMask]
    | succ i => simp only [unitMask, List.getD_cons_succ]; exact ih i (by omega)

theorem eq_replicate_of_anyTrue_false {m : List Bool} (h : anyTrue m = false) :
    m = List.replicate m.length false := by
  induction m with
  | nil => rfl
  | cons b m ih =>
    simp only [anyTrue, Bool.or_eq_false_iff] at h
    rw [List.length_cons, List.replicate_succ, ← ih h.2, h.1]

theorem anyTrue_replicate (n : Nat) : anyTrue (List.replicate n false) = false := by
  induction n with
  | zero => rfl
  | succ n ih => simp [List.replicate_succ, anyTrue, ih]

/-- a combination other than `{i}` is empty or contains some `j ≠ i` -/
theorem ne_unitMask {n i : Nat} {m : List Bool} (hm : m.length = n) (hne : m ≠ unitMask n i) :
    anyTrue m = false ∨ ∃ j, j < n ∧ j ≠ i ∧ m.getD j false = true := by
  induction n generalizing i m with
  | zero =>
    have : m = [] := List.length_eq_zero_iff.mp hm
    subst this; left; rfl
  | succ n ih =>
    match m, hm with
    | b :: m', hm' =>
      have hl : m'.length = n := by simpa using hm'
      cases i with
      | zero =>
        by_cases ha : anyTrue m' = true
        · obtain ⟨j, hj, hb⟩ := exists_bit_of_anyTrue ha
          exact Or.inr ⟨j + 1, by omega, by omega, by simpa using hb⟩
        · have ha' : anyTrue m' = false := by simpa using ha
          cases b with
          | false => left; simp [anyTrue, ha']
          | true =>
            exfalso; apply hne
            rw [eq_replicate_of_anyTrue_false ha', hl]; rfl
      | succ i =>
        cases b with
        | true => exact Or.inr ⟨0, by omega, by omega, by simp⟩
        | false =>
          have hne' : m' ≠ unitMask n i := by
            intro h; apply hne; rw [h]; rfl
          rcases ih hl hne' with h | ⟨j, hj, hji, hb⟩
          · left; simp [anyTrue, h]
          · exact Or.inr ⟨j + 1, by omega, by omega, by simpa using hb⟩

theorem sumC_eq_single {n : Nat} {f : List Bool → Rat} (e : List Bool) (he : e.length = n)
    (h : ∀ m, m.length = n → m ≠ e → f m = 0) : sumC n f = f e := by
  induction n generalizing f e with
  | zero =>
    have : e = [] := List.length_eq_zero_iff.mp he
    subst this; rfl
  | succ n ih =>
    match e, he with
    | b :: e', he' =>
      have hl : e'.length = n := by simpa using he'
      simp only [sumC]
      cases b with
      | false =>
        have h1 : sumC n (fun m => f (true :: m)) = 0 := by
          rw [← sumC_zero n]; apply sumC_congr; intro m hm
          exact h (true :: m) (by simp [hm]) (by simp)
        rw [h1, add_zero]
        exact ih (f := fun m => f (false :: m)) e' hl
          (fun m hm hne => h (false :: m) (by simp [hm]) (by simpa using hne))
      | true =>
        have h1 : sumC n (fun m => f (false :: m)) = 0 := by
          rw [← sumC_zero n]; apply sumC_congr; intro m hm
          exact h (false :: m) (by simp [hm]) (by simp)
        rw [h1, zero_add]
        exact ih (f := fun m => f (true :: m)) e' hl
          (fun m hm hne => h (true :: m) (by simp [hm]) (by simpa using hne))

/-- only program `i` has a non-zero marginal: only `{i}` (and the empty combination) carry weight -/
theorem sumC_single_program {n i : Nat} {w g : List Bool → Rat} (hi : i < n)
    (hw : ∀ m, m.length = n → 0 ≤ w m) (h0 : ∀ j, j < n → j ≠ i → margC n j w = 0)
    (hg : ∀ m, anyTrue m = false → g m = 0) :
    sumC n (fun m => w m * g m) = margC n i w * g (unitMask n i) := by
  have hz : ∀ m, m.length = n → m ≠ unitMask n i → anyTrue m = true → w m = 0 := by
    intro m hm hne ha
    rcases ne_unitMask hm hne with h | ⟨j, hj, hji, hb⟩
    · rw [h] at ha; simp at ha
    · exact weight_zero_of_marg_zero hw (h0 j hj hji) m hm hb
  have h1 : sumC n (fun m => w m * g m) = w (unitMask n i) * g (unitMask n i) := by
    apply sumC_eq_single (f := fun m => w m * g m) (unitMask n i) (unitMask_length n i)
    intro m hm hne
    by_cases ha : anyTrue m = true
    · show w m * g m = 0
      rw [hz m hm hne ha, zero_mul]
    · show w m * g m = 0
      rw [hg m (by simpa using ha), mul_zero]
  have h2 : margC n i w = w (unitMask n i) := by
    unfold margC
    rw [sumC_eq_single (f := fun m => if m.getD i false then w m else 0) (unitMask n i) (unitMask_length n i)]
    · rw [if_pos (unitMask_getD n i hi)]
    · intro m hm hne
      by_cases hb : m.getD i false = true
      · show (if m.getD i false = true then w m else 0) = 0
        rw [if_pos hb]
        exact hz m hm hne (anyTrue_of_getD hb)
      · show (if m.getD i false = true then w m else 0) = 0
        rw [if_neg hb]
  rw [h1, h2]

end Atomica.Covout
