/-
  `Engine.step` reads a state only inside the net: two states that agree on every row `r < nrows c` of every compartment
  `c < nC` produce the same flows on every link `l < nL` and next states that agree inside the net again.
  (Used by C10: the finite table a saved `Initialization` holds is all the state a restarted run needs.)
-/
import AtomicaModel.Engine
import AtomicaProofs.Lemmas.Sums
import AtomicaProofs.Lemmas.EngineWF

namespace Atomica.Engine
open Atomica

variable {net : Net}

/-- agreement on the rows that exist -/
def StockEq (net : Net) (x y : Stock) : Prop := ∀ c, c < net.nC → ∀ r, r < net.nrows c → x c r = y c r

/-- agreement on the links that exist (all rows) -/
def FlowEq (net : Net) (f g : Flow) : Prop := ∀ l, l < net.nL → ∀ r, f l r = g l r

theorem StockEq.refl (x : Stock) : StockEq net x x := fun _ _ _ _ => rfl
theorem StockEq.symm {x y : Stock} (h : StockEq net x y) : StockEq net y x := fun c hc r hr => (h c hc r hr).symm
theorem StockEq.trans {x y z : Stock} (h1 : StockEq net x y) (h2 : StockEq net y z) : StockEq net x z :=
  fun c hc r hr => (h1 c hc r hr).trans (h2 c hc r hr)
theorem FlowEq.refl (f : Flow) : FlowEq net f f := fun _ _ _ => rfl
theorem FlowEq.symm {f g : Flow} (h : FlowEq net f g) : FlowEq net g f := fun l hl r => (h l hl r).symm
theorem FlowEq.trans {f g k : Flow} (h1 : FlowEq net f g) (h2 : FlowEq net g k) : FlowEq net f k :=
  fun l hl r => (h1 l hl r).trans (h2 l hl r)

/-- both undefined, or both defined and related -/
def OptRel {α : Type} (R : α → α → Prop) : Option α → Option α → Prop
  | none, none => True
  | some a, some b => R a b
  | _, _ => False

theorem OptRel.of_some {α : Type} {R : α → α → Prop} {a : Option α} {b : α} (h : OptRel R a (some b)) :
    ∃ a', a = some a' ∧ R a' b := by
  cases a with
  | none => exact absurd h (by simp [OptRel])
  | some a' => exact ⟨a', rfl, h⟩

section
variable (hwf : wfCheck net = true) {x y : Stock} (hx : StockEq net x y)
include hwf hx

omit hwf in
theorem stockTotal_congr (c : Nat) (hc : c < net.nC) : stockTotal net x c = stockTotal net y c :=
  sumTo_congr (fun r hr => hx c hc r hr)

theorem popsize_congr : popsize net x = popsize net y := by
  funext p
  unfold popsize
  apply sumTo_congr; intro l hl
  split
  · exact stockTotal_congr hx _ (wf_link hwf l hl).src_lt
  · rfl

theorem convert_congr (dt : Rat) (pv : Nat → Rat) : convert net dt pv x = convert net dt pv y := by
  funext l
  unfold convert
  rw [popsize_congr hwf hx]

theorem baseFlow_congr (cache : Nat → Rat) (l : Nat) (hl : l < net.nL) (r : Nat) :
    baseFlow net cache x l r = baseFlow net cache y l r := by
  unfold baseFlow
  simp only
  cases hk : net.kind (net.src l) <;> simp only
  all_goals
    by_cases hc : r < net.nrows (net.src l) ∧ acts net l r = true
    · simp only [hc, and_self, if_true]
      rw [hx _ (wf_link hwf l hl).src_lt r hc.1]
    · simp only [hc, if_false]

theorem baseOut_congr (cache : Nat → Rat) (c r : Nat) : baseOut net cache x c r = baseOut net cache y c r := by
  unfold baseOut
  apply sumTo_congr; intro l hl
  split
  · exact baseFlow_congr hwf hx cache l hl r
  · rfl

theorem resolveFlow_congr (cache : Nat → Rat) : FlowEq net (resolveFlow net cache x) (resolveFlow net cache y) := by
  intro l hl r
  unfold resolveFlow
  simp only
  by_cases hc : net.kind (net.src l) = .timed ∧ net.isFlush l = true
  · simp only [hc, and_self, if_true]
    have hs := (wf_link hwf l hl).src_lt
    rw [hx _ hs 0 (wf_nrows_pos hwf _ hs), baseOut_congr hwf hx]
  · simp only [hc, if_false]
    exact baseFlow_congr hwf hx cache l hl r

end

section
variable {f g : Flow} (hf : FlowEq net f g)
include hf

theorem recorded_congr (l : Nat) (hl : l < net.nL) : recorded net f l = recorded net g l :=
  sumTo_congr (fun r _ => hf l hl r)

theorem jInflow_congr (j r : Nat) : jInflow net f j r = jInflow net g j r := by
  unfold jInflow
  split
  · apply sumTo_congr; intro l hl
    split
    · exact hf l hl r
    · rfl
  · split
    · apply sumTo_congr; intro l hl
      split
      · exact recorded_congr hf l hl
      · rfl
    · rfl

theorem inflowZero_congr (j : Nat) : inflowZero net f j = inflowZero net g j := by
  unfold inflowZero
  congr 1
  funext r
  rw [jInflow_congr hf]

theorem balanceOne_congr (pv : Nat → Rat) (j : Nat) :
    OptRel (FlowEq net) (balanceOne net pv f j) (balanceOne net pv g j) := by
  unfold balanceOne
  cases hk : net.kind j <;> simp only
  case junction =>
    by_cases h0 : pTot net pv j = 0
    · simp only [h0, if_true]
      rw [inflowZero_congr hf j]
      cases hz : inflowZero net g j
      · simp [OptRel]
      · simp only [if_true, OptRel]
        intro l hl r
        by_cases hs : net.src l = j
        · simp [hs]
        · simp only [hs, if_false]; exact hf l hl r
    · simp only [h0, if_false, OptRel]
      intro l hl r
      by_cases hs : net.src l = j
      · simp only [hs, if_true]; rw [jInflow_congr hf]
      · simp only [hs, if_false]; exact hf l hl r
  case resjunction =>
    simp only [OptRel]
    intro l hl r
    by_cases hs : net.src l = j
    · simp only [hs, if_true]; rw [jInflow_congr hf]
    · simp only [hs, if_false]; exact hf l hl r
  all_goals exact hf

theorem outRow_congr : outRow net f = outRow net g := by
  funext c r
  unfold outRow
  apply sumTo_congr; intro l hl
  split
  · exact hf l hl r
  · rfl

theorem inAll_congr : inAll net f = inAll net g := by
  funext c
  unfold inAll
  apply sumTo_congr; intro l hl
  split
  · exact recorded_congr hf l hl
  · rfl

theorem inUntimed_congr : inUntimed net f = inUntimed net g := by
  funext c
  unfold inUntimed
  apply sumTo_congr; intro l hl
  split
  · exact recorded_congr hf l hl
  · rfl

theorem tlinkInto_congr (l : Nat) (hl : l < net.nL) (n r : Nat) : tlinkInto net f l n r = tlinkInto net g l n r := by
  unfold tlinkInto
  simp only [hf l hl]

theorem inTimedRow_congr : inTimedRow net f = inTimedRow net g := by
  funext c r
  unfold inTimedRow
  apply sumTo_congr; intro l hl
  split
  · exact tlinkInto_congr hf l hl _ r
  · rfl

end

theorem balanceAll_congr (pv : Nat → Rat) : ∀ (js : List Nat) (f g : Flow), FlowEq net f g →
    OptRel (FlowEq net) (balanceAll net pv f js) (balanceAll net pv g js)
  | [], f, g, h => by simpa [balanceAll, OptRel] using h
  | j :: js, f, g, h => by
      have h1 := balanceOne_congr h pv j
      unfold balanceAll
      cases hf : balanceOne net pv f j <;> cases hg : balanceOne net pv g j <;> simp only [hf, hg, OptRel] at h1
      · simp [OptRel]
      · simp only [Option.bind_some]
        exact balanceAll_congr pv js _ _ h1

theorem updateComps_congr (hwf : wfCheck net = true) {x y : Stock} (hx : StockEq net x y) {f g : Flow} (hf : FlowEq net f g) :
    StockEq net (updateComps net x f) (updateComps net y g) := by
  intro c hc r hr
  have h0 : x c 0 = y c 0 := hx c hc 0 (wf_nrows_pos hwf c hc)
  unfold updateComps
  rw [outRow_congr hf, inAll_congr hf, inUntimed_congr hf, inTimedRow_congr hf]
  cases hk : net.kind c <;> simp only
  case normal => rw [h0]
  case sink => rw [h0]
  case timed =>
    simp only [hr, if_true]
    by_cases h1 : net.nrows c ≤ 1
    · simp only [h1, if_true]
      rw [hx c hc r hr]
    · simp only [h1, if_false]
      by_cases h2 : r + 1 < net.nrows c
      · simp only [h2, if_true]
        rw [hx c hc (r + 1) h2]
      · simp only [h2, if_false]
  all_goals exact hx c hc r hr

theorem flows_congr (hwf : wfCheck net = true) {x y : Stock} (hx : StockEq net x y) (dt : Rat) (pv : Nat → Rat) :
    OptRel (FlowEq net) (flows net dt pv x) (flows net dt pv y) := by
  unfold flows
  rw [convert_congr hwf hx]
  exact balanceAll_congr pv net.jorder _ _ (resolveFlow_congr hwf hx _)

/-- one step from two states that agree inside the net: both undefined, or the same flows and agreeing next states -/
theorem step_congr (hwf : wfCheck net = true) {x y : Stock} (hx : StockEq net x y) (dt : Rat) (pv : Nat → Rat) :
    OptRel (fun a b => FlowEq net a.1 b.1 ∧ StockEq net a.2 b.2) (step net dt pv x) (step net dt pv y) := by
  have h := flows_congr hwf hx dt pv
  unfold step
  cases hf : flows net dt pv x <;> cases hg : flows net dt pv y <;> simp only [hf, hg, OptRel] at h
  · simp [OptRel]
  · simp only [Option.map_some, OptRel]
    exact ⟨h, updateComps_congr hwf hx h⟩

/-- trajectories that agree inside the net, entry by entry -/
def TrajEq (net : Net) : List (Stock × Flow) → List (Stock × Flow) → Prop
  | [], [] => True
  | a :: as, b :: bs => (StockEq net a.1 b.1 ∧ FlowEq net a.2 b.2) ∧ TrajEq net as bs
  | _, _ => False

theorem runFrom_congr (hwf : wfCheck net = true) (dt : Rat) : ∀ (pvs : List (Nat → Rat)) (x y : Stock), StockEq net x y →
    OptRel (TrajEq net) (runFrom net dt pvs x) (runFrom net dt pvs y)
  | [], x, y, _ => by simp [runFrom, OptRel, TrajEq]
  | pv :: pvs, x, y, hx => by
      have hs := step_congr hwf hx dt pv
      unfold runFrom
      cases h1 : step net dt pv x <;> cases h2 : step net dt pv y <;> simp only [h1, h2, OptRel] at hs
      · simp [OptRel]
      · rename_i a b
        obtain ⟨fa, xa⟩ := a
        obtain ⟨fb, xb⟩ := b
        have hr := runFrom_congr hwf dt pvs xa xb hs.2
        simp only
        cases h3 : runFrom net dt pvs xa <;> cases h4 : runFrom net dt pvs xb <;> simp only [h3, h4, OptRel] at hr
        · simp [OptRel]
        · simp only [OptRel, TrajEq]
          exact ⟨⟨hx, hs.1⟩, hr⟩

end Atomica.Engine
