/-
  Helper lemmas for C04 (junction balancing and the initial flush) about `AtomicaModel/Engine.lean`.

  New *definitions* (the engine file is frozen, so they live here):
    * `ResUnique`              — `Engine.resCheck` ("every residual junction has exactly one parameter-less out-link", NOT part
                                 of `Engine.wfCheck`; needed for Σ out = in of a residual junction with Σp < 1) as a proposition
                                 (`resCheck_sound`)
    * `RowsOk`                 — a flow vanishes beyond the rows of each link (`GroupRows` = `Engine.wfGroupRows` as a proposition)
    * `WF`                     — the facts of `wfCheck net = true` that the junction proofs use (`wf_of_check`)
    * `NoBack`                 — "no link between two members of the list points backwards" (topological order)
-/
import AtomicaModel.Engine
import AtomicaProofs.Lemmas.Sums
import Mathlib.Data.List.Basic
import Mathlib.Data.List.Nodup
import Mathlib.Tactic.Linarith
import Mathlib.Tactic.Ring
import Mathlib.Tactic.FieldSimp

namespace Atomica.C04
open Atomica Atomica.Engine

variable (net : Net)

/-! ## well-formedness extraction -/

theorem allBelow_iff (n : Nat) (p : Nat → Bool) : allBelow n p = true ↔ ∀ i, i < n → p i = true := by
  simp [allBelow, List.all_eq_true]

/-- junction `j` has exactly one parameter-less out-link -/
def ResUniqueAt (j : Nat) : Prop :=
  ∃ l0, l0 < net.nL ∧ net.src l0 = j ∧ net.par l0 = none ∧
    ∀ l, l < net.nL → net.src l = j → net.par l = none → l = l0

def ResUnique : Prop := ∀ j, j < net.nC → net.kind j = .resjunction → ResUniqueAt net j

theorem resCheck_sound (h : resCheck net = true) : ResUnique net := by
  intro j hj hk
  have h1 := (allBelow_iff _ _).mp h j hj
  simp only [hk, bne_self_eq_false, Bool.false_or, beq_iff_eq] at h1
  obtain ⟨l0, hl0⟩ := List.length_eq_one_iff.mp h1
  have hmem : ∀ l, l ∈ (List.range net.nL).filter (fun l => net.src l == j && net.par l == none) ↔ l = l0 := by
    intro l; rw [hl0]; simp
  have h0 := (hmem l0).mpr rfl
  simp only [List.mem_filter, List.mem_range, Bool.and_eq_true, beq_iff_eq] at h0
  refine ⟨l0, h0.1, h0.2.1, h0.2.2, ?_⟩
  intro l hl hs hp
  apply (hmem l).mp
  simp only [List.mem_filter, List.mem_range, Bool.and_eq_true, beq_iff_eq]
  exact ⟨hl, hs, hp⟩

/-- the facts `wfCheck` provides for the junction proofs -/
structure WF : Prop where
  src_lt : ∀ l, l < net.nL → net.src l < net.nC
  dst_lt : ∀ l, l < net.nL → net.dst l < net.nC
  dst_not_source : ∀ l, l < net.nL → net.kind (net.dst l) ≠ .source
  nrows_pos : ∀ c, c < net.nC → 1 ≤ net.nrows c
  nrows_one : ∀ c, c < net.nC → net.kind c ≠ .timed → net.nrows c = 1
  jlink_rows : ∀ l, l < net.nL → isJunction net (net.src l) = true → net.jgroup (net.src l) = false → net.lrows l = 1
  lrows_timed : ∀ l, l < net.nL → net.kind (net.src l) = .timed → net.lrows l = net.nrows (net.src l)
  lrows_plain : ∀ l, l < net.nL → isJunction net (net.src l) = false → net.kind (net.src l) ≠ .timed → net.lrows l = 1
  jorder_lt : ∀ j, j ∈ net.jorder → j < net.nC
  jorder_junction : ∀ j, j ∈ net.jorder → isJunction net j = true
  jorder_count : ∀ c, c < net.nC → isJunction net c = true → (net.jorder.filter (· == c)).length = 1
  topo : ∀ l, l < net.nL → isJunction net (net.src l) = true → isJunction net (net.dst l) = true →
    net.jorder.idxOf (net.src l) < net.jorder.idxOf (net.dst l)

theorem wf_of_check (h : wfCheck net = true) : WF net := by
  unfold wfCheck at h
  simp only [Bool.and_eq_true] at h
  obtain ⟨⟨⟨⟨⟨⟨hL, _hP⟩, hC⟩, _hT⟩, hJ⟩, hCount⟩, hTopo⟩ := h
  have hL' := (allBelow_iff _ _).mp hL
  have hC' := (allBelow_iff _ _).mp hC
  have hCount' := (allBelow_iff _ _).mp hCount
  have hTopo' := (allBelow_iff _ _).mp hTopo
  have hJ' := List.all_eq_true.mp hJ
  refine ⟨?_, ?_, ?_, ?_, ?_, ?_, ?_, ?_, ?_, ?_, ?_, ?_⟩
  · intro l hl
    have := hL' l hl
    simp only [Bool.and_eq_true, decide_eq_true_eq] at this
    exact this.1.1.1.1.1.1.1.1.1.1.1
  · intro l hl
    have := hL' l hl
    simp only [Bool.and_eq_true, decide_eq_true_eq] at this
    exact this.1.1.1.1.1.1.1.1.1.1.2
  · intro l hl
    have := hL' l hl
    simp only [Bool.and_eq_true, decide_eq_true_eq] at this
    have h2 := this.1.1.1.1.1.1.1.1.2
    simpa using h2
  · intro c hc
    have := hC' c hc
    simp only [Bool.and_eq_true, decide_eq_true_eq] at this
    exact this.1
  · intro c hc hk
    have := hC' c hc
    simp only [Bool.and_eq_true, Bool.or_eq_true, beq_iff_eq] at this
    rcases this.2 with h2 | h2
    · exact absurd h2 hk
    · exact h2
  · intro l hl hjn hg
    have := hL' l hl
    simp only [Bool.and_eq_true, decide_eq_true_eq] at this
    have h8 := this.1.1.1.1.2
    unfold isJunction at hjn
    cases hk : net.kind (net.src l) <;> simp only [hk] at hjn h8 <;> first | exact absurd hjn (by decide) | simpa [hg] using h8
  · intro l hl hk
    have := hL' l hl
    simp only [Bool.and_eq_true, decide_eq_true_eq] at this
    have h8 := this.1.1.1.1.2
    simpa [hk] using h8
  · intro l hl hjn hk
    have := hL' l hl
    simp only [Bool.and_eq_true, decide_eq_true_eq] at this
    have h8 := this.1.1.1.1.2
    unfold isJunction at hjn
    cases hk' : net.kind (net.src l) <;> simp only [hk'] at hjn h8 hk <;>
      first | exact absurd hjn (by decide) | exact absurd rfl hk | simpa using h8
  · intro j hj
    have := hJ' j hj
    simp only [Bool.and_eq_true, decide_eq_true_eq] at this
    exact this.1
  · intro j hj
    have := hJ' j hj
    simp only [Bool.and_eq_true, decide_eq_true_eq] at this
    exact this.2
  · intro c hc hj
    have := hCount' c hc
    simp only [hj, Bool.not_true, Bool.false_or, beq_iff_eq] at this
    exact this
  · intro l hl hs hd
    have := hTopo' l hl
    simp only [hs, hd, Bool.and_self, Bool.not_true, Bool.false_or, decide_eq_true_eq] at this
    exact this

variable {net}

theorem WF.mem_jorder (w : WF net) {c : Nat} (hc : c < net.nC) (hj : isJunction net c = true) : c ∈ net.jorder := by
  have h := w.jorder_count c hc hj
  rw [← List.count_eq_length_filter] at h
  exact List.count_pos_iff.mp (by omega)

theorem WF.nodup (w : WF net) : net.jorder.Nodup := by
  rw [List.nodup_iff_count_eq_one]
  intro a ha
  rw [List.count_eq_length_filter]
  exact w.jorder_count a (w.jorder_lt a ha) (w.jorder_junction a ha)

variable (net)

/-- no link between two members of `js` points backwards (or to itself) -/
def NoBack (js : List Nat) : Prop :=
  ∀ l, l < net.nL → net.src l ∈ js → net.dst l ∈ js → js.idxOf (net.src l) < js.idxOf (net.dst l)

variable {net}

theorem WF.noBack (w : WF net) : NoBack net net.jorder := by
  intro l hl hs hd
  exact w.topo l hl (w.jorder_junction _ hs) (w.jorder_junction _ hd)

theorem NoBack.tail {j : Nat} {js : List Nat} (h : NoBack net (j :: js)) (hj : j ∉ js) : NoBack net js := by
  intro l hl hs hd
  have h1 := h l hl (List.mem_cons_of_mem _ hs) (List.mem_cons_of_mem _ hd)
  have hsj : j ≠ net.src l := fun e => hj (e ▸ hs)
  have hdj : j ≠ net.dst l := fun e => hj (e ▸ hd)
  rw [List.idxOf_cons_ne _ hsj, List.idxOf_cons_ne _ hdj] at h1
  omega

/-- a link into the head of the list does not start inside the list -/
theorem NoBack.head {j : Nat} {js : List Nat} (h : NoBack net (j :: js)) {l : Nat} (hl : l < net.nL)
    (hd : net.dst l = j) : net.src l ∉ j :: js := by
  intro hs
  have h1 := h l hl hs (by rw [hd]; exact List.mem_cons_self)
  rw [hd, List.idxOf_cons_self] at h1
  omega

/-! ## sums restricted to the out-links of one compartment -/

theorem jInflow_congr {fl fl' : Flow} {j : Nat} (h : ∀ l, l < net.nL → net.dst l = j → ∀ r, fl l r = fl' l r) (r : Nat) :
    jInflow net fl j r = jInflow net fl' j r := by
  unfold jInflow recorded
  split
  · apply sumTo_congr; intro l hl
    by_cases hd : net.dst l = j
    · simp only [hd, if_true]; exact h l hl hd r
    · simp only [hd, if_false]
  · split
    · apply sumTo_congr; intro l hl
      by_cases hd : net.dst l = j
      · simp only [hd, if_true]
        apply sumTo_congr; intro r' _; exact h l hl hd r'
      · simp only [hd, if_false]
    · rfl

theorem outRow_congr {fl fl' : Flow} {j r : Nat} (h : ∀ l, l < net.nL → net.src l = j → fl l r = fl' l r) :
    outRow net fl j r = outRow net fl' j r := by
  unfold outRow
  apply sumTo_congr; intro l hl
  by_cases hs : net.src l = j
  · simp only [hs, if_true]; exact h l hl hs
  · simp only [hs, if_false]

variable (net)

/-- `Σ_{l : src l = j} a · p_l = a · pTot` -/
theorem sum_out_mul (pv : Nat → Rat) (j : Nat) (a : Rat) :
    sumTo net.nL (fun l => if net.src l = j then a * pOf net pv l else 0) = a * pTot net pv j := by
  unfold pTot
  rw [← sumTo_mul_left]
  apply sumTo_congr; intro l _
  by_cases hs : net.src l = j <;> simp [hs]

theorem pOf_none {pv : Nat → Rat} {l : Nat} (h : net.par l = none) : pOf net pv l = 0 := by
  simp [pOf, h]

/-! ## rows -/

/-- a flow vanishes beyond the rows its link draws from -/
def RowsOk (fl : Flow) : Prop := ∀ l, l < net.nL → ∀ r, net.lrows l ≤ r → fl l r = 0

/-- `Engine.wfGroupRows` as a proposition: links incident to one duration-group junction have the same number of rows -/
def GroupRows : Prop :=
  ∀ j, j < net.nC → isJunction net j = true → net.jgroup j = true →
    ∀ l1, l1 < net.nL → ∀ l2, l2 < net.nL → (net.src l1 = j ∨ net.dst l1 = j) → (net.src l2 = j ∨ net.dst l2 = j) →
      net.lrows l1 = net.lrows l2

theorem wfGroupRows_sound (h : wfGroupRows net = true) : GroupRows net := by
  intro j hj hjn hg l1 hl1 l2 hl2 h1 h2
  have := (allBelow_iff _ _).mp ((allBelow_iff _ _).mp ((allBelow_iff _ _).mp h l1 hl1) l2 hl2) j hj
  simp only [hjn, hg, Bool.true_and, Bool.or_eq_true, Bool.not_eq_true', Bool.and_eq_false_iff, Bool.or_eq_false_iff,
    beq_iff_eq, beq_eq_false_iff_ne] at this
  rcases this with (⟨a, b⟩ | ⟨a, b⟩) | hh
  · rcases h1 with h1 | h1 <;> contradiction
  · rcases h2 with h2 | h2 <;> contradiction
  · exact hh

theorem foldl_max_le (j : Nat) : ∀ (L : List Nat) (m0 : Nat),
    m0 ≤ L.foldl (fun m l => if net.dst l = j then max m (net.lrows l) else m) m0 ∧
    ∀ l ∈ L, net.dst l = j → net.lrows l ≤ L.foldl (fun m l => if net.dst l = j then max m (net.lrows l) else m) m0 := by
  intro L
  induction L with
  | nil => intro m0; exact ⟨le_refl _, fun l hl => by cases hl⟩
  | cons a L ih =>
    intro m0
    simp only [List.foldl_cons]
    obtain ⟨h1, h2⟩ := ih (if net.dst a = j then max m0 (net.lrows a) else m0)
    have hm : m0 ≤ (if net.dst a = j then max m0 (net.lrows a) else m0) := by split <;> omega
    refine ⟨le_trans hm h1, ?_⟩
    intro l hl hd
    rcases List.mem_cons.mp hl with rfl | hl'
    · have : net.lrows l ≤ (if net.dst l = j then max m0 (net.lrows l) else m0) := by simp [hd]
      exact le_trans this h1
    · exact h2 l hl' hd

theorem lrows_le_jRows {l j : Nat} (hl : l < net.nL) (hd : net.dst l = j) : net.lrows l ≤ jRows net j :=
  (foldl_max_le net j (List.range net.nL) 0).2 l (List.mem_range.mpr hl) hd

/-- `not np.any(net_inflow)` means the inflow is zero in EVERY row, for a flow that vanishes beyond the rows of its links -/
theorem inflowZero_all {fl : Flow} {j : Nat} (hrows : RowsOk net fl) (hz : inflowZero net fl j = true) (r : Nat) :
    jInflow net fl j r = 0 := by
  by_cases hr : r < jRows net j
  · have := List.all_eq_true.mp hz r (List.mem_range.mpr hr)
    simpa using this
  · have hr' : jRows net j ≤ r := Nat.le_of_not_lt hr
    unfold jInflow
    split
    · apply sumTo_zero; intro l hl
      by_cases hd : net.dst l = j
      · simp only [hd, if_true]
        exact hrows l hl r (le_trans (lrows_le_jRows net hl hd) hr')
      · simp only [hd, if_false]
    · split
      · rename_i h0
        subst h0
        apply sumTo_zero; intro l hl
        by_cases hd : net.dst l = j
        · simp only [hd, if_true]
          have : net.lrows l = 0 := by have := lrows_le_jRows net hl hd; omega
          simp [recorded, this, sumTo]
        · simp only [hd, if_false]
      · rfl

/-- the flows `resolve_outflows` produces vanish beyond the rows of each link -/
theorem resolveFlow_rowsOk (w : WF net) (cache : Nat → Rat) (x : Stock) : RowsOk net (resolveFlow net cache x) := by
  intro l hl r hr
  have hs := w.src_lt l hl
  unfold resolveFlow
  simp only
  split
  · rename_i hc
    have h1 := w.lrows_timed l hl hc.1
    have h2 := w.nrows_pos _ hs
    have : r ≠ 0 := by omega
    simp [this]
  · unfold baseFlow
    simp only
    split
    · rename_i hk
      have h1 := w.lrows_plain l hl (by simp [isJunction, hk]) (by rw [hk]; decide)
      have : r ≠ 0 := by omega
      simp [this]
    · rename_i hk
      have h1 := w.lrows_plain l hl (by simp [isJunction, hk]) (by rw [hk]; decide)
      have h2 := w.nrows_one _ hs (by rw [hk]; decide)
      have : ¬ r < net.nrows (net.src l) := by omega
      simp [this]
    · rename_i hk
      have h1 := w.lrows_timed l hl hk
      have : ¬ r < net.nrows (net.src l) := by omega
      simp [this]
    · rfl

/-! ## balancing one junction -/

theorem balanceOne_frame {pv : Nat → Rat} {fl fl' : Flow} {j : Nat} (h : balanceOne net pv fl j = some fl')
    {l : Nat} (hl : net.src l ≠ j) (r : Nat) : fl' l r = fl l r := by
  unfold balanceOne at h
  split at h
  · split at h
    · split at h
      · cases h; simp [hl]
      · cases h
    · cases h; simp [hl]
  · cases h; simp [hl]
  · cases h; rfl

/-- plain junction with `Σp ≠ 0` -/
theorem balanceOne_plain {pv : Nat → Rat} {fl fl' : Flow} {j : Nat} (hk : net.kind j = .junction)
    (h : balanceOne net pv fl j = some fl') (hp : pTot net pv j ≠ 0) :
    ∀ l, net.src l = j → ∀ r, fl' l r = jInflow net fl j r * pOf net pv l / pTot net pv j := by
  simp only [balanceOne, hk, hp, if_false] at h
  cases h
  exact fun l hl r => by simp [hl]

/-- plain junction with `Σp = 0`: defined only when nothing flows in, and then nothing flows out -/
theorem balanceOne_plain_zero {pv : Nat → Rat} {fl fl' : Flow} {j : Nat} (hk : net.kind j = .junction)
    (h : balanceOne net pv fl j = some fl') (hp : pTot net pv j = 0) :
    inflowZero net fl j = true ∧ ∀ l, net.src l = j → ∀ r, fl' l r = 0 := by
  simp only [balanceOne, hk, hp, if_true] at h
  split at h
  · rename_i hz
    cases h
    exact ⟨hz, fun l hl r => by simp [hl]⟩
  · cases h

theorem balanceOne_res {pv : Nat → Rat} {fl fl' : Flow} {j : Nat} (hk : net.kind j = .resjunction)
    (h : balanceOne net pv fl j = some fl') :
    ∀ l, net.src l = j → ∀ r, fl' l r =
      if net.par l = none ∧ pTot net pv j < 1 then
        jInflow net fl j r - sumTo net.nL (fun l' => if net.src l' = j then jInflow net fl j r * resFrac net pv j l' else 0)
      else jInflow net fl j r * resFrac net pv j l := by
  simp only [balanceOne, hk] at h
  cases h
  intro l hl r
  simp [hl]

theorem balanceOne_isSome_res {pv : Nat → Rat} {fl : Flow} {j : Nat} (hk : net.kind j = .resjunction) :
    (balanceOne net pv fl j).isSome = true := by
  simp [balanceOne, hk]

theorem balanceOne_isSome_plain {pv : Nat → Rat} {fl : Flow} {j : Nat} (hk : net.kind j = .junction)
    (hp : pTot net pv j ≠ 0) : (balanceOne net pv fl j).isSome = true := by
  simp [balanceOne, hk, hp]

/-- the only way balancing fails: a plain junction with `Σp = 0` that receives people (Python: x·0/0 = NaN) -/
theorem balanceOne_eq_none_iff {pv : Nat → Rat} {fl : Flow} {j : Nat} :
    balanceOne net pv fl j = none ↔ net.kind j = .junction ∧ pTot net pv j = 0 ∧ inflowZero net fl j = false := by
  unfold balanceOne
  cases hk : net.kind j <;> simp
  by_cases hp : pTot net pv j = 0 <;> simp [hp]

theorem balanceOne_not_junction {pv : Nat → Rat} {fl : Flow} {j : Nat} (hk : isJunction net j = false) :
    balanceOne net pv fl j = some fl := by
  unfold isJunction at hk
  unfold balanceOne
  split <;> simp_all

/-- residual junction, `Σp > 1`: every link gets `in · p_l / Σp` -/
theorem res_sum_gt {pv : Nat → Rat} {j : Nat} (inn : Rat) (ht : pTot net pv j > 1) :
    sumTo net.nL (fun l => if net.src l = j then inn * resFrac net pv j l else 0) = inn := by
  have hne : pTot net pv j ≠ 0 := by intro h; rw [h] at ht; exact absurd ht (by norm_num)
  have : ∀ l, (if net.src l = j then inn * resFrac net pv j l else 0)
      = (if net.src l = j then (inn / pTot net pv j) * pOf net pv l else 0) := by
    intro l
    by_cases hs : net.src l = j
    · simp only [hs, if_true, resFrac, ht]; ring
    · simp only [hs, if_false]
  simp only [this]
  rw [sum_out_mul]
  field_simp

/-- residual junction, `Σp ≤ 1`: the parameter-driven part sums to `in · Σp` -/
theorem res_sum_le {pv : Nat → Rat} {j : Nat} (inn : Rat) (ht : ¬ pTot net pv j > 1) :
    sumTo net.nL (fun l => if net.src l = j then inn * resFrac net pv j l else 0) = inn * pTot net pv j := by
  rw [← sum_out_mul]
  apply sumTo_congr; intro l _
  by_cases hs : net.src l = j
  · simp only [hs, if_true, resFrac, ht, if_false]
  · simp only [hs, if_false]

/-- what leaves a junction after it was balanced equals what flowed in (rows separately for a duration-group junction).
    `hzero` is only used in the branch "plain junction, `Σp = 0`, nothing flows in". -/
theorem balanceOne_out {pv : Nat → Rat} {fl fl' : Flow} {j : Nat}
    (hres : net.kind j = .resjunction → pTot net pv j < 1 → ResUniqueAt net j)
    (hzero : net.kind j = .junction → pTot net pv j = 0 → inflowZero net fl j = true → ∀ r, jInflow net fl j r = 0)
    (hjn : isJunction net j = true) (h : balanceOne net pv fl j = some fl') (r : Nat) :
    outRow net fl' j r = jInflow net fl j r := by
  unfold isJunction at hjn
  cases hk : net.kind j <;> simp only [hk] at hjn <;> try exact absurd hjn (by decide)
  · -- plain junction
    by_cases hp : pTot net pv j = 0
    · obtain ⟨hz, hv⟩ := balanceOne_plain_zero net hk h hp
      rw [hzero hk hp hz r]
      unfold outRow
      apply sumTo_zero; intro l _
      by_cases hs : net.src l = j
      · simp only [hs, if_true]; exact hv l hs r
      · simp only [hs, if_false]
    · have hv := balanceOne_plain net hk h hp
      unfold outRow
      have : ∀ l, (if net.src l = j then fl' l r else 0)
          = (if net.src l = j then (jInflow net fl j r / pTot net pv j) * pOf net pv l else 0) := by
        intro l
        by_cases hs : net.src l = j
        · simp only [hs, if_true]; rw [hv l hs r]; ring
        · simp only [hs, if_false]
      simp only [this]
      rw [sum_out_mul]
      field_simp
  · -- residual junction
    have hv := balanceOne_res net hk h
    unfold outRow
    by_cases hlt : pTot net pv j < 1
    · obtain ⟨l0, hl0, hs0, hp0, huniq⟩ := hres hk hlt
      have hgt : ¬ pTot net pv j > 1 := by intro hh; linarith
      have : ∀ l, l < net.nL → (if net.src l = j then fl' l r else 0)
          = (if net.src l = j then jInflow net fl j r * pOf net pv l else 0)
            + (if l = l0 then jInflow net fl j r - jInflow net fl j r * pTot net pv j else 0) := by
        intro l hl
        by_cases hs : net.src l = j
        · simp only [hs, if_true]
          rw [hv l hs r, res_sum_le net _ hgt]
          by_cases hp : net.par l = none
          · have hll : l = l0 := huniq l hl hs hp
            subst hll
            simp [hp, hlt, pOf_none net hp]
          · have : l ≠ l0 := fun e => hp (e ▸ hp0)
            simp [hp, this, resFrac, hgt]
        · have : l ≠ l0 := fun e => hs (e ▸ hs0)
          simp [hs, this]
      rw [sumTo_congr this, sumTo_add, sum_out_mul, sumTo_single l0 hl0]
      ring
    · have hc : ∀ l, ¬ (net.par l = none ∧ pTot net pv j < 1) := fun l hh => hlt hh.2
      have : ∀ l, (if net.src l = j then fl' l r else 0)
          = (if net.src l = j then jInflow net fl j r * resFrac net pv j l else 0) := by
        intro l
        by_cases hs : net.src l = j
        · simp only [hs, if_true]; rw [hv l hs r]; simp only [hc l, if_false]
        · simp only [hs, if_false]
      simp only [this]
      by_cases hgt : pTot net pv j > 1
      · exact res_sum_gt net _ hgt
      · rw [res_sum_le net _ hgt]
        have : pTot net pv j = 1 := le_antisymm (not_lt.mp hgt) (not_lt.mp hlt)
        rw [this]; ring

/-- every out-link of a balanced junction carries a multiple of the junction's inflow in that row -/
theorem balanceOne_zero_of_inflow_zero {pv : Nat → Rat} {fl fl' : Flow} {j : Nat} (hjn : isJunction net j = true)
    (h : balanceOne net pv fl j = some fl') {l : Nat} (hs : net.src l = j) {r : Nat} (h0 : jInflow net fl j r = 0) :
    fl' l r = 0 := by
  unfold isJunction at hjn
  cases hk : net.kind j <;> simp only [hk] at hjn <;> try exact absurd hjn (by decide)
  · by_cases hp : pTot net pv j = 0
    · exact (balanceOne_plain_zero net hk h hp).2 l hs r
    · rw [balanceOne_plain net hk h hp l hs r, h0]; simp
  · rw [balanceOne_res net hk h l hs r, h0]
    have : sumTo net.nL (fun _ => (0 : Rat)) = 0 := sumTo_zero (fun _ _ => rfl)
    simp [this]

/-- balancing keeps flows zero beyond the rows of each link -/
theorem balanceOne_rowsOk (w : WF net) (hg : GroupRows net) {pv : Nat → Rat} {fl fl' : Flow} {j : Nat} (hj : j < net.nC)
    (hjn : isJunction net j = true) (hrows : RowsOk net fl) (h : balanceOne net pv fl j = some fl') : RowsOk net fl' := by
  intro l hl r hr
  by_cases hs : net.src l = j
  · apply balanceOne_zero_of_inflow_zero net hjn h hs
    by_cases hgj : net.jgroup j = true
    · unfold jInflow
      simp only [hgj, if_true]
      apply sumTo_zero; intro l' hl'
      by_cases hd : net.dst l' = j
      · simp only [hd, if_true]
        have := hg j hj hjn hgj l hl l' hl' (Or.inl hs) (Or.inr hd)
        exact hrows l' hl' r (by omega)
      · simp only [hd, if_false]
    · have hgj' : net.jgroup j = false := by simpa using hgj
      have h1 := w.jlink_rows l hl (by rw [hs]; exact hjn) (by rw [hs]; exact hgj')
      have : r ≠ 0 := by omega
      simp [jInflow, hgj', this]
  · rw [balanceOne_frame net h hs r]; exact hrows l hl r hr

/-! ## balancing all junctions in a topological order -/

theorem balanceAll_frame_list (pv : Nat → Rat) : ∀ (js : List Nat) (fl0 fl : Flow),
    balanceAll net pv fl0 js = some fl → ∀ l, net.src l ∉ js → ∀ r, fl l r = fl0 l r := by
  intro js
  induction js with
  | nil => intro fl0 fl h l _ r; simp only [balanceAll] at h; cases h; rfl
  | cons j js ih =>
    intro fl0 fl h l hl r
    simp only [balanceAll] at h
    cases h1 : balanceOne net pv fl0 j with
    | none => rw [h1] at h; cases h
    | some fl1 =>
      rw [h1] at h
      simp only [Option.bind_some] at h
      have hlj : net.src l ≠ j := fun e => hl (e ▸ List.mem_cons_self)
      have hljs : net.src l ∉ js := fun e => hl (List.mem_cons_of_mem _ e)
      rw [ih fl1 fl h l hljs r, balanceOne_frame net h1 hlj r]

/-- every junction of a topologically ordered list is balanced exactly once, on an inflow that is already final, and its
    out-links are not touched afterwards.  `Inv` is any invariant of the flow that balancing one listed junction preserves
    (it is then available for the flow the junction was balanced on). -/
theorem balanceAll_at (pv : Nat → Rat) (Inv : Flow → Prop) : ∀ (js : List Nat) (fl0 fl : Flow),
    js.Nodup → NoBack net js →
    (∀ j ∈ js, ∀ fb fa, Inv fb → balanceOne net pv fb j = some fa → Inv fa) → Inv fl0 →
    balanceAll net pv fl0 js = some fl →
    ∀ j ∈ js, ∃ fb fa, Inv fb ∧ balanceOne net pv fb j = some fa ∧ (∀ l, net.src l = j → ∀ r, fl l r = fa l r)
      ∧ (∀ r, jInflow net fl j r = jInflow net fb j r) := by
  intro js
  induction js with
  | nil => intro _ _ _ _ _ _ _ j hj; cases hj
  | cons j0 js ih =>
    intro fl0 fl hnd hnb hpres hinv h j hj
    simp only [balanceAll] at h
    cases h1 : balanceOne net pv fl0 j0 with
    | none => rw [h1] at h; cases h
    | some fl1 =>
      rw [h1] at h
      simp only [Option.bind_some] at h
      obtain ⟨hj0, hnd'⟩ := List.nodup_cons.mp hnd
      rcases List.mem_cons.mp hj with rfl | hj'
      · -- the head: its in- and out-links are final after its own balance
        have hframe := balanceAll_frame_list net pv js fl1 fl h
        refine ⟨fl0, fl1, hinv, h1, fun l hs r => hframe l (by rw [hs]; exact hj0) r, fun r => ?_⟩
        have hin : jInflow net fl j r = jInflow net fl1 j r :=
          jInflow_congr (fun l hl hd r' => hframe l (fun e => hnb.head hl hd (List.mem_cons_of_mem _ e)) r') r
        have hin0 : jInflow net fl1 j r = jInflow net fl0 j r :=
          jInflow_congr (fun l hl hd r' =>
            balanceOne_frame net h1 (fun e => hnb.head hl hd (e ▸ List.mem_cons_self)) r') r
        rw [hin, hin0]
      · exact ih fl1 fl hnd' (hnb.tail hj0) (fun j hj => hpres j (List.mem_cons_of_mem _ hj))
          (hpres j0 List.mem_cons_self fl0 fl1 hinv h1) h j hj'

/-- the invariant also holds for the final flow -/
theorem balanceAll_inv (pv : Nat → Rat) (Inv : Flow → Prop) : ∀ (js : List Nat) (fl0 fl : Flow),
    (∀ j ∈ js, ∀ fb fa, Inv fb → balanceOne net pv fb j = some fa → Inv fa) → Inv fl0 →
    balanceAll net pv fl0 js = some fl → Inv fl := by
  intro js
  induction js with
  | nil => intro fl0 fl _ hinv h; simp only [balanceAll] at h; cases h; exact hinv
  | cons j0 js ih =>
    intro fl0 fl hpres hinv h
    simp only [balanceAll] at h
    cases h1 : balanceOne net pv fl0 j0 with
    | none => rw [h1] at h; cases h
    | some fl1 =>
      rw [h1] at h
      simp only [Option.bind_some] at h
      exact ih fl1 fl (fun j hj => hpres j (List.mem_cons_of_mem _ hj)) (hpres j0 List.mem_cons_self fl0 fl1 hinv h1) h

theorem balanceAll_passthrough_list (w : WF net) (hg : GroupRows net) (hres : ResUnique net) (pv : Nat → Rat)
    (js : List Nat) (fl0 fl : Flow) (hnd : js.Nodup) (hjs : ∀ j ∈ js, j < net.nC ∧ isJunction net j = true)
    (hnb : NoBack net js) (hrows : RowsOk net fl0)
    (h : balanceAll net pv fl0 js = some fl) : ∀ j ∈ js, ∀ r, outRow net fl j r = jInflow net fl j r := by
  intro j hj r
  obtain ⟨fb, fa, hinv, h1, hout, hin⟩ := balanceAll_at net pv (RowsOk net) js fl0 fl hnd hnb
    (fun j hj fb fa hi hb => balanceOne_rowsOk net w hg (hjs j hj).1 (hjs j hj).2 hi hb) hrows h j hj
  rw [hin r, outRow_congr (fun l _ hs => hout l hs r)]
  exact balanceOne_out net (fun hk _ => hres j (hjs j hj).1 hk) (fun _ _ hz => inflowZero_all net hinv hz)
    (hjs j hj).2 h1 r

/-- links whose source is not a junction are never touched (no well-formedness needed) -/
theorem balanceAll_frame_nonjunction (pv : Nat → Rat) : ∀ (js : List Nat) (fl0 fl : Flow),
    balanceAll net pv fl0 js = some fl → ∀ l, isJunction net (net.src l) = false → ∀ r, fl l r = fl0 l r := by
  intro js
  induction js with
  | nil => intro fl0 fl h l _ r; simp only [balanceAll] at h; cases h; rfl
  | cons j js ih =>
    intro fl0 fl h l hl r
    simp only [balanceAll] at h
    cases h1 : balanceOne net pv fl0 j with
    | none => rw [h1] at h; cases h
    | some fl1 =>
      rw [h1] at h
      simp only [Option.bind_some] at h
      rw [ih fl1 fl h l hl r]
      by_cases hs : net.src l = j
      · rw [← hs, balanceOne_not_junction net hl] at h1
        cases h1; rfl
      · exact balanceOne_frame net h1 hs r

/-- balancing succeeds when no plain junction of the list has all-zero proportions (otherwise it succeeds exactly when
    nothing flows into those junctions: `balanceOne_eq_none_iff`) -/
theorem balanceAll_isSome (pv : Nat → Rat) : ∀ (js : List Nat) (fl0 : Flow),
    (∀ j ∈ js, net.kind j = .junction → pTot net pv j ≠ 0) → (balanceAll net pv fl0 js).isSome = true := by
  intro js
  induction js with
  | nil => intro fl0 _; simp [balanceAll]
  | cons j js ih =>
    intro fl0 hp
    simp only [balanceAll]
    cases h1 : balanceOne net pv fl0 j with
    | none =>
      obtain ⟨hk, hz, _⟩ := (balanceOne_eq_none_iff net).mp h1
      exact absurd hz (hp j List.mem_cons_self hk)
    | some fl1 =>
      simp only [Option.bind_some]
      exact ih fl1 (fun j hj => hp j (List.mem_cons_of_mem _ hj))

end Atomica.C04
