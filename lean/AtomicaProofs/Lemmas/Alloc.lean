/-
  Helper lemmas about `Atomica.Alloc` (sums over index ranges, clipping, extended upper bounds).
-/
import AtomicaModel.Alloc
import Mathlib.Tactic.Linarith
import Mathlib.Tactic.Ring
import Mathlib.Tactic.FieldSimp
import Mathlib.Tactic.NormNum
import Mathlib.Algebra.Order.AbsoluteValue.Basic

namespace Atomica.Alloc
open Atomica

theorem absQ_eq_abs (a : Rat) : absQ a = |a| := by
  unfold absQ
  split
  · rw [abs_of_neg ‹_›]
  · rw [abs_of_nonneg (not_lt.mp ‹_›)]

theorem allTo_iff (n : Nat) (p : Nat → Bool) : allTo n p = true ↔ ∀ i, i < n → p i = true := by
  induction n with
  | zero => simp [allTo]
  | succ n ih =>
    simp only [allTo, Bool.and_eq_true, ih]
    constructor
    · rintro ⟨h1, h2⟩ i hi
      rcases Nat.lt_succ_iff_lt_or_eq.mp hi with h | h
      · exact h1 i h
      · exact h ▸ h2
    · intro h
      exact ⟨fun i hi => h i (Nat.lt_succ_of_lt hi), h n (Nat.lt_succ_self n)⟩

theorem sumTo_mul (n : Nat) (f : Nat → Rat) (c : Rat) : sumTo n (fun i => f i * c) = sumTo n f * c := by
  induction n with
  | zero => simp [sumTo]
  | succ n ih => simp only [sumTo, ih]; ring

theorem sumTo_div (n : Nat) (f : Nat → Rat) (c : Rat) : sumTo n (fun i => f i / c) = sumTo n f / c := by
  induction n with
  | zero => simp [sumTo]
  | succ n ih => simp only [sumTo, ih]; ring

theorem sumTo_congr (n : Nat) (f g : Nat → Rat) (h : ∀ i, i < n → f i = g i) : sumTo n f = sumTo n g := by
  induction n with
  | zero => rfl
  | succ n ih =>
    simp only [sumTo]
    rw [ih (fun i hi => h i (Nat.lt_succ_of_lt hi)), h n (Nat.lt_succ_self n)]

theorem sumTo_zero (n : Nat) : sumTo n (fun _ => (0 : Rat)) = 0 := by
  induction n with
  | zero => rfl
  | succ n ih => simp [sumTo, ih]

theorem sumTo_nonneg (n : Nat) (f : Nat → Rat) (h : ∀ i, i < n → 0 ≤ f i) : 0 ≤ sumTo n f := by
  induction n with
  | zero => simp [sumTo]
  | succ n ih =>
    simp only [sumTo]
    have := ih (fun i hi => h i (Nat.lt_succ_of_lt hi))
    have := h n (Nat.lt_succ_self n)
    linarith

theorem sumTo_le (n : Nat) (f g : Nat → Rat) (h : ∀ i, i < n → f i ≤ g i) : sumTo n f ≤ sumTo n g := by
  induction n with
  | zero => simp [sumTo]
  | succ n ih =>
    simp only [sumTo]
    have := ih (fun i hi => h i (Nat.lt_succ_of_lt hi))
    have := h n (Nat.lt_succ_self n)
    linarith

/-- a sum of non-negative terms that is zero has only zero terms -/
theorem sumTo_eq_zero (n : Nat) (f : Nat → Rat) (h : ∀ i, i < n → 0 ≤ f i) (h0 : sumTo n f = 0) :
    ∀ i, i < n → f i = 0 := by
  induction n with
  | zero => intro i hi; omega
  | succ n ih =>
    simp only [sumTo] at h0
    have h1 := sumTo_nonneg n f (fun i hi => h i (Nat.lt_succ_of_lt hi))
    have h2 := h n (Nat.lt_succ_self n)
    have h3 : sumTo n f = 0 := by linarith
    have h4 : f n = 0 := by linarith
    intro i hi
    rcases Nat.lt_succ_iff_lt_or_eq.mp hi with h | h
    · exact ih (fun i hi => ‹∀ i, i < n + 1 → 0 ≤ f i› i (Nat.lt_succ_of_lt hi)) h3 i h
    · exact h ▸ h4

theorem leUB_iff (v : Rat) (u : UB) : leUB v u = true ↔ ∀ r, u = some r → v ≤ r := by
  cases u with
  | none => simp [leUB]
  | some r => simp [leUB]

theorem clipLB_ge (l v : Rat) : l ≤ clipLB l v := by
  unfold clipLB; split <;> linarith

theorem clipLB_le_of (l v u : Rat) (hl : l ≤ u) (hv : v ≤ u) : clipLB l v ≤ u := by
  unfold clipLB; split <;> linarith

theorem clip_ge (l : Rat) (u : UB) (v : Rat) (h : leUB l u = true) : l ≤ clip l u v := by
  unfold clip clipUB
  cases u with
  | none => exact clipLB_ge l v
  | some r =>
    have hr : l ≤ r := by simpa [leUB] using h
    simp only
    split
    · exact hr
    · exact clipLB_ge l v

theorem clip_le (l : Rat) (u : UB) (v : Rat) : leUB (clip l u v) u = true := by
  unfold clip clipUB
  cases u with
  | none => simp [leUB]
  | some r =>
    simp only [leUB, decide_eq_true_eq]
    split
    · exact le_refl r
    · exact not_lt.mp ‹_›

/-- scaling back: `l/s ≤ v → l ≤ v*s` for `s > 0` -/
theorem scale_lo (l v s : Rat) (hs : 0 < s) (h : l / s ≤ v) : l ≤ v * s := by
  have := (div_le_iff₀ hs).mp h
  linarith

theorem scale_hi (u : UB) (v s : Rat) (hs : 0 < s) (h : leUB v (divUB u s) = true) : leUB (v * s) u = true := by
  cases u with
  | none => simp [leUB]
  | some r =>
    simp only [divUB, Option.map, leUB, decide_eq_true_eq] at h ⊢
    exact (le_div_iff₀ hs).mp h

theorem leUB_div (l : Rat) (u : UB) (s : Rat) (hs : 0 < s) (h : leUB l u = true) : leUB (l / s) (divUB u s) = true := by
  cases u with
  | none => simp [leUB, divUB]
  | some r =>
    simp only [divUB, Option.map, leUB, decide_eq_true_eq] at h ⊢
    exact div_le_div_of_nonneg_right h hs.le

end Atomica.Alloc
