/-
  Lemmas for C12 (Covout): the combination table (`comboOut`, `argmaxAbs`), the stable sort, and the
  additive branch below 100 % written as a weighted sum.
-/
import AtomicaProofs.Lemmas.Covout

namespace Atomica.Covout

/-! ### argmax -/

theorem argmax_fold (acc : Rat) (xs : List Rat) :
    let r := xs.foldl (fun acc y => if absQ acc < absQ y then y else acc) acc
    (r = acc ∨ r ∈ xs) ∧ |acc| ≤ |r| ∧ ∀ y ∈ xs, |y| ≤ |r| := by
  induction xs generalizing acc with
  | nil => simp
  | cons x xs ih =>
    simp only [List.foldl_cons]
    by_cases h : absQ acc < absQ x
    · rw [if_pos h]
      obtain ⟨h1, h2, h3⟩ := ih x
      rw [absQ_eq, absQ_eq] at h
      refine ⟨?_, by linarith, ?_⟩
      · rcases h1 with h1 | h1
        · right; rw [h1]; simp
        · right; simp [h1]
      · intro y hy
        rcases List.mem_cons.mp hy with rfl | hy
        · exact h2
        · exact h3 y hy
    · rw [if_neg h]
      obtain ⟨h1, h2, h3⟩ := ih acc
      rw [absQ_eq, absQ_eq] at h
      refine ⟨?_, h2, ?_⟩
      · rcases h1 with h1 | h1
        · left; exact h1
        · right; simp [h1]
      · intro y hy
        rcases List.mem_cons.mp hy with rfl | hy
        · linarith
        · exact h3 y hy

/-- `tmp[np.argmax(abs(tmp))]` is an element of largest magnitude -/
theorem argmaxAbs_spec (l : List Rat) (hl : l ≠ []) :
    argmaxAbs l ∈ l ∧ ∀ y ∈ l, |y| ≤ |argmaxAbs l| := by
  cases l with
  | nil => exact absurd rfl hl
  | cons x xs =>
    obtain ⟨h1, h2, h3⟩ := argmax_fold x xs
    simp only [argmaxAbs]
    constructor
    · rcases h1 with h1 | h1
      · rw [h1]; simp
      · simp [h1]
    · intro y hy
      rcases List.mem_cons.mp hy with rfl | hy
      · exact h2
      · exact h3 y hy

theorem argmaxAbs_singleton (x : Rat) : argmaxAbs [x] = x := rfl

/-- on a list sorted by decreasing magnitude the first maximum is the head -/
theorem argmaxAbs_sorted (x : Rat) (xs : List Rat) (h : ∀ y ∈ xs, |y| ≤ |x|) : argmaxAbs (x :: xs) = x := by
  simp only [argmaxAbs]
  induction xs with
  | nil => rfl
  | cons y ys ih =>
    simp only [List.foldl_cons]
    have hy := h y (by simp)
    rw [if_neg (by rw [absQ_eq, absQ_eq]; linarith)]
    exact ih (fun z hz => h z (by simp [hz]))

/-! ### members / keys of special combinations -/

theorem members_replicate (ds : List Rat) (n : Nat) : members ds (List.replicate n false) = [] := by
  induction ds generalizing n with
  | nil => cases n <;> simp [members]
  | cons d ds ih => cases n <;> simp [List.replicate_succ, members, ih]

theorem maskKey_replicate (ids : List Nat) (n : Nat) : maskKey ids (List.replicate n false) = 0 := by
  induction ids generalizing n with
  | nil => cases n <;> simp [maskKey]
  | cons d ds ih => cases n <;> simp [List.replicate_succ, maskKey, ih]

theorem members_ne_nil {ds : List Rat} {m : List Bool} (hl : ds.length = m.length) (h : anyTrue m = true) :
    members ds m ≠ [] := by
  induction ds generalizing m with
  | nil =>
    have : m = [] := List.length_eq_zero_iff.mp hl.symm
    subst this; simp [anyTrue] at h
  | cons d ds ih =>
    cases m with
    | nil => simp at hl
    | cons b m =>
      cases b with
      | true => simp [members]
      | false =>
        simp only [members]
        exact ih (by simpa using hl) (by simpa [anyTrue] using h)

theorem members_sublist (ds : List Rat) (m : List Bool) : (members ds m).Sublist ds := by
  induction ds generalizing m with
  | nil => cases m <;> simp [members]
  | cons d ds ih =>
    cases m with
    | nil => simp [members]
    | cons b m =>
      cases b with
      | true => simp only [members]; exact (ih m).cons_cons d
      | false => simp only [members]; exact (ih m).cons d

theorem comboOut_noTrue (b : Rat) (ex : List (Nat × Rat)) (ids : List Nat) (ds : List Rat) (m : List Bool)
    (h : anyTrue m = false) : comboOut b ex ids ds m = 0 := by
  simp [comboOut, h]

theorem comboOut_false_cons (b : Rat) (ex : List (Nat × Rat)) (i : Nat) (ids : List Nat) (d : Rat)
    (ds : List Rat) (m : List Bool) :
    comboOut b ex (i :: ids) (d :: ds) (false :: m) = comboOut b ex ids ds m := by
  simp [comboOut, anyTrue, maskKey, members]

theorem comboOut_true_falses (b : Rat) (ex : List (Nat × Rat)) (i : Nat) (ids : List Nat) (d : Rat)
    (ds : List Rat) (n : Nat) (h : lookupLast ex (2 ^ i) = none) :
    comboOut b ex (i :: ids) (d :: ds) (true :: List.replicate n false) = d := by
  simp [comboOut, anyTrue, maskKey, members, maskKey_replicate, members_replicate, h, argmaxAbs]

/-- the table entry of a single program is its own delta (no explicit value for the single program) -/
theorem comboOut_unit (b : Rat) (ex : List (Nat × Rat)) (ids : List Nat) (ds : List Rat) (n i : Nat)
    (hi : i < n) (h1 : ids.length = n) (h2 : ds.length = n)
    (h : lookupLast ex (2 ^ (ids.getD i 0)) = none) :
    comboOut b ex ids ds (unitMask n i) = ds.getD i 0 := by
  induction n generalizing i ids ds with
  | zero => omega
  | succ n ih =>
    match ids, ds, h1, h2 with
    | id0 :: ids', d0 :: ds', h1', h2' =>
      cases i with
      | zero =>
        simp only [unitMask, List.getD_cons_zero] at h ⊢
        exact comboOut_true_falses b ex id0 ids' d0 ds' n h
      | succ i =>
        simp only [unitMask, List.getD_cons_succ] at h ⊢
        rw [comboOut_false_cons]
        exact ih ids' ds' i (by omega) (by simpa using h1') (by simpa using h2') h

/-! ### additive branch below 100 %: `np.sum(cov * deltas)` as a weighted sum over the table -/

theorem sumC_lowW_mul (n : Nat) (r : Rat) (cs : List Rat) (b : Rat) (ex : List (Nat × Rat))
    (ids : List Nat) (ds : List Rat) (hc : cs.length = n) (hi : ids.length = n) (hd : ds.length = n)
    (hex : ∀ i ∈ ids, lookupLast ex (2 ^ i) = none) :
    sumC n (fun m => lowW r cs m * comboOut b ex ids ds m) = dot cs ds := by
  induction n generalizing r cs ids ds with
  | zero =>
    have h1 : cs = [] := List.length_eq_zero_iff.mp hc
    subst h1
    simp [sumC, lowW, comboOut, anyTrue, dot]
  | succ n ih =>
    match cs, ids, ds, hc, hi, hd with
    | c :: cs', id0 :: ids', d0 :: ds', hc', hi', hd' =>
      simp only [sumC, lowW, comboOut_false_cons, dot]
      rw [ih (r - c) cs' ids' ds' (by simpa using hc') (by simpa using hi') (by simpa using hd')
        (fun i hi => hex i (by simp [hi]))]
      rw [sumC_allFalse_mul n c (fun m => comboOut b ex (id0 :: ids') (d0 :: ds') (true :: m))]
      rw [comboOut_true_falses b ex id0 ids' d0 ds' n (hex id0 (by simp))]
      ring

/-! ### the stable sort by decreasing |outcome − baseline| -/

theorem insByMag_perm (b : Rat) (x : Prog) (l : List Prog) : (insByMag b x l).Perm (x :: l) := by
  induction l with
  | nil => exact List.Perm.refl _
  | cons y ys ih =>
    simp only [insByMag]
    split_ifs
    · exact ((List.Perm.cons y ih).trans (List.Perm.swap x y ys))
    · exact List.Perm.refl _

theorem sortProgs_perm' (b : Rat) (ps : List Prog) : (sortProgs b ps).Perm ps := by
  induction ps with
  | nil => exact List.Perm.refl _
  | cons p ps ih =>
    simp only [sortProgs, List.foldr_cons] at *
    exact (insByMag_perm b p _).trans (List.Perm.cons p ih)

theorem sortProgs_length (b : Rat) (ps : List Prog) : (sortProgs b ps).length = ps.length :=
  (sortProgs_perm' b ps).length_eq

def MagSorted (b : Rat) (l : List Prog) : Prop := l.Pairwise (fun p q => |q.out - b| ≤ |p.out - b|)

theorem insByMag_sorted (b : Rat) (x : Prog) (l : List Prog) (h : MagSorted b l) : MagSorted b (insByMag b x l) := by
  induction l with
  | nil => simp [insByMag, MagSorted]
  | cons y ys ih =>
    unfold MagSorted at *
    rw [List.pairwise_cons] at h
    simp only [insByMag]
    split_ifs with hlt
    · rw [absQ_eq, absQ_eq] at hlt
      rw [List.pairwise_cons]
      refine ⟨?_, ih h.2⟩
      intro z hz
      rcases List.mem_cons.mp ((insByMag_perm b x ys).mem_iff.mp hz) with rfl | hz
      · exact hlt.le
      · exact h.1 z hz
    · rw [absQ_eq, absQ_eq] at hlt
      rw [List.pairwise_cons]
      refine ⟨?_, List.pairwise_cons.mpr h⟩
      intro z hz
      rcases List.mem_cons.mp hz with rfl | hz
      · linarith
      · have := h.1 z hz; linarith

theorem sortProgs_sorted' (b : Rat) (ps : List Prog) : MagSorted b (sortProgs b ps) := by
  induction ps with
  | nil => simp [sortProgs, MagSorted]
  | cons p ps ih =>
    simp only [sortProgs, List.foldr_cons] at *
    exact insByMag_sorted b p _ ih

end Atomica.Covout
