/-
  After `Engine.flushAll` over the junction execution order of a well-formed net no junction of that order holds anybody:
  a flushed junction is set to 0, a junction that is not flushed held nobody, and a later flush only adds to destinations that
  come later in the (topological, duplicate-free) order.
-/
import AtomicaModel.Engine
import AtomicaProofs.Lemmas.EngineWF
import Mathlib.Data.List.Nodup
import Mathlib.Data.List.Count

namespace Atomica.Engine
open Atomica

variable {net : Net}

theorem addTo_other (x : Stock) (c : Nat) (amt : Rat) (d : Nat) (hd : d ≠ c) (r : Nat) : addTo net x c amt d r = x d r := by
  simp [addTo, hd]

theorem flushLinks_other (pv : Nat → Rat) (j : Nat) (v : Rat) : ∀ (k : Nat) (x x' : Stock), flushLinks net pv j v k x = some x' →
    ∀ d, (∀ l, l < k → net.src l = j → net.dst l ≠ d) → ∀ r, x' d r = x d r
  | 0, x, x', h, d, _, r => by
      simp only [flushLinks, Option.some.injEq] at h
      rw [← h]
  | k + 1, x, x', h, d, hd, r => by
      unfold flushLinks at h
      cases h1 : flushLinks net pv j v k x with
      | none => simp [h1] at h
      | some x1 =>
          have ih := flushLinks_other pv j v k x x1 h1 d (fun l hl => hd l (by omega)) r
          simp only [h1, Option.bind_eq_bind, Option.bind_some] at h
          by_cases hs : net.src k = j
          · simp only [hs, if_true] at h
            cases hf : flushFrac net pv j k with
            | none => simp [hf] at h
            | some f =>
                simp only [hf, Option.bind_some, Option.some.injEq] at h
                rw [← h, addTo_other _ _ _ _ (fun e => hd k (by omega) hs e.symm)]
                exact ih
          · simp only [hs, if_false, Option.some.injEq] at h
            rw [← h]; exact ih

theorem flushOne_other {pv : Nat → Rat} {x x' : Stock} {j : Nat} (h : flushOne net pv x j = some x') (d : Nat) (hdj : d ≠ j)
    (hd : ∀ l, l < net.nL → net.src l = j → net.dst l ≠ d) (r : Nat) : x' d r = x d r := by
  unfold flushOne at h
  split at h
  · cases h1 : flushLinks net pv j (x j 0) net.nL x with
    | none => simp [h1] at h
    | some x1 =>
        simp only [h1, Option.map_some, Option.some.injEq] at h
        rw [← h]
        simp only [hdj, if_false]
        exact flushLinks_other pv j (x j 0) net.nL x x1 h1 d hd r
  · simp only [Option.some.injEq] at h
    rw [← h]

theorem flushOne_self {pv : Nat → Rat} {x x' : Stock} {j : Nat} (h : flushOne net pv x j = some x') : ¬ (x' j 0 > 0) := by
  unfold flushOne at h
  split at h
  · cases h1 : flushLinks net pv j (x j 0) net.nL x with
    | none => simp [h1] at h
    | some x1 =>
        simp only [h1, Option.map_some, Option.some.injEq] at h
        rw [← h]
        simp
  · rename_i hn
    simp only [Option.some.injEq] at h
    rw [← h]; exact hn

theorem flushAll_other (pv : Nat → Rat) : ∀ (js : List Nat) (x x' : Stock), flushAll net pv x js = some x' →
    ∀ d, d ∉ js → (∀ l, l < net.nL → net.src l ∈ js → net.dst l ≠ d) → ∀ r, x' d r = x d r
  | [], x, x', h, d, _, _, r => by
      simp only [flushAll, Option.some.injEq] at h
      rw [← h]
  | j :: js, x, x', h, d, hd, hl, r => by
      unfold flushAll at h
      cases h1 : flushOne net pv x j with
      | none => simp [h1] at h
      | some x1 =>
          simp only [h1, Option.bind_some] at h
          have hdj : d ≠ j := fun e => hd (by simp [e])
          rw [flushAll_other pv js x1 x' h d (fun hm => hd (by simp [hm])) (fun l hl' hs => hl l hl' (by simp [hs])) r]
          exact flushOne_other h1 d hdj (fun l hl' hs => hl l hl' (by simp [hs])) r

/-- after flushing a duplicate-free, topologically ordered list of junctions none of them holds anybody -/
theorem flushAll_empties (pv : Nat → Rat) : ∀ (js : List Nat) (x x' : Stock), flushAll net pv x js = some x' → js.Nodup →
    (∀ l, l < net.nL → net.src l ∈ js → net.dst l ∈ js → js.idxOf (net.src l) < js.idxOf (net.dst l)) →
    ∀ j, j ∈ js → ¬ (x' j 0 > 0)
  | [], _, _, _, _, _, j, hj => by simp at hj
  | j0 :: js, x, x', h, hnd, htop, j, hj => by
      unfold flushAll at h
      cases h1 : flushOne net pv x j0 with
      | none => simp [h1] at h
      | some x1 =>
          simp only [h1, Option.bind_some] at h
          have hj0 : j0 ∉ js := (List.nodup_cons.mp hnd).1
          rcases List.mem_cons.mp hj with rfl | hjs
          · -- the junction flushed first is not touched afterwards
            have : x' j 0 = x1 j 0 := by
              apply flushAll_other pv js x1 x' h j hj0
              intro l hl hs hd
              have hsrc : net.src l ≠ j := fun e => hj0 (e ▸ hs)
              have := htop l hl (by simp [hs]) (by simp [hd])
              rw [hd] at this
              simp at this
            rw [this]; exact flushOne_self h1
          · apply flushAll_empties pv js x1 x' h (List.nodup_cons.mp hnd).2 ?_ j hjs
            intro l hl hs hd
            have h1' : net.src l ≠ j0 := fun e => hj0 (e ▸ hs)
            have h2' : net.dst l ≠ j0 := fun e => hj0 (e ▸ hd)
            have := htop l hl (by simp [hs]) (by simp [hd])
            rw [List.idxOf_cons_ne _ (Ne.symm h1'), List.idxOf_cons_ne _ (Ne.symm h2')] at this
            omega

theorem wf_jorder_mem (hwf : wfCheck net = true) (j : Nat) (hj : j ∈ net.jorder) : j < net.nC ∧ isJunction net j = true := by
  simp only [wfCheck, Bool.and_eq_true, allBelow, List.all_eq_true, List.mem_range] at hwf
  obtain ⟨⟨⟨_, hJ⟩, _⟩, _⟩ := hwf
  simpa using hJ j hj

theorem wf_jorder_nodup (hwf : wfCheck net = true) : net.jorder.Nodup := by
  have hmem := wf_jorder_mem hwf
  simp only [wfCheck, Bool.and_eq_true, allBelow, List.all_eq_true, List.mem_range] at hwf
  obtain ⟨⟨_, hF⟩, _⟩ := hwf
  rw [List.nodup_iff_count_eq_one]
  intro j hj
  obtain ⟨hlt, hjn⟩ := hmem j hj
  have := hF j hlt
  simp only [hjn, Bool.not_true, Bool.false_or, beq_iff_eq] at this
  rw [List.count_eq_length_filter]
  convert this using 3

theorem wf_jorder_top (hwf : wfCheck net = true) (l : Nat) (hl : l < net.nL) (hs : net.src l ∈ net.jorder) (hd : net.dst l ∈ net.jorder) :
    net.jorder.idxOf (net.src l) < net.jorder.idxOf (net.dst l) := by
  have h1 := (wf_jorder_mem hwf _ hs).2
  have h2 := (wf_jorder_mem hwf _ hd).2
  simp only [wfCheck, Bool.and_eq_true, allBelow, List.all_eq_true, List.mem_range] at hwf
  obtain ⟨_, hG⟩ := hwf
  have := hG l hl
  simpa [h1, h2] using this

/-- **junctions are empty after the start-up flush** of a well-formed net, whatever the initial state and parameter values -/
theorem flushAll_jorder_empty (hwf : wfCheck net = true) (pv : Nat → Rat) (x x' : Stock)
    (h : flushAll net pv x net.jorder = some x') : ∀ j, j ∈ net.jorder → ¬ (x' j 0 > 0) :=
  flushAll_empties pv net.jorder x x' h (wf_jorder_nodup hwf) (wf_jorder_top hwf)

end Atomica.Engine
