/-
  Helper lemmas for C04 about the initial flush (`addTo`, `flushFrac`, `flushLinks`, `flushOne`, `flushAll`).

  New definitions: `fval` (the fraction `flushFrac` yields, 0 when it fails), `grandTotal` (Σ_c stockTotal).
-/
import AtomicaProofs.Lemmas.Junctions

namespace Atomica.C04
open Atomica Atomica.Engine

variable (net : Net)

/-- people in all compartments -/
def grandTotal (x : Stock) : Rat := sumTo net.nC (stockTotal net x)

/-- the fraction `initial_flush` uses for link `l` of junction `j` (0 where the division fails) -/
def fval (pv : Nat → Rat) (j l : Nat) : Rat := (flushFrac net pv j l).getD 0

theorem sumTo_const (n : Nat) (a : Rat) : sumTo n (fun _ => a) = n * a := by
  induction n with
  | zero => simp [sumTo]
  | succ n ih => simp only [sumTo, ih]; push_cast; ring

/-! ## `addTo` -/

theorem addTo_other {x : Stock} {c c' : Nat} (amt : Rat) (h : c' ≠ c) (r : Nat) : addTo net x c amt c' r = x c' r := by
  simp [addTo, h]

theorem addTo_row0 {x : Stock} {c : Nat} (amt : Rat) (hk : net.kind c ≠ .timed) : addTo net x c amt c 0 = x c 0 + amt := by
  unfold addTo
  cases hkc : net.kind c <;> simp_all

theorem addTo_row0_nontimed {x : Stock} {c c' : Nat} (amt : Rat) (hk : net.kind c' ≠ .timed) :
    addTo net x c amt c' 0 = x c' 0 + (if c' = c then amt else 0) := by
  by_cases h : c' = c
  · subst h; simp [addTo_row0 net amt hk]
  · simp [addTo_other net amt h, h]

theorem stockTotal_addTo {x : Stock} {c : Nat} (amt : Rat) (hn : 1 ≤ net.nrows c)
    (h1 : net.kind c ≠ .timed → net.nrows c = 1) (c' : Nat) :
    stockTotal net (addTo net x c amt) c' = stockTotal net x c' + (if c' = c then amt else 0) := by
  by_cases h : c' = c
  · subst h
    simp only [if_true]
    by_cases hk : net.kind c' = .timed
    · have hne : (net.nrows c' : Rat) ≠ 0 := by
        have : (0 : Rat) < net.nrows c' := by exact_mod_cast hn
        exact ne_of_gt this
      have : stockTotal net (addTo net x c' amt) c'
          = sumTo (net.nrows c') (fun _ => (stockTotal net x c' + amt) / (net.nrows c' : Rat)) := by
        unfold stockTotal
        apply sumTo_congr; intro r hr
        simp [addTo, hk, hr, stockTotal]
      rw [this, sumTo_const]
      field_simp
    · have h1' := h1 hk
      unfold stockTotal
      rw [h1']
      simp only [sumTo, zero_add]
      exact addTo_row0 net amt hk
  · simp only [h, if_false, add_zero]
    unfold stockTotal
    apply sumTo_congr; intro r _
    exact addTo_other net amt h r

theorem grandTotal_addTo {x : Stock} {c : Nat} (amt : Rat) (hc : c < net.nC) (hn : 1 ≤ net.nrows c)
    (h1 : net.kind c ≠ .timed → net.nrows c = 1) :
    grandTotal net (addTo net x c amt) = grandTotal net x + amt := by
  unfold grandTotal
  rw [sumTo_congr (fun c' _ => stockTotal_addTo net amt hn h1 c'), sumTo_add, sumTo_single c hc]

/-! ## `flushFrac` -/

theorem pTot_nonneg {pv : Nat → Rat} {j : Nat} (hp : ∀ l, l < net.nL → net.src l = j → 0 ≤ pOf net pv l) :
    0 ≤ pTot net pv j := by
  unfold pTot
  apply sumTo_nonneg; intro l hl
  by_cases hs : net.src l = j
  · simp only [hs, if_true]; exact hp l hl hs
  · simp only [hs, if_false]; exact le_refl 0

theorem flushFrac_nonneg {pv : Nat → Rat} {j l : Nat} (hl : l < net.nL) (hs : net.src l = j)
    (hp : ∀ l, l < net.nL → net.src l = j → 0 ≤ pOf net pv l) {f : Rat}
    (h : flushFrac net pv j l = some f) : 0 ≤ f := by
  have ht := pTot_nonneg net hp
  have hpl := hp l hl hs
  unfold flushFrac at h
  split at h
  · unfold divQ at h
    split at h
    · cases h
    · cases h; exact div_nonneg hpl ht
  · simp only at h
    split at h
    · split at h
      · cases h; linarith
      · cases h; exact le_refl 0
    · split at h
      · cases h; exact hpl
      · unfold divQ at h
        split at h
        · cases h
        · cases h; exact div_nonneg hpl ht
  · cases h; exact le_refl 0

/-- the fractions of a plain junction sum to 1 -/
theorem fval_sum_plain {pv : Nat → Rat} {j : Nat} (hk : net.kind j = .junction) (hp : pTot net pv j ≠ 0) :
    sumTo net.nL (fun l => if net.src l = j then fval net pv j l else 0) = 1 := by
  have : ∀ l, (if net.src l = j then fval net pv j l else 0)
      = (if net.src l = j then (1 / pTot net pv j) * pOf net pv l else 0) := by
    intro l
    by_cases hs : net.src l = j
    · simp only [hs, if_true, fval, flushFrac, hk, divQ, hp, if_false, Option.getD_some]; ring
    · simp only [hs, if_false]
  simp only [this]
  rw [sum_out_mul]
  field_simp

/-- the fractions of a residual junction sum to 1 (for `Σp < 1` this needs the single residual link) -/
theorem fval_sum_res {pv : Nat → Rat} {j : Nat} (hk : net.kind j = .resjunction)
    (hres : pTot net pv j < 1 → ResUniqueAt net j) :
    sumTo net.nL (fun l => if net.src l = j then fval net pv j l else 0) = 1 := by
  by_cases hlt : pTot net pv j < 1
  · obtain ⟨l0, hl0, hs0, hp0, huniq⟩ := hres hlt
    have : ∀ l, l < net.nL → (if net.src l = j then fval net pv j l else 0)
        = (if net.src l = j then 1 * pOf net pv l else 0) + (if l = l0 then 1 - pTot net pv j else 0) := by
      intro l hl
      by_cases hs : net.src l = j
      · by_cases hp : net.par l = none
        · have hll : l = l0 := huniq l hl hs hp
          subst hll
          simp [hs, fval, flushFrac, hk, hp, hlt, pOf_none net hp]
        · have hll : l ≠ l0 := fun e => hp (e ▸ hp0)
          simp [hs, fval, flushFrac, hk, hp, hlt, hll]
      · have hll : l ≠ l0 := fun e => hs (e ▸ hs0)
        simp [hs, hll]
    rw [sumTo_congr this, sumTo_add, sum_out_mul, sumTo_single l0 hl0]
    ring
  · have h0 : pTot net pv j ≠ 0 := by intro h; apply hlt; rw [h]; norm_num
    have : ∀ l, (if net.src l = j then fval net pv j l else 0)
        = (if net.src l = j then (1 / pTot net pv j) * pOf net pv l else 0) := by
      intro l
      by_cases hs : net.src l = j
      · by_cases hp : net.par l = none
        · simp [hs, fval, flushFrac, hk, hp, hlt, pOf_none net hp]
        · simp only [hs, if_true, fval, flushFrac, hk, hp, hlt, if_false, divQ, h0, Option.getD_some]; ring
      · simp only [hs, if_false]
    simp only [this]
    rw [sum_out_mul]
    field_simp

/-! ## `flushLinks` -/

theorem flushLinks_succ {pv : Nat → Rat} {j : Nat} {v : Rat} {k : Nat} {x x' : Stock}
    (h : flushLinks net pv j v (k + 1) x = some x') :
    ∃ a, flushLinks net pv j v k x = some a ∧
      ((net.src k = j ∧ ∃ f, flushFrac net pv j k = some f ∧ x' = addTo net a (net.dst k) (v * f))
        ∨ (net.src k ≠ j ∧ x' = a)) := by
  rw [flushLinks] at h
  simp only [bind, Option.bind_eq_some_iff] at h
  obtain ⟨a, ha, h2⟩ := h
  refine ⟨a, ha, ?_⟩
  by_cases hs : net.src k = j
  · simp only [hs, if_true, Option.bind_eq_some_iff] at h2
    obtain ⟨f, hf, h3⟩ := h2
    left; exact ⟨hs, f, hf, by cases h3; rfl⟩
  · simp only [hs, if_false] at h2
    right; exact ⟨hs, by cases h2; rfl⟩

/-- compartments that are not a destination of a link of `j` are not touched -/
theorem flushLinks_frame {pv : Nat → Rat} {j : Nat} {v : Rat} : ∀ (k : Nat) {x x' : Stock},
    flushLinks net pv j v k x = some x' → ∀ c, (∀ l, l < k → net.src l = j → net.dst l ≠ c) → ∀ r, x' c r = x c r := by
  intro k
  induction k with
  | zero => intro x x' h c _ r; simp only [flushLinks] at h; cases h; rfl
  | succ k ih =>
    intro x x' h c hc r
    obtain ⟨a, ha, h2⟩ := flushLinks_succ net h
    have iha := ih ha c (fun l hl => hc l (by omega)) r
    rcases h2 with ⟨hs, f, _, rfl⟩ | ⟨_, rfl⟩
    · rw [addTo_other net _ (fun e => hc k (by omega) hs e.symm) r, iha]
    · exact iha

/-- a non-timed compartment's value can only grow when the pushed amounts are non-negative -/
theorem flushLinks_mono {pv : Nat → Rat} {j : Nat} {v : Rat} : ∀ (k : Nat) {x x' : Stock},
    flushLinks net pv j v k x = some x' → (∀ l, l < k → net.src l = j → ∀ f, flushFrac net pv j l = some f → 0 ≤ v * f) →
    ∀ c, net.kind c ≠ .timed → x c 0 ≤ x' c 0 := by
  intro k
  induction k with
  | zero => intro x x' h _ c _; simp only [flushLinks] at h; cases h; exact le_refl _
  | succ k ih =>
    intro x x' h hpos c hk
    obtain ⟨a, ha, h2⟩ := flushLinks_succ net h
    have iha := ih ha (fun l hl => hpos l (by omega)) c hk
    rcases h2 with ⟨hs, f, hf, rfl⟩ | ⟨_, rfl⟩
    · rw [addTo_row0_nontimed net _ hk]
      have := hpos k (by omega) hs f hf
      split <;> linarith
    · exact iha

/-- the grand total grows by `v · Σ fractions` -/
theorem flushLinks_total {pv : Nat → Rat} {j : Nat} {v : Rat} (w : WF net) : ∀ (k : Nat) {x x' : Stock},
    k ≤ net.nL → flushLinks net pv j v k x = some x' →
    grandTotal net x' = grandTotal net x + v * sumTo k (fun l => if net.src l = j then fval net pv j l else 0) := by
  intro k
  induction k with
  | zero => intro x x' _ h; simp only [flushLinks] at h; cases h; simp [sumTo]
  | succ k ih =>
    intro x x' hk h
    obtain ⟨a, ha, h2⟩ := flushLinks_succ net h
    have iha := ih (by omega) ha
    have hd := w.dst_lt k (by omega)
    rcases h2 with ⟨hs, f, hf, rfl⟩ | ⟨hs, rfl⟩
    · rw [grandTotal_addTo net _ hd (w.nrows_pos _ hd) (w.nrows_one _ hd), iha]
      simp only [sumTo, hs, if_true, fval, hf, Option.getD_some]
      ring
    · rw [iha]; simp only [sumTo, hs, if_false, add_zero]

/-! ## `flushOne` -/

theorem flushOne_of_nonpos {pv : Nat → Rat} {x : Stock} {j : Nat} (h : ¬ x j 0 > 0) : flushOne net pv x j = some x := by
  simp [flushOne, h]

theorem flushOne_pos {pv : Nat → Rat} {x x' : Stock} {j : Nat} (hpos : x j 0 > 0) (h : flushOne net pv x j = some x') :
    ∃ a, flushLinks net pv j (x j 0) net.nL x = some a ∧ x' = fun c r => if c = j then 0 else a c r := by
  simp only [flushOne, hpos, if_true, Option.map_eq_some_iff] at h
  obtain ⟨a, ha, rfl⟩ := h
  exact ⟨a, ha, rfl⟩

/-- the flushed junction is empty afterwards (its content was ≥ 0) -/
theorem flushOne_self {pv : Nat → Rat} {x x' : Stock} {j : Nat} (h0 : 0 ≤ x j 0) (h : flushOne net pv x j = some x') :
    x' j 0 = 0 := by
  by_cases hpos : x j 0 > 0
  · obtain ⟨a, _, rfl⟩ := flushOne_pos net hpos h
    simp
  · rw [flushOne_of_nonpos net hpos] at h
    cases h
    exact le_antisymm (not_lt.mp hpos) h0

/-- only the junction itself and the destinations of its links are touched -/
theorem flushOne_frame {pv : Nat → Rat} {x x' : Stock} {j : Nat} (h : flushOne net pv x j = some x') (c : Nat)
    (hcj : c ≠ j) (hc : ∀ l, l < net.nL → net.src l = j → net.dst l ≠ c) (r : Nat) : x' c r = x c r := by
  by_cases hpos : x j 0 > 0
  · obtain ⟨a, ha, rfl⟩ := flushOne_pos net hpos h
    simp only [hcj, if_false]
    exact flushLinks_frame net net.nL ha c hc r
  · rw [flushOne_of_nonpos net hpos] at h
    cases h; rfl

/-- other non-timed compartments (in particular downstream junctions) do not decrease -/
theorem flushOne_mono {pv : Nat → Rat} {x x' : Stock} {j : Nat}
    (hp : ∀ l, l < net.nL → net.src l = j → 0 ≤ pOf net pv l)
    (h : flushOne net pv x j = some x') (c : Nat) (hcj : c ≠ j) (hk : net.kind c ≠ .timed) : x c 0 ≤ x' c 0 := by
  by_cases hpos : x j 0 > 0
  · obtain ⟨a, ha, rfl⟩ := flushOne_pos net hpos h
    simp only [hcj, if_false]
    apply flushLinks_mono net net.nL ha _ c hk
    intro l hl hs f hf
    exact mul_nonneg (le_of_lt hpos) (flushFrac_nonneg net hl hs hp hf)
  · rw [flushOne_of_nonpos net hpos] at h
    cases h; exact le_refl _

theorem isJunction_not_timed {j : Nat} (h : isJunction net j = true) : net.kind j ≠ .timed := by
  unfold isJunction at h
  intro hk; rw [hk] at h; cases h

/-- a junction has no link to itself -/
theorem WF.no_self_loop {net : Net} (w : WF net) {j : Nat} (hjn : isJunction net j = true) {l : Nat} (hl : l < net.nL)
    (hs : net.src l = j) : net.dst l ≠ j := by
  intro hd
  have := w.topo l hl (by rw [hs]; exact hjn) (by rw [hd]; exact hjn)
  rw [hs, hd] at this
  omega

/-- flushing one junction preserves the grand total -/
theorem flushOne_total {pv : Nat → Rat} {x x' : Stock} {j : Nat} (w : WF net) (hj : j < net.nC)
    (hjn : isJunction net j = true)
    (hplain : net.kind j = .junction → pTot net pv j ≠ 0)
    (hres : net.kind j = .resjunction → pTot net pv j < 1 → ResUniqueAt net j)
    (h : flushOne net pv x j = some x') : grandTotal net x' = grandTotal net x := by
  by_cases hpos : x j 0 > 0
  · obtain ⟨a, ha, rfl⟩ := flushOne_pos net hpos h
    have htot := flushLinks_total net w net.nL (le_refl _) ha
    have hsum : sumTo net.nL (fun l => if net.src l = j then fval net pv j l else 0) = 1 := by
      unfold isJunction at hjn
      cases hk : net.kind j <;> simp only [hk] at hjn <;> try exact absurd hjn (by decide)
      · exact fval_sum_plain net hk (hplain hk)
      · exact fval_sum_res net hk (hres hk)
    rw [hsum, mul_one] at htot
    have haj : a j 0 = x j 0 := flushLinks_frame net net.nL ha j (fun l hl hs => w.no_self_loop hjn hl hs) 0
    have hn1 : net.nrows j = 1 := w.nrows_one j hj (isJunction_not_timed net hjn)
    have hst : ∀ c, stockTotal net (fun c r => if c = j then 0 else a c r) c
        = stockTotal net a c - (if c = j then x j 0 else 0) := by
      intro c
      by_cases hc : c = j
      · subst hc
        unfold stockTotal
        rw [hn1]
        simp [sumTo, haj]
      · unfold stockTotal
        simp [hc]
    unfold grandTotal at htot ⊢
    rw [sumTo_congr (fun c _ => hst c), sumTo_sub, sumTo_single j hj, htot]
    ring
  · rw [flushOne_of_nonpos net hpos] at h
    cases h; rfl

/-! ## `flushAll` -/

theorem flushAll_cons {pv : Nat → Rat} {x x' : Stock} {j : Nat} {js : List Nat}
    (h : flushAll net pv x (j :: js) = some x') :
    ∃ x1, flushOne net pv x j = some x1 ∧ flushAll net pv x1 js = some x' := by
  simp only [flushAll] at h
  cases h1 : flushOne net pv x j with
  | none => rw [h1] at h; cases h
  | some x1 => rw [h1] at h; exact ⟨x1, rfl, h⟩

/-- compartments outside the list that are not a destination of a link of a listed junction are not touched -/
theorem flushAll_frame_list (pv : Nat → Rat) : ∀ (js : List Nat) (x x' : Stock), flushAll net pv x js = some x' →
    ∀ c, c ∉ js → (∀ l, l < net.nL → net.src l ∈ js → net.dst l ≠ c) → ∀ r, x' c r = x c r := by
  intro js
  induction js with
  | nil => intro x x' h c _ _ r; simp only [flushAll] at h; cases h; rfl
  | cons j js ih =>
    intro x x' h c hc hl r
    obtain ⟨x1, h1, h2⟩ := flushAll_cons net h
    rw [ih x1 x' h2 c (fun e => hc (List.mem_cons_of_mem _ e)) (fun l hl' hs => hl l hl' (List.mem_cons_of_mem _ hs)) r]
    exact flushOne_frame net h1 c (fun e => hc (e ▸ List.mem_cons_self))
      (fun l hl' hs => hl l hl' (hs ▸ List.mem_cons_self)) r

theorem flushAll_noop (pv : Nat → Rat) : ∀ (js : List Nat) (x : Stock), (∀ j ∈ js, ¬ x j 0 > 0) →
    flushAll net pv x js = some x := by
  intro js
  induction js with
  | nil => intro x _; rfl
  | cons j js ih =>
    intro x h
    simp only [flushAll, flushOne_of_nonpos net (h j List.mem_cons_self), Option.bind_some]
    exact ih x (fun j hj => h j (List.mem_cons_of_mem _ hj))

theorem flushAll_total_list (w : WF net) (pv : Nat → Rat)
    (hplain : ∀ j, net.kind j = .junction → pTot net pv j ≠ 0) (hres : ResUnique net) :
    ∀ (js : List Nat) (x x' : Stock), (∀ j ∈ js, j < net.nC ∧ isJunction net j = true) →
      flushAll net pv x js = some x' → grandTotal net x' = grandTotal net x := by
  intro js
  induction js with
  | nil => intro x x' _ h; simp only [flushAll] at h; cases h; rfl
  | cons j js ih =>
    intro x x' hjs h
    obtain ⟨x1, h1, h2⟩ := flushAll_cons net h
    have hj := hjs j List.mem_cons_self
    rw [ih x1 x' (fun j hj => hjs j (List.mem_cons_of_mem _ hj)) h2]
    exact flushOne_total net w hj.1 hj.2 (hplain j) (fun hk _ => hres j hj.1 hk) h1

theorem flushAll_empties_list (pv : Nat → Rat)
    (hp : ∀ l, l < net.nL → isJunction net (net.src l) = true → 0 ≤ pOf net pv l) :
    ∀ (js : List Nat) (x x' : Stock), js.Nodup → NoBack net js → (∀ j ∈ js, isJunction net j = true) →
      (∀ j ∈ js, 0 ≤ x j 0) → flushAll net pv x js = some x' → ∀ j ∈ js, x' j 0 = 0 := by
  intro js
  induction js with
  | nil => intro _ _ _ _ _ _ _ j hj; cases hj
  | cons j0 js ih =>
    intro x x' hnd hnb hjs hx h j hj
    obtain ⟨x1, h1, h2⟩ := flushAll_cons net h
    obtain ⟨hj0, hnd'⟩ := List.nodup_cons.mp hnd
    have hjn0 := hjs j0 List.mem_cons_self
    rcases List.mem_cons.mp hj with rfl | hj'
    · rw [flushAll_frame_list net pv js x1 x' h2 j hj0
        (fun l hl hs hd => hnb.head hl hd (List.mem_cons_of_mem _ hs)) 0]
      exact flushOne_self net (hx j List.mem_cons_self) h1
    · apply ih x1 x' hnd' (hnb.tail hj0) (fun j hj => hjs j (List.mem_cons_of_mem _ hj)) _ h2 j hj'
      intro c hc
      have hcj : c ≠ j0 := fun e => hj0 (e ▸ hc)
      have := flushOne_mono net (fun l hl hs => hp l hl (by rw [hs]; exact hjn0)) h1 c hcj
        (isJunction_not_timed net (hjs c (List.mem_cons_of_mem _ hc)))
      have := hx c (List.mem_cons_of_mem _ hc)
      linarith

end Atomica.C04
