/-
  Lemmas for C12 (Covout): for the random and the nested coverage interaction the weighted sum over the table is
  monotone in every coverage for EVERY monotone table (a combination is worth at least as much as each of its
  sub-combinations), explicit values included.  (For the additive interaction above 100 % this is false.)
-/
import AtomicaProofs.Lemmas.CovoutNested

namespace Atomica.Covout

/-- pointwise order on combinations: `m ⊆ m'` -/
def SubMask (m m' : List Bool) : Prop := List.Forall₂ (fun a b => a = true → b = true) m m'

theorem SubMask.refl (m : List Bool) : SubMask m m := by
  induction m with
  | nil => exact List.Forall₂.nil
  | cons b m ih => exact List.Forall₂.cons (fun h => h) ih

/-- the table (over `n` programs) is monotone: a larger combination has a larger (or equal) value -/
def MonoT (n : Nat) (g : List Bool → Rat) : Prop := ∀ m m', m.length = n → SubMask m m' → g m ≤ g m'

theorem MonoT.cons {n : Nat} {g : List Bool → Rat} (h : MonoT (n + 1) g) (b : Bool) : MonoT n (fun m => g (b :: m)) :=
  fun _ _ hl hs => h _ _ (by simp [hl]) (List.Forall₂.cons (fun x => x) hs)

theorem MonoT.false_le_true {n : Nat} {g : List Bool → Rat} (h : MonoT (n + 1) g) (m : List Bool) (hm : m.length = n) :
    g (false :: m) ≤ g (true :: m) :=
  h _ _ (by simp [hm]) (List.Forall₂.cons (fun _ => rfl) (SubMask.refl m))

theorem SubMask.getD {m m' : List Bool} (h : SubMask m m') (i : Nat) (hi : m.getD i false = true) :
    m'.getD i false = true := by
  induction h generalizing i with
  | nil => simp at hi
  | @cons a b l l' hab _ ih =>
    cases i with
    | zero => simp only [List.getD_cons_zero] at hi ⊢; exact hab hi
    | succ i => simp only [List.getD_cons_succ] at hi ⊢; exact ih i hi

theorem mem_combos (m : List Bool) : m ∈ combos m.length := by
  induction m with
  | nil => simp [combos]
  | cons b m ih =>
    simp only [List.length_cons, combos, List.mem_append, List.mem_map]
    cases b with
    | false => left; exact ⟨m, ih, rfl⟩
    | true => right; exact ⟨m, ih, rfl⟩

/-- a finite check suffices (used for concrete tables) -/
theorem MonoT.of_combos {n : Nat} {g : List Bool → Rat}
    (h : ∀ m ∈ combos n, ∀ m' ∈ combos n, (∀ i < n, m.getD i false = true → m'.getD i false = true) → g m ≤ g m') :
    MonoT n g := by
  intro m m' hl hs
  have hl' : m'.length = n := by rw [← hs.length_eq]; exact hl
  exact h m (hl ▸ mem_combos m) m' (hl' ▸ mem_combos m') (fun i _ hi => hs.getD i hi)

/-! ### random -/

theorem sumC_randomW_cons (n : Nat) (c : Rat) (cs : List Rat) (g : List Bool → Rat) :
    sumC (n + 1) (fun m => randomW (c :: cs) m * g m)
      = (1 - c) * sumC n (fun m => randomW cs m * g (false :: m))
        + c * sumC n (fun m => randomW cs m * g (true :: m)) := by
  simp only [sumC, randomW, Bool.false_eq_true, if_false, if_true]
  rw [← sumC_mul_left, ← sumC_mul_left]
  congr 1 <;> (apply sumC_congr; intro m _; ring)

theorem random_mono_table (n : Nat) (cs cs' : List Rat) (g : List Bool → Rat)
    (h : List.Forall₂ (· ≤ ·) cs cs') (hc : ∀ c ∈ cs, 0 ≤ c ∧ c ≤ 1) (hc' : ∀ c ∈ cs', 0 ≤ c ∧ c ≤ 1)
    (hl : cs.length = n) (hg : MonoT n g) :
    sumC n (fun m => randomW cs m * g m) ≤ sumC n (fun m => randomW cs' m * g m) := by
  induction h generalizing n g with
  | nil => exact le_refl _
  | @cons c c' cs cs' hcc _ ih =>
    cases n with
    | zero => simp at hl
    | succ n =>
      have hl' : cs.length = n := by simpa using hl
      have hc0 := hc c (by simp)
      have hc0' := hc' c' (by simp)
      have hcs : ∀ c ∈ cs, 0 ≤ c ∧ c ≤ 1 := fun x hx => hc x (by simp [hx])
      have hcs' : ∀ c ∈ cs', 0 ≤ c ∧ c ≤ 1 := fun x hx => hc' x (by simp [hx])
      rw [sumC_randomW_cons, sumC_randomW_cons]
      have hf := ih n (fun m => g (false :: m)) hcs hcs' hl' (hg.cons false)
      have ht := ih n (fun m => g (true :: m)) hcs hcs' hl' (hg.cons true)
      have hft : sumC n (fun m => randomW cs' m * g (false :: m)) ≤ sumC n (fun m => randomW cs' m * g (true :: m)) :=
        sumC_le (fun m hm => mul_le_mul_of_nonneg_left (hg.false_le_true m hm) (randomW_nonneg cs' hcs' m))
      nlinarith [mul_nonneg (by linarith : 0 ≤ c' - c) (by linarith : 0 ≤ sumC n (fun m => randomW cs' m * g (true :: m)) - sumC n (fun m => randomW cs' m * g (false :: m))),
        mul_nonneg (by linarith : 0 ≤ 1 - c) (by linarith : 0 ≤ sumC n (fun m => randomW cs' m * g (false :: m)) - sumC n (fun m => randomW cs m * g (false :: m))),
        mul_nonneg hc0.1 (by linarith : 0 ≤ sumC n (fun m => randomW cs' m * g (true :: m)) - sumC n (fun m => randomW cs m * g (true :: m)))]

/-! ### nested -/

/-- `G lo hi cs g = Σ_m nestedG lo hi cs m · g m` (= `∫_lo^hi g({i : c_i > t}) dt`) -/
def G (n : Nat) (lo hi : Rat) (cs : List Rat) (g : List Bool → Rat) : Rat :=
  sumC n (fun m => nestedG lo hi cs m * g m)

theorem G_empty (n : Nat) (lo hi : Rat) (cs : List Rat) (g : List Bool → Rat) (h : hi ≤ lo) : G n lo hi cs g = 0 := by
  unfold G
  rw [← sumC_zero n]; apply sumC_congr; intro m _
  rw [nestedG_empty lo hi cs m h, zero_mul]

theorem G_mono_g (n : Nat) (lo hi : Rat) (cs : List Rat) (g g' : List Bool → Rat) (h : ∀ m, m.length = n → g m ≤ g' m) :
    G n lo hi cs g ≤ G n lo hi cs g' :=
  sumC_le (fun m hm => mul_le_mul_of_nonneg_left (h m hm) (nestedG_nonneg lo hi cs m))

theorem G_cons (n : Nat) (lo hi c : Rat) (cs : List Rat) (g : List Bool → Rat) :
    G (n + 1) lo hi (c :: cs) g
      = G n lo (min hi c) cs (fun m => g (true :: m)) + G n (max lo c) hi cs (fun m => g (false :: m)) := by
  simp only [G, sumC, nestedG, minQ_eq, maxQ_eq]; ring

theorem G_split (n : Nat) (lo mid hi : Rat) (cs : List Rat) (g : List Bool → Rat) (hl : cs.length = n)
    (h1 : lo ≤ mid) (h2 : mid ≤ hi) : G n lo hi cs g = G n lo mid cs g + G n mid hi cs g := by
  induction cs generalizing n lo mid hi g with
  | nil =>
    simp at hl; subst hl
    simp only [G, sumC, nestedG, maxQ_eq]
    rw [max_eq_right (by linarith), max_eq_right (by linarith), max_eq_right (by linarith)]; ring
  | cons c cs ih =>
    cases n with
    | zero => simp at hl
    | succ n =>
      have hl' : cs.length = n := by simpa using hl
      rw [G_cons, G_cons, G_cons]
      by_cases hcm : c ≤ mid
      · rw [min_eq_right hcm, min_eq_right (le_trans hcm h2), max_eq_left hcm,
          G_empty n mid c cs _ hcm, ih n (max lo c) mid hi _ hl' (max_le h1 hcm) h2]
        ring
      · have hmc : mid < c := not_le.mp hcm
        rw [min_eq_left hmc.le, max_eq_right hmc.le, max_eq_right (le_trans h1 hmc.le),
          G_empty n c mid cs _ hmc.le, ih n lo mid (min hi c) _ hl' h1 (le_min h2 hmc.le)]
        ring

/-- the recursion step with the coverage clipped into `[lo, hi]` -/
theorem G_cons_clip (n : Nat) (lo hi c : Rat) (cs : List Rat) (g : List Bool → Rat) (hlh : lo ≤ hi) :
    G (n + 1) lo hi (c :: cs) g
      = G n lo (max lo (min hi c)) cs (fun m => g (true :: m))
        + G n (max lo (min hi c)) hi cs (fun m => g (false :: m)) := by
  rw [G_cons]
  by_cases h1 : c < lo
  · have e1 : max lo (min hi c) = lo := max_eq_left (le_trans (min_le_right _ _) h1.le)
    rw [e1, G_empty n lo (min hi c) cs _ (le_trans (min_le_right _ _) h1.le), G_empty n lo lo cs _ (le_refl _),
      max_eq_left h1.le]
  · have h1' : lo ≤ c := not_lt.mp h1
    by_cases h2 : hi < c
    · have e1 : max lo (min hi c) = hi := by rw [min_eq_left h2.le, max_eq_right hlh]
      rw [e1, min_eq_left h2.le, G_empty n (max lo c) hi cs _ (le_trans h2.le (le_max_right _ _)),
        G_empty n hi hi cs _ (le_refl _)]
    · have h2' : c ≤ hi := not_lt.mp h2
      rw [min_eq_right h2', max_eq_right h1']

theorem nested_mono_table (n : Nat) (lo hi : Rat) (cs cs' : List Rat) (g : List Bool → Rat)
    (h : List.Forall₂ (· ≤ ·) cs cs') (hl : cs.length = n) (hlh : lo ≤ hi) (hg : MonoT n g) :
    G n lo hi cs g ≤ G n lo hi cs' g := by
  induction h generalizing n lo hi g with
  | nil => exact le_refl _
  | @cons c c' cs cs' hcc hrest ih =>
    cases n with
    | zero => simp at hl
    | succ n =>
      have hl' : cs.length = n := by simpa using hl
      have hl'' : cs'.length = n := by rw [← hrest.length_eq]; exact hl'
      rw [G_cons_clip n lo hi c cs g hlh, G_cons_clip n lo hi c' cs' g hlh]
      have hk1 : lo ≤ max lo (min hi c) := le_max_left _ _
      have hk2 : max lo (min hi c) ≤ hi := max_le hlh (min_le_left _ _)
      have hk2' : max lo (min hi c') ≤ hi := max_le hlh (min_le_left _ _)
      have hkk : max lo (min hi c) ≤ max lo (min hi c') := max_le_max (le_refl _) (min_le_min (le_refl _) hcc)
      have i1 := ih n lo (max lo (min hi c)) (fun m => g (true :: m)) hl' hk1 (hg.cons true)
      have i2 := ih n (max lo (min hi c)) hi (fun m => g (false :: m)) hl' hk2 (hg.cons false)
      have s1 := G_split n (max lo (min hi c)) (max lo (min hi c')) hi cs' (fun m => g (false :: m)) hl'' hkk hk2'
      have s2 := G_split n lo (max lo (min hi c)) (max lo (min hi c')) cs' (fun m => g (true :: m)) hl'' hk1 hkk
      have m1 := G_mono_g n (max lo (min hi c)) (max lo (min hi c')) cs' _ _ (fun m hm => hg.false_le_true m hm)
      linarith

end Atomica.Covout
