/-
  AtomicaModel.Init — compartment initialisation and characteristic values (C07; `applySaved` is used by C10).

  Mirrors `atomica/model.py`:
    * `Population.initialize_compartments`  → `rhs` (right-hand side `b`), `sysRow` (includes matrix `A`),
      `acceptCurrent` (the acceptance tests in the code's order, then `c[0] = max(0.0, x[i])`),
      `accept` (specification-shaped: the per-characteristic tolerance is also required of the *clipped* vector),
      `spread` (`TimedCompartment.__setitem__`: the value is divided equally over the rows)
    * `Characteristic.get_included_comps`   → `expand` (with multiplicity, in the code's order)
    * `Characteristic.vals` (vectorised, what a `Result` reports) → `value`, `valsWith value` (code-shaped, nested sums)
    * `Characteristic.update` (scalar, inside the loop)            → `valueStep`, `valsWith valueStep`
    * specification-shaped reported value: `reported` (sum over the *set* of member compartments ÷ denominator)
    * `parameters.py Initialization.apply` → `applySaved`

  The least-squares solver (`np.linalg.lstsq`) is NOT modelled: the candidate solution `x` is an input (oracle), and every
  theorem about `accept` holds for every `x`.
-/
import AtomicaModel.Basic
import AtomicaModel.EngineIO
namespace Atomica.Init

/-- `model_settings["tolerance"]` -/
def tol : Rat := 1 / 1000000

def absQ (r : Rat) : Rat := if r < 0 then -r else r

/-- Python `max(0.0, v)` -/
def max0 (r : Rat) : Rat := if r > 0 then r else 0

def anyBelow (n : Nat) (p : Nat → Bool) : Bool := (List.range n).any p

/-! ### The linear system `A x = b` and the acceptance tests -/

structure Sys where
  /-- number of databook quantities used for initialisation (rows) -/
  m : Nat
  /-- number of compartments solved for (every compartment that is not a source or a sink) -/
  n : Nat
  A : Nat → Nat → Rat
  b : Nat → Rat

/-- `proposed[i] = (A x)_i` -/
def row (S : Sys) (x : Nat → Rat) (i : Nat) : Rat := sumTo S.n (fun j => S.A i j * x j)

/-- `residual = np.sum((proposed - b) ** 2)` -/
def residual (S : Sys) (x : Nat → Rat) : Rat :=
  sumTo S.m (fun i => (row S x i - S.b i) * (row S x i - S.b i))

/-- the three messages of the single exception class `BadInitialization` -/
inductive Refusal | residual | negative | tolerance
  deriving DecidableEq, Repr

/-- some databook quantity is missed by more than the tolerance -/
def rowBad (S : Sys) (x : Nat → Rat) : Bool :=
  anyBelow S.m (fun i => decide (absQ (row S x i - S.b i) > tol))

/-- some compartment is more negative than the tolerance -/
def anyNeg (S : Sys) (x : Nat → Rat) : Bool := anyBelow S.n (fun j => decide (x j < -tol))

def clipped (x : Nat → Rat) : Nat → Rat := fun j => max0 (x j)

/-- The code as it is: the tests look at the unclipped solver output `x`, the stocks are `max(0, x)`. -/
def acceptCurrent (S : Sys) (x : Nat → Rat) : Except Refusal (Nat → Rat) :=
  if residual S x > tol then .error .residual
  else if anyNeg S x then .error .negative
  else if rowBad S x then .error .tolerance
  else .ok (clipped x)

/-- Specification-shaped acceptance: as `acceptCurrent`, and the numbers the run actually starts from (the clipped vector) must
    reproduce every databook quantity to the tolerance as well; otherwise the run is refused ("failed to meet tolerances"). -/
def accept (S : Sys) (x : Nat → Rat) : Except Refusal (Nat → Rat) :=
  match acceptCurrent S x with
  | .error r => .error r
  | .ok s => if rowBad S s then .error .tolerance else .ok s

/-- right-hand side of one row: `interp(t0) * y_factor[pop] * meta_y_factor`, for a fraction multiplied by the same product of
    its denominator -/
def rhs (v y ym : Rat) (den : Option (Rat × Rat × Rat)) : Rat :=
  match den with
  | none => v * y * ym
  | some (dv, dy, dym) => v * y * ym * (dv * dy * dym)

/-- `TimedCompartment.__setitem__(0, v)`: `v / nrows` in every row (an ordinary compartment is the case `nrows = 1`) -/
def spread (nrows : Nat) (v : Rat) : Nat → Rat := fun r => if r < nrows then v / (nrows : Rat) else 0

/-- `Initialization.apply`: the saved rows, zero for a compartment that was not saved -/
def applySaved (saved : Nat → Option (Nat → Rat)) : Nat → Nat → Rat := fun c r =>
  match saved c with
  | some v => v r
  | none => 0

/-! ### Characteristics: include structure, expansion, values -/

inductive Ref
  | comp (j : Nat)
  | charac (k : Nat)
  deriving DecidableEq, Repr

structure CDef where
  includes : List Ref
  denom : Option Ref
  deriving Repr

abbrev Defs := Nat → CDef

/-- expansion of a list of includes, given the expansion of characteristics (`includes += inc.get_included_comps()`) -/
def expandRefs (rec : Nat → Option (List Nat)) : List Ref → Option (List Nat)
  | [] => some []
  | .comp j :: rs => (expandRefs rec rs).map (fun l => j :: l)
  | .charac k :: rs =>
      match rec k, expandRefs rec rs with
      | some a, some b => some (a ++ b)
      | _, _ => none

/-- `Characteristic.get_included_comps` with a recursion budget: `none` when the budget is exhausted (cyclic includes; the
    code does not terminate).  The list keeps the code's order and multiplicities. -/
def expand (D : Defs) : Nat → Nat → Option (List Nat)
  | 0, _ => none
  | fuel + 1, k => expandRefs (expand D fuel) (D k).includes

/-- member compartments of a reference -/
def members (D : Defs) (fuel : Nat) : Ref → Option (List Nat)
  | .comp j => some [j]
  | .charac k => expand D fuel k

/-- Specification-shaped row of the includes matrix: the number of times compartment `j` is counted by the characteristic's
    reported value (the nested sum counts a compartment once per include path). -/
def sysRow (l : List Nat) : Nat → Rat := fun j => (l.count j : Rat)

/-- The code as it is: `A[i, comp_indices[inc.name]] = 1.0` for every included compartment — an indicator, whatever the
    multiplicity.  Equal to `sysRow` when no compartment is reached along two paths (`sysRow_current_of_nodup`). -/
def sysRowCurrent (l : List Nat) : Nat → Rat := fun j => if l.contains j then 1 else 0

/-- sum over the *set* of member compartments (what the code's indicator row computes) -/
def memberSum (nC : Nat) (x : Nat → Rat) (l : List Nat) : Rat :=
  sumTo nC (fun j => if l.contains j then x j else 0)

/-- sum over the member compartments as the reported value counts them -/
def expSum (x : Nat → Rat) (l : List Nat) : Rat := listSum (l.map x)

/-- a reported value: a number, `inf` (non-zero numerator over a non-positive denominator), or undefined (cyclic includes) -/
inductive Rep | val (r : Rat) | inf | cyclic
  deriving DecidableEq, Repr

/-- vectorised form (`Characteristic.vals`, used for reporting): numerator below the tolerance → 0 (so 0/0 = 0) -/
def value (num : Rat) (den : Option Rat) : Rep :=
  match den with
  | none => .val num
  | some d => if num < tol then .val 0 else if d > 0 then .val (num / d) else .inf

/-- scalar form (`Characteristic.update`, used inside the loop): divides whenever the denominator is positive -/
def valueStep (num : Rat) (den : Option Rat) : Rep :=
  match den with
  | none => .val num
  | some d => if d > 0 then .val (num / d) else if num < tol then .val 0 else .inf

def refVal (rec : Nat → Rep) (x : Nat → Rat) : Ref → Rep
  | .comp j => .val (x j)
  | .charac k => rec k

/-- `vals = 0; for comp in self.includes: vals += comp.vals` -/
def sumRefs (rec : Nat → Rep) (x : Nat → Rat) : List Ref → Rep
  | [] => .val 0
  | r :: rs =>
      match refVal rec x r, sumRefs rec x rs with
      | .val a, .val b => .val (a + b)
      | .cyclic, _ => .cyclic
      | _, .cyclic => .cyclic
      | _, _ => .inf

/-- divide by the denominator's value; an infinite operand gives `inf` (the exotic `finite/inf = 0`, `inf/inf = nan` of numpy
    are not distinguished: they need an included fraction with a non-positive denominator, outside `wfCharac`) -/
def applyDen (f : Rat → Option Rat → Rep) (num : Rep) (den : Option Rep) : Rep :=
  match num, den with
  | .val n, none => .val n
  | .val n, some (.val d) => f n (some d)
  | .cyclic, _ => .cyclic
  | _, some .cyclic => .cyclic
  | _, _ => .inf

/-- Code-shaped value of characteristic `k` (nested sums exactly as the code forms them: an included characteristic
    contributes its own *value*, a compartment reached along two paths is counted twice).  `f = value` is
    `Characteristic.vals`, `f = valueStep` is `Characteristic.update`. -/
def valsWith (f : Rat → Option Rat → Rep) (D : Defs) (x : Nat → Rat) : Nat → Nat → Rep
  | 0, _ => .cyclic
  | fuel + 1, k =>
      applyDen f (sumRefs (valsWith f D x fuel) x (D k).includes)
        ((D k).denom.map (refVal (valsWith f D x fuel) x))

/-- Specification-shaped reported value: sum of the member compartments (as listed by the expansion), divided by the sum of
    the denominator's member compartments. -/
def reportedWith (f : Rat → Option Rat → Rep) (D : Defs) (x : Nat → Rat) : Nat → Nat → Rep
  | 0, _ => .cyclic
  | fuel + 1, k =>
      match expand D (fuel + 1) k with
      | none => .cyclic
      | some l =>
          match (D k).denom with
          | none => .val (expSum x l)
          | some r =>
              match members D fuel r with
              | none => .cyclic
              | some ld => f (expSum x l) (some (expSum x ld))

def reported := reportedWith value
def reportedStep := reportedWith valueStep

/-- characteristic `k` and everything it includes has no denominator -/
def denFree (D : Defs) : Nat → Nat → Bool
  | 0, _ => false
  | fuel + 1, k =>
      (D k).denom.isNone &&
      (D k).includes.all (fun r => match r with | .comp _ => true | .charac k' => denFree D fuel k')

def allBelowList (nC : Nat) (l : List Nat) : Bool := l.all (fun j => decide (j < nC))

/-- Well-formedness of characteristic `k` (decidable; evaluated by the driver on every extracted structure):
    includes are acyclic, every member is a compartment index, included characteristics carry no denominator, and the
    denominator (if any) is a compartment or a denominator-free characteristic with the same properties. -/
def wfCharac (D : Defs) (nC fuel k : Nat) : Bool :=
  (match expand D (fuel + 1) k with
   | some l => allBelowList nC l
   | none => false) &&
  (D k).includes.all (fun r => match r with | .comp _ => true | .charac k' => denFree D fuel k') &&
  (match (D k).denom with
   | none => true
   | some (.comp j) => decide (j < nC)
   | some (.charac kd) =>
       denFree D fuel kd && (match expand D fuel kd with | some ld => allBelowList nC ld | none => false))

/-- no compartment is reached along two include paths (then the code's indicator row is the specification's row) -/
def nodupCharac (D : Defs) (fuel k : Nat) : Bool :=
  match expand D (fuel + 1) k with
  | some l => decide l.Nodup
  | none => false

/-! ### Driver -/
open Atomica.Engine (P tok pNat pRat pMany runP)

def showOutcome (nrows : Nat → Nat) (n : Nat) : Except Refusal (Nat → Rat) → String
  | .error .residual => "refuse residual"
  | .error .negative => "refuse negative"
  | .error .tolerance => "refuse tolerance"
  | .ok s => "ok " ++ " ".intercalate
      ((List.range n).flatMap (fun c => (List.range (nrows c)).map (fun r => showRat (spread (nrows c) (s c) r))))

/-- `init-accept m n nrows[n] A[m*n] b[m] x[n]` → `<spec outcome> | <current outcome>` -/
def handleAccept (args : List String) : Option String :=
  runP (do
    let m ← pNat; let n ← pNat
    let nrows ← pMany n pNat
    let a ← pMany (m * n) pRat
    let b ← pMany m pRat
    let x ← pMany n pRat
    let S : Sys := { m, n, A := fun i j => a.getD (i * n + j) 0, b := fun i => b.getD i 0 }
    let xf := fun j => x.getD j 0
    let nr := fun c => nrows.getD c 1
    pure (showOutcome nr n (accept S xf) ++ " | " ++ showOutcome nr n (acceptCurrent S xf))) args

/-- `init-rhs v y ym` or `init-rhs v y ym dv dy dym` → `b_i` -/
def handleRhs : List String → Option String
  | [v, y, ym] => do
      let v ← parseRat? v; let y ← parseRat? y; let ym ← parseRat? ym
      some (showRat (rhs v y ym none))
  | [v, y, ym, dv, dy, dym] => do
      let v ← parseRat? v; let y ← parseRat? y; let ym ← parseRat? ym
      let dv ← parseRat? dv; let dy ← parseRat? dy; let dym ← parseRat? dym
      some (showRat (rhs v y ym (some (dv, dy, dym))))
  | _ => none

def pRef : P Ref := do
  let t ← tok
  match t.toList with
  | 'c' :: rest => match (String.ofList rest).toNat? with | some j => pure (.comp j) | none => failure
  | 'k' :: rest => match (String.ofList rest).toNat? with | some j => pure (.charac j) | none => failure
  | _ => failure

def pDef : P CDef := do
  let ninc ← pNat
  let incs ← pMany ninc pRef
  let t ← tok
  match t with
  | "-" => pure { includes := incs.toList, denom := none }
  | _ =>
    match t.toList with
    | 'c' :: rest => match (String.ofList rest).toNat? with
        | some j => pure { includes := incs.toList, denom := some (.comp j) } | none => failure
    | 'k' :: rest => match (String.ofList rest).toNat? with
        | some j => pure { includes := incs.toList, denom := some (.charac j) } | none => failure
    | _ => failure

def showRep : Rep → String
  | .val r => showRat r
  | .inf => "inf"
  | .cyclic => "cyclic"

/-- `charac nC nK defs[nK] T stocks[T*nC]` →
    `wf+nodup flags (two digits per k) | expansion of k (K segments) | reported (K segments of T values) | reportedStep | vals (code-shaped) | update (code-shaped)` -/
def handleCharac (args : List String) : Option String :=
  runP (do
    let nC ← pNat; let nK ← pNat
    let defs ← pMany nK pDef
    let T ← pNat
    let st ← pMany (T * nC) pRat
    let D : Defs := fun k => defs.getD k { includes := [], denom := none }
    let fuel := nK + 1
    let ks := List.range nK
    let ts := List.range T
    let x := fun (t : Nat) (j : Nat) => st.getD (t * nC + j) 0
    let seg := fun (g : Nat → Nat → Rep) =>
      ks.map (fun k => " ".intercalate (ts.map (fun t => showRep (g t k))))
    let wf := " ".intercalate (ks.map (fun k => (if wfCharac D nC fuel k then "1" else "0") ++ (if nodupCharac D fuel k then "1" else "0")))
    let ex := ks.map (fun k => match expand D (fuel + 1) k with
      | none => "cyclic"
      | some l => " ".intercalate (l.map toString))
    let segs := [wf] ++ ex
      ++ seg (fun t k => reported D (x t) (fuel + 1) k)
      ++ seg (fun t k => reportedStep D (x t) (fuel + 1) k)
      ++ seg (fun t k => valsWith value D (x t) (fuel + 1) k)
      ++ seg (fun t k => valsWith valueStep D (x t) (fuel + 1) k)
    pure (" | ".intercalate segs)) args

/-- `init-saved nC nrows[nC] present[nC] rows…` → the stock rows `applySaved` produces (absent compartments: zeros) -/
def handleSaved (args : List String) : Option String :=
  runP (do
    let nC ← pNat
    let nrows ← pMany nC pNat
    let present ← pMany nC pNat
    let mut rows : Array (Array Rat) := Array.mkEmpty nC
    for c in [0:nC] do
      if present.getD c 0 = 1 then
        rows := rows.push (← pMany (nrows.getD c 1) pRat)
      else
        rows := rows.push #[]
    let saved : Nat → Option (Nat → Rat) := fun c =>
      if present.getD c 0 = 1 then some (fun r => (rows.getD c #[]).getD r 0) else none
    let st := applySaved saved
    pure (" ".intercalate ((List.range nC).flatMap (fun c => (List.range (nrows.getD c 1)).map (fun r => showRat (st c r)))))) args

end Atomica.Init
