/-
  AtomicaModel.Params — the value of one parameter in one population at one time index (C06, parameter-pipeline half; C13).

  Mirrors `atomica/model.py`:
    * `Model.build` (parameter initialisation loop): databook value `interpolate · y_factor · meta_y_factor`, or the
      vectorised function for *precompute* parameters, then `constrain()`
    * `Model.update_pars` for the names in `_exec_order['dynamic_pars']`: `Parameter.update(ti)` (dynamic function
      parameters, skipped inside the `skip_function` window) → program overwrite with unit conversion while
      `start_year ≤ t ≤ stop_year` → population aggregation → `constrain(ti)`
    * `Model.process` tail: `update(); constrain()` for *postcompute* (output-only) function parameters
    * the program side of one step (`Model._update_program_cache`, first half of `update_pars`): number eligible = sum of the
      current sizes of the cached target compartments, coverage from `Program.get_prop_covered` or the cached overwrite
      (`Atomica.Coverage`), outcome from `Covout.get_outcome` (`Atomica.Covout`)
    * `Result.get_coverage` / `Result.get_alloc`: the same quantities recomputed from the finished arrays

  Everything that is not decision logic is an INPUT (layer L1): the interpolated data value (checked by C06Series), the value
  `scale_factor · f(deps)` of the parsed parameter function on the same-step final values of its dependencies, the aggregated
  value of a population aggregation, `exp`.  `none : V` stands for NaN.

  Specification-shaped vs current code: `evalOne` lets the databook/scenario value stand inside the skip window for every
  function parameter (the documented behaviour of parameter scenarios).  The code does that for dynamic and postcompute
  parameters, but a *precompute* parameter keeps the preallocated NaN there: `evalOneCurrent`.
-/
import AtomicaModel.Basic
import AtomicaModel.Coverage
import AtomicaModel.Covout
namespace Atomica.Params

/-- a stored float; `none` = NaN -/
abbrev V := Option Rat

/-! ### limits (`Parameter.limits`, `Parameter.constrain`) -/

/-- `[lo, hi]`; `none` on a side = ∓inf (`limits = None` is both `none`) -/
structure Limits where
  lo : Option Rat
  hi : Option Rat
  deriving Repr

/-- `if v < lo: v = lo; if v > hi: v = hi` (scalar form) = `np.clip(v, lo, hi)` (vector form) -/
def clipQ (lim : Limits) (x : Rat) : Rat :=
  let y := match lim.lo with
    | some l => clipLo l x
    | none => x
  match lim.hi with
  | some h => clipHi h y
  | none => y

/-- NaN stays NaN (both comparisons are False; `np.clip` propagates NaN) -/
def clipV (lim : Limits) (v : V) : V := v.map (clipQ lim)

/-! ### inputs of one (parameter, population, time index) -/

/-- `par.units` as far as the program overwrite cares: `number`, `probability`/`rate`, anything else -/
inductive Units | number | perTime | other
  deriving DecidableEq, Repr

/-- when the parameter function is evaluated: during integration (`_is_dynamic`), vectorised before (`_precompute`), or
    vectorised after the run (neither flag: output-only parameters) -/
inductive Mode | dynamic | precompute | postcompute
  deriving DecidableEq, Repr

/-- closed time window `[lo, hi]`; `hi = none` is `+inf` -/
structure Window where
  lo : Rat
  hi : Option Rat
  deriving Repr

def Window.has (w : Window) (t : Rat) : Bool :=
  decide (w.lo ≤ t) && (match w.hi with
    | none => true
    | some h => decide (t ≤ h))

def inWin : Option Window → Rat → Bool
  | none, _ => false
  | some w, t => w.has t

structure Inp where
  /-- `self.t[ti]` -/
  t : Rat
  dt : Rat
  /-- `cascade_par.interpolate(t) * y_factor * meta_y_factor` when the parset has values for the population, else NaN -/
  data : V
  /-- `fcn_str` is set -/
  hasFcn : Bool
  /-- `scale_factor * _fcn(**dep_vals)` on the same-step final values of the dependencies (oracle) -/
  fcn : V
  mode : Mode
  /-- population aggregation (`SRC/TGT_POP_AVG/SUM`): `some (scale_factor * aggregated value)` (oracle) -/
  agg : Option V
  /-- `skip_function` -/
  skip : Option Window
  /-- `programs_active` → `[start_year, stop_year]` -/
  active : Option Window
  /-- the parameter's name is in `_exec_order['dynamic_pars']` -/
  inLoop : Bool
  /-- `prog_vals[(par, pop)]` of this step; `none` = no covout for this (parameter, population) -/
  outcome : Option Rat
  units : Units
  /-- `par.source_popsize(ti)`: current size of the source compartments of the parameter's links -/
  popsize : Rat
  lim : Limits
  deriving Repr

/-- `cascade_par.interpolate(tvec, pop) * scale_factor` with `scale_factor = meta_y_factor * y_factor[pop]` -/
def dataValue (interp : V) (yPop yMeta : Rat) : V := interp.map (fun v => v * (yMeta * yPop))

/-- `Parameter.update` does something for this parameter (it returns at once for aggregations) -/
def ownFcn (i : Inp) : Bool := i.hasFcn && i.agg.isNone

def skipped (i : Inp) : Bool := inWin i.skip i.t

/-- `do_program_overwrite and (par.name, par.pop.name) in prog_vals`, for a name the loop visits -/
def progApplies (i : Inp) : Bool := i.inLoop && inWin i.active i.t && i.outcome.isSome

/-- unit conversion of a program outcome: number `· source_popsize/dt`, probability/rate `/dt`, others unchanged -/
def convert (i : Inp) (o : Rat) : V :=
  match i.units with
  | .number => divQ (o * i.popsize) i.dt
  | .perTime => divQ o i.dt
  | .other => some o

/-- value before the program stage: databook value, replaced by the function (build time for precompute, in the loop for
    dynamic parameters) outside the skip window -/
def base (i : Inp) : V :=
  if ownFcn i && i.mode != .postcompute then (if skipped i then i.data else i.fcn) else i.data

def afterProg (i : Inp) : V :=
  if progApplies i then i.outcome.bind (convert i) else base i

/-- the aggregation is written after the program overwrite (and skipped inside the skip window) -/
def afterAgg (i : Inp) : V :=
  match i.agg with
  | some a => if skipped i then afterProg i else a
  | none => afterProg i

/-- output-only function parameters are evaluated once more after the run -/
def afterPost (i : Inp) : V :=
  if ownFcn i && i.mode == .postcompute && !skipped i then i.fcn else afterAgg i

/-- final stored value `par.vals[ti]` -/
def evalOne (i : Inp) : V := clipV i.lim (afterPost i)

/-! #### the current code: a precompute parameter is NaN inside its skip window
    (`Model.build`: `if par.fcn_str and par._precompute: par.update()  elif has_values: insert data`) -/

def baseCurrent (i : Inp) : V :=
  if ownFcn i && i.mode != .postcompute then
    (if skipped i then (if i.mode == .precompute then none else i.data) else i.fcn)
  else i.data

def evalOneCurrent (i : Inp) : V :=
  clipV i.lim
    (if ownFcn i && i.mode == .postcompute && !skipped i then i.fcn
     else
      let ap := if progApplies i then i.outcome.bind (convert i) else baseCurrent i
      match i.agg with
      | some a => if skipped i then ap else a
      | none => ap)

/-! ### one pass over the execution order (`update_pars` loop / build loop / postcompute loop) -/

abbrev Env := Nat → V

def setEnv (e : Env) (p : Nat) (v : V) : Env := fun q => if q = p then v else e q

/-- parameters are visited in `order`; `rule p` computes the stored value of `p` from the values stored so far -/
def evalStep (rule : Nat → Env → V) : List Nat → Env → Env
  | [], e => e
  | p :: ps, e => evalStep rule ps (setEnv e p (rule p e))

/-- `order` visits nobody twice and nobody before one of its (visited) dependencies -/
def depsBefore (deps : Nat → List Nat) : List Nat → Bool
  | [] => true
  | p :: ps => !(ps.contains p) && (deps p).all (fun d => !((p :: ps).contains d)) && depsBefore deps ps

/-- the rule of a function parameter: `evalOne` with the function value computed from the environment -/
def ruleOf (inp : Nat → Inp) (f : Nat → Env → V) (p : Nat) (e : Env) : V :=
  evalOne { inp p with fcn := f p e }

/-! ### the program side of one step -/

/-- one program at one step: program-book values and instruction overwrites at `t[ti]` (stepped interpolation,
    `Atomica.Coverage.Series.at`), and the targeted compartments -/
structure Target where
  isJunction : Bool
  /-- stored size `comp.vals[ti]` (sum over the keyring for a timed compartment; 0 for a junction) -/
  size : Rat
  /-- `comp.outflow[ti]` (only read for junctions) -/
  outflow : Rat
  deriving Repr

structure ProgStep where
  book : Coverage.ProgAt
  instr : Coverage.InstrAt
  targets : List Target
  deriving Repr

/-- `n = Σ comp[ti]` over `_program_cache['comps'][prog]` -/
def eligUsed (p : ProgStep) : Rat := listSum (p.targets.map (·.size))

/-- `_program_cache['capacities'][prog][ti]` -/
def capUsed (dt : Rat) (p : ProgStep) : V := Coverage.capacityAt p.instr p.book dt

/-- the coverage handed to `get_outcomes`: the cached overwrite (`·dt` for one-off programs, `min 1`) or
    `get_prop_covered(t, capacity, n)` -/
def covUsed (E : Rat → Rat) (dt : Rat) (p : ProgStep) : V :=
  match p.instr.coverage with
  | some c => some (Coverage.minQ (if p.book.oneOff then c * dt else c) 1)
  | none => (capUsed dt p).bind (fun cap => Coverage.propCovered E cap (eligUsed p) p.book.sat)

/-- `Result.get_coverage('eligible')`: junction targets contribute their outflow -/
def eligReported (p : ProgStep) : Rat :=
  listSum (p.targets.map (fun t => if t.isJunction then t.outflow else t.size))

/-- `Result.get_coverage('fraction')` -/
def covReported (E : Rat → Rat) (dt : Rat) (p : ProgStep) : V :=
  Coverage.effective E p.instr p.book dt (eligReported p)

/-- `Result.get_coverage('capacity')` in people/year: one-off capacities are divided by dt -/
def capReported (dt : Rat) (p : ProgStep) : V :=
  (Coverage.capacityAt p.instr p.book dt).bind (fun c => if p.book.oneOff then divQ c dt else some c)

/-- `Result.get_alloc` = `ProgramSet.get_alloc` with the run's instructions -/
def allocReported (p : ProgStep) : Rat := Coverage.allocAt p.instr p.book

/-- `Result.get_coverage('number')`: fraction · eligible, per year for one-off programs -/
def numReported (E : Rat → Rat) (dt : Rat) (p : ProgStep) : V :=
  (covReported E dt p).bind (fun c => if p.book.oneOff then divQ (c * eligReported p) dt else some (c * eligReported p))

/-- a `Covout`: interaction, baseline, `(program index, single-program outcome)` in dict order, explicit combination values -/
structure CovoutSpec where
  inter : Covout.Interaction
  baseline : Rat
  progs : List (Nat × Rat)
  ex : List (Nat × Rat)

def mkProgs : Nat → List (Rat × Rat) → List Covout.Prog
  | _, [] => []
  | k, (o, c) :: rest => { id := k, out := o, cov := c } :: mkProgs (k + 1) rest

/-- `covout.get_outcome(prop_coverage)` given the coverage of every program of the step (NaN coverage ↦ NaN) -/
def outcomeFrom (covs : List V) (c : CovoutSpec) : V :=
  (c.progs.mapM (fun (ko : Nat × Rat) => ((covs[ko.1]?).bind id).map (fun cv => (ko.2, cv)))).map
    (fun oc => Covout.outcome c.inter c.baseline (mkProgs 0 oc) c.ex)

/-- the whole chain of one step for one targeted (parameter, population): coverages → outcome → pipeline.
    `Es k` is `exp` as seen by program `k`. -/
def stepValue (Es : Nat → Rat → Rat) (dt : Rat) (ps : List ProgStep) (c : CovoutSpec) (i : Inp) : V :=
  (outcomeFrom (ps.mapIdx (fun k p => covUsed (Es k) dt p)) c).bind (fun o => evalOne { i with outcome := some o })

/-! ### driver -/

open Coverage (parseBool? parseOptRat? splitBar)

def parseV? (s : String) : Option V :=
  if s = "nan" then some none else (parseRat? s).map some

def showV : V → String := showOptRat

def parseUnits? : String → Option Units
  | "n" => some .number
  | "f" => some .perTime
  | "o" => some .other
  | _ => none

def parseMode? : String → Option Mode
  | "d" => some .dynamic
  | "p" => some .precompute
  | "o" => some .postcompute
  | _ => none

/-- `none` | `<lo> <hi|inf>` -/
def parseWindow? : List String → Option (Option Window × List String)
  | "none" :: rest => some (none, rest)
  | a :: b :: rest => do
      let lo ← parseRat? a
      let hi ← if b = "inf" then some none else (parseRat? b).map some
      some (some ⟨lo, hi⟩, rest)
  | _ => none

/-- `noagg` | `<value|nan>` -/
def parseAgg? (s : String) : Option (Option V) :=
  if s = "noagg" then some none else (parseV? s).map some

/-- the `Inp` fields in order:
    `<t> <dt> <data|nan> <hasFcn> <fcn|nan> <mode d|p|o> <noagg|value|nan> <skip: none | lo hi|inf> <active: none | lo hi|inf>
     <inLoop> <units n|f|o> <popsize> <lo|none> <hi|none>` -/
def parseInp? (toks : List String) (outcome : Option Rat) : Option Inp :=
  match toks with
  | ts :: dts :: das :: hf :: fs :: ms :: ags :: rest => do
      let t ← parseRat? ts
      let dt ← parseRat? dts
      let data ← parseV? das
      let hasFcn ← parseBool? hf
      let fcn ← parseV? fs
      let mode ← parseMode? ms
      let agg ← parseAgg? ags
      let (skip, rest1) ← parseWindow? rest
      let (active, rest2) ← parseWindow? rest1
      match rest2 with
      | [il, us, pss, los, his] => do
          let inLoop ← parseBool? il
          let units ← parseUnits? us
          let popsize ← parseRat? pss
          let lo ← parseOptRat? los
          let hi ← parseOptRat? his
          some { t, dt, data, hasFcn, fcn, mode, agg, skip, active, inLoop, outcome, units, popsize, lim := ⟨lo, hi⟩ }
      | _ => none
  | _ => none

/-- `par-eval <spec|cur> <Inp fields…> | none`                       → value (no covout for this parameter/population)
    `par-eval <spec|cur> <Inp fields…> | lit <outcome>`               → value, outcome given literally
    `par-eval <spec|cur> <Inp fields…> | <covout request without kind and 'val'>`
        i.e. `<interaction> <baseline> <n> (<outcome_i> <coverage_i>)* <k> (<bitset_j> <value_j>)*`
                                                                       → `<outcome> <value>` (outcome computed by `Covout.outcome`)
    A NaN coverage is sent as `nan`: reply `nan nan` (outside the modelled domain). -/
def handleEval (args : List String) : Option String :=
  match splitBar args with
  | [which :: inpToks, tail] =>
      let ev := fun (i : Inp) => if which = "cur" then evalOneCurrent i else evalOne i
      match tail with
      | ["none"] => do
          let i ← parseInp? inpToks none
          some (showV (ev i))
      | ["lit", os] => do
          let o ← parseRat? os
          let i ← parseInp? inpToks (some o)
          some (showV (ev i))
      | it :: bs :: ns :: rest =>
          if rest.contains "nan" then some "nan nan" else do
          let inter ← Covout.parseInter? it
          let b ← parseRat? bs
          let n ← ns.toNat?
          let (ps, rest') ← Covout.parseProgs b n 0 rest
          match rest' with
          | [] => none
          | ks :: exs => do
              let k ← ks.toNat?
              let ex ← Covout.parseEx k exs
              if ps.any (fun p => p.cov < 0 || 1 < p.cov) then some "err range" else
              let o := Covout.outcome inter b ps ex
              let i ← parseInp? inpToks (some o)
              some (showRat o ++ " " ++ showV (ev i))
      | _ => none
  | _ => none

def parseTargets? : Nat → List String → Option (List Target)
  | 0, [] => some []
  | n + 1, j :: s :: o :: rest => do
      let isJ ← parseBool? j
      let sz ← parseRat? s
      let ofl ← parseRat? o
      let r ← parseTargets? n rest
      some (⟨isJ, sz, ofl⟩ :: r)
  | _, _ => none

/-- `prog-cov <dt> <oneoff> <peryear> <spend> <unitcost> <capcon|none> <sat|none> <allocOv|none> <capOv|none> <covOv|none>
              <e> <k> (<isJunction> <size> <outflow>)^k`
    → `<allocReported> <capUsed> <eligUsed> <covUsed> <capReported> <eligReported> <covReported> <numReported>`
    (`e` = the double `exp(-2·cap/elig/sat)` the implementation got, used for both the in-loop and the reported coverage) -/
def handleProgCov : List String → Option String
  | dts :: oo :: py :: sp :: uc :: cc :: sa :: ao :: co :: vo :: es :: ks :: rest => do
      let dt ← parseRat? dts
      let oneOff ← parseBool? oo
      let perYear ← parseBool? py
      let spend ← parseRat? sp
      let unitCost ← parseRat? uc
      let capCon ← parseOptRat? cc
      let sat ← parseOptRat? sa
      let allocOv ← parseOptRat? ao
      let capOv ← parseOptRat? co
      let covOv ← parseOptRat? vo
      let e ← parseRat? es
      let k ← ks.toNat?
      let targets ← parseTargets? k rest
      if e < 0 then some "err e" else
      let p : ProgStep := ⟨⟨spend, unitCost, oneOff, capCon, perYear, sat⟩, ⟨allocOv, capOv, covOv⟩, targets⟩
      let E := fun (_ : Rat) => e
      some (" ".intercalate [showRat (allocReported p), showV (capUsed dt p), showRat (eligUsed p), showV (covUsed E dt p),
                             showV (capReported dt p), showRat (eligReported p), showV (covReported E dt p), showV (numReported E dt p)])
  | _ => none

def parseNats? (l : List String) : Option (List Nat) := l.mapM (·.toNat?)

/-- split `k x1 … xk rest` -/
def takeCounted? : List String → Option (List String × List String)
  | ks :: rest => do
      let k ← ks.toNat?
      if rest.length < k then none else some (rest.take k, rest.drop k)
  | [] => none

def parseDepLists? : Nat → List String → Option (List (List Nat))
  | 0, [] => some []
  | n + 1, toks => do
      let (d, rest) ← takeCounted? toks
      let dn ← parseNats? d
      let r ← parseDepLists? n rest
      some (dn :: r)
  | _, _ => none

/-- `par-order <k> <order_1 … order_k> <n> (<m_i> <dep_i1 … dep_im>)^n` → `1` if `depsBefore` else `0`
    (node ids `< n`; node `i` has the dependency list `i`) -/
def handleOrder (args : List String) : Option String := do
  let (ord, rest) ← takeCounted? args
  let order ← parseNats? ord
  match rest with
  | ns :: rest' => do
      let n ← ns.toNat?
      let deps ← parseDepLists? n rest'
      some (if depsBefore (fun p => deps.getD p []) order then "1" else "0")
  | [] => none

end Atomica.Params
