/-
  AtomicaModel.Protocol.Objective — what `optimize` and `calibrate` evaluate (C15).

  Optimisation (optimization.py): `Optimization.compute_objective(model, baselines)` adds `m.eval(model, baseline)
  = m.weight * m.get_objective_val(model, baseline)` over the measurables.  `Measurable.get_objective_val` builds a
  boolean time filter (`model.t == t` for a single year, `t0 <= model.t < t1` for a range), and either sums a
  program's spending over the filter or loops over the populations, skipping those not selected (or, without a
  selection, those where the quantity is not defined) and adds `np.sum(var.vals[filter])` for each variable
  (`/ var.dt` for links).  The `AtMost/AtLeast/IncreaseBy/DecreaseBy` measurables map that number to `0.0 / np.inf`.

  Two definitions are given: `measure`/`objective` follow the Python loops (accumulators, mask), `Spec.*` is the
  documented sum written with `filter`/`map`/`listSum`.  `AtomicaProofs.Properties.C15.objective_is_sum` proves
  them equal.  `popLoopCurrent` is the loop as it is written today (`pop not in self.pop_names` compares a
  `Population` object with strings, so every population is skipped when a selection is given).

  Calibration (calibration.py `_calculate_objective`): `Σ_q weight_q · Σ_{i ∈ idx} metric(obs_i, fit_i)` where
  `fit = np.interp(data_t, model_t, model_vals, left=nan, right=nan)` and `idx` drops NaNs on either side.
-/
import AtomicaModel.Basic
import AtomicaModel.Protocol.Asd
namespace Atomica.Protocol.Objective
open Atomica.Protocol

inductive Window where
  | at (y : Rat)
  | range (y0 : Rat) (y1 : Option Rat)   -- `none` = `np.inf`
  deriving Repr

def Window.mem : Window → Rat → Bool
  | .at y, t => decide (t = y)
  | .range a b, t => decide (a ≤ t) && (match b with | none => true | some b => decide (t < b))

structure Var where
  isLink : Bool
  vals : List Rat
  deriving Repr

/-- what `pop.get_variable(name)` gives for one population: `none` = `NotFoundError` -/
structure Pop where
  name : String
  vars : Option (List Var)
  deriving Repr

inductive Source where
  | prog (alloc : List Rat)     -- `progset.get_alloc(model.t, instructions)[name]`
  | vars (pops : List Pop)
  deriving Repr

inductive Kind where
  | plain
  | atMost (thr : Rat)
  | atLeast (thr : Rat)
  | incFrac (inc base : Rat)
  | incAbs (inc base : Rat)
  | decFrac (dec base : Rat)
  | decAbs (dec base : Rat)
  deriving Repr

structure Measurable where
  kind : Kind
  weight : Rat
  win : Window
  sel : Option (List String)    -- `pop_names`; `none` = all populations where the quantity exists
  src : Source
  deriving Repr

inductive Err where
  | notFound      -- quantity missing in an explicitly selected population (`NotFoundError`)
  | notMatched    -- `"%s" not found in any populations`
  deriving Repr, DecidableEq

/-! ### implementation-shaped -/

/-- `np.sum(vals[t_filter])` -/
def sumMasked : List Bool → List Rat → Rat
  | true :: m, v :: vs => v + sumMasked m vs
  | false :: m, _ :: vs => sumMasked m vs
  | _, _ => 0

/-- `np.sum(vals[t_filter] / dt)` -/
def sumMaskedDiv (dt : Rat) : List Bool → List Rat → Rat
  | true :: m, v :: vs => v / dt + sumMaskedDiv dt m vs
  | false :: m, _ :: vs => sumMaskedDiv dt m vs
  | _, _ => 0

/-- `for var in vars: val += …` -/
def varLoop (mask : List Bool) (dt : Rat) : List Var → Rat → Rat
  | [], val => val
  | v :: vs, val => varLoop mask dt vs (val + (if v.isLink then sumMaskedDiv dt mask v.vals else sumMasked mask v.vals))

/-- `for pop in model.pops: …` with accumulator `(val, matched)`; selection by population *name* -/
def popLoop (sel : Option (List String)) (mask : List Bool) (dt : Rat) : List Pop → Rat × Bool → Except Err (Rat × Bool)
  | [], acc => .ok acc
  | p :: ps, (val, matched) =>
      match sel with
      | none =>
          match p.vars with
          | none => popLoop sel mask dt ps (val, matched)
          | some vs => popLoop sel mask dt ps (varLoop mask dt vs val, true)
      | some names =>
          if !(names.contains p.name) then popLoop sel mask dt ps (val, matched) else
          match p.vars with
          | none => .error .notFound
          | some vs => popLoop sel mask dt ps (varLoop mask dt vs val, true)

/-- the loop as written today: `elif pop not in self.pop_names: continue` is always taken -/
def popLoopCurrent (sel : Option (List String)) (mask : List Bool) (dt : Rat) : List Pop → Rat × Bool → Except Err (Rat × Bool)
  | [], acc => .ok acc
  | p :: ps, (val, matched) =>
      match sel with
      | none =>
          match p.vars with
          | none => popLoopCurrent sel mask dt ps (val, matched)
          | some vs => popLoopCurrent sel mask dt ps (varLoop mask dt vs val, true)
      | some _ => popLoopCurrent sel mask dt ps (val, matched)

/-- `Measurable.get_objective_val` of the base class -/
def measure (t : List Rat) (dt : Rat) (m : Measurable) : Except Err Rat :=
  let mask := t.map m.win.mem
  match m.src with
  | .prog alloc => .ok (sumMasked mask alloc)
  | .vars pops =>
      match popLoop m.sel mask dt pops (0, false) with
      | .error e => .error e
      | .ok (val, matched) => if matched then .ok val else .error .notMatched

def measureCurrent (t : List Rat) (dt : Rat) (m : Measurable) : Except Err Rat :=
  let mask := t.map m.win.mem
  match m.src with
  | .prog alloc => .ok (sumMasked mask alloc)
  | .vars pops =>
      match popLoopCurrent m.sel mask dt pops (0, false) with
      | .error e => .error e
      | .ok (val, matched) => if matched then .ok val else .error .notMatched

/-- float `val / base` compared with a finite number, with IEEE behaviour at `base = 0` (`±inf`, `nan`) -/
def quotLt (val base c : Rat) : Bool :=
  if base = 0 then decide (val < 0) else decide (val / base < c)
def quotGt (val base c : Rat) : Bool :=
  if base = 0 then decide (val > 0) else decide (val / base > c)

/-- the `get_objective_val` overrides: a number for the plain measurable, `0 / ∞` for the hard targets -/
def hard : Kind → Rat → Obj
  | .plain, v => .fin v
  | .atMost thr, v => if v > thr then .inf else .fin 0
  | .atLeast thr, v => if v < thr then .inf else .fin 0
  | .incFrac inc base, v => if quotLt v base (1 + inc) then .inf else .fin 0
  | .incAbs inc base, v => if v < base + inc then .inf else .fin 0
  | .decFrac dec base, v => if quotGt v base (1 - dec) then .inf else .fin 0
  | .decAbs dec base, v => if v > base - dec then .inf else .fin 0

def Kind.isHard : Kind → Bool
  | .plain => false
  | _ => true

/-- `m.eval(model, baseline)` -/
def evalM (t : List Rat) (dt : Rat) (m : Measurable) : Except Err Obj :=
  match measure t dt m with
  | .error e => .error e
  | .ok v => .ok (Obj.scale m.weight (hard m.kind v))

/-- `compute_objective`: `objective = 0.0; for m in measurables: objective += m.eval(…)` -/
def objLoop (t : List Rat) (dt : Rat) : List Measurable → Obj → Except Err Obj
  | [], acc => .ok acc
  | m :: ms, acc =>
      match evalM t dt m with
      | .error e => .error e
      | .ok v => objLoop t dt ms (Obj.add acc v)

def objective (t : List Rat) (dt : Rat) (ms : List Measurable) : Except Err Obj := objLoop t dt ms (.fin 0)

/-! ### the documented sum -/
namespace Spec

/-- `Σ_{i : t_i ∈ window} v_i` -/
def windowSum (w : Window) (t vals : List Rat) : Rat :=
  listSum (((t.zip vals).filter (fun p => w.mem p.1)).map (·.2))

/-- links are annualised -/
def varSum (w : Window) (t : List Rat) (dt : Rat) (v : Var) : Rat :=
  if v.isLink then windowSum w t v.vals / dt else windowSum w t v.vals

def selected (sel : Option (List String)) (pops : List Pop) : List Pop :=
  match sel with
  | none => pops.filter (fun p => p.vars.isSome)
  | some names => pops.filter (fun p => names.contains p.name)

def popSum (w : Window) (t : List Rat) (dt : Rat) (p : Pop) : Rat :=
  listSum ((p.vars.getD []).map (varSum w t dt))

/-- `Σ_{pop ∈ requested} Σ_{var} Σ_{t ∈ window} value` -/
def measure (t : List Rat) (dt : Rat) (m : Measurable) : Except Err Rat :=
  match m.src with
  | .prog alloc => .ok (windowSum m.win t alloc)
  | .vars pops =>
      let s := selected m.sel pops
      if s.any (fun p => p.vars.isNone) then .error .notFound
      else if s.isEmpty then .error .notMatched
      else .ok (listSum (s.map (popSum m.win t dt)))

def term (t : List Rat) (dt : Rat) (m : Measurable) : Except Err Obj :=
  match measure t dt m with
  | .error e => .error e
  | .ok v => .ok (Obj.scale m.weight (hard m.kind v))

def sumObj : List Obj → Obj
  | [] => .fin 0
  | a :: as => Obj.add a (sumObj as)

/-- the weighted terms of all measurables (first error wins) -/
def terms (t : List Rat) (dt : Rat) : List Measurable → Except Err (List Obj)
  | [] => .ok []
  | m :: ms =>
      match term t dt m with
      | .error e => .error e
      | .ok v =>
          match terms t dt ms with
          | .error e => .error e
          | .ok vs => .ok (v :: vs)

/-- `Σ_m weight_m · value_m` -/
def objective (t : List Rat) (dt : Rat) (ms : List Measurable) : Except Err Obj :=
  match terms t dt ms with
  | .error e => .error e
  | .ok vs => .ok (sumObj vs)

end Spec

/-! ### calibration objective -/

inductive Metric where
  | fractional | wape
  deriving Repr, DecidableEq

def absQ (x : Rat) : Rat := if x < 0 then -x else x

/-- `np.interp(x, ts, vs, left=nan, right=nan)` for increasing `ts` -/
def interp : List Rat → List Rat → Rat → Option Rat
  | t0 :: t1 :: ts, v0 :: v1 :: vs, x =>
      if x < t0 then none
      else if x = t0 then some v0
      else if x < t1 then (if t1 = t0 then none else some (v0 + (v1 - v0) / (t1 - t0) * (x - t0)))
      else interp (t1 :: ts) (v1 :: vs) x
  | [t0], [v0], x => if x = t0 then some v0 else none
  | _, _, _ => none

/-- pairs `(obs, fit)` that survive `idx = ~isnan(y) & ~isnan(y2)` -/
def validPairs : List (Option Rat) → List (Option Rat) → List (Rat × Rat)
  | some o :: os, some f :: fs => (o, f) :: validPairs os fs
  | _ :: os, _ :: fs => validPairs os fs
  | _, _ => []

def tolWape : Rat := 1 / 1000000

/-- `sum(_calculate_fitscore(y[idx], y2[idx], metric))` -/
def fitScore (metric : Metric) (ps : List (Rat × Rat)) : Option Rat :=
  match metric with
  | .fractional => some (listSum (ps.map (fun p => absQ (p.2 - p.1) / (if p.1 < 1 then 1 else p.1))))
  | .wape =>
      if ps.isEmpty then some 0 else
      let mean := listSum (ps.map (·.1)) / ps.length
      if mean + tolWape = 0 then none else
      some (listSum (ps.map (fun p => absQ (p.2 - p.1) / (mean + tolWape))))

structure Quantity where
  weight : Rat
  metric : Metric
  obs : List (Option Rat)       -- data values at the data times (NaN = none)
  dataT : List Rat
  modelT : List Rat
  modelV : List Rat
  deriving Repr

def quantityScore (q : Quantity) : Option Rat :=
  (fitScore q.metric (validPairs q.obs (q.dataT.map (interp q.modelT q.modelV)))).map (q.weight * ·)

/-- `objective = 0.0; for q: objective += weight * sum(fitscore)` -/
def calObjective (qs : List Quantity) : Option Rat :=
  (qs.mapM quantityScore).map listSum

/-! ### driver

  `objective <dt> <nt> t[nt] <nm> M*`  with
     M    := <kind> <weight> <win> <sel> <src>
     kind := plain | atmost thr | atleast thr | incfrac inc base | incabs inc base | decfrac dec base | decabs dec base
     win  := at y | range y0 (y1|inf)
     sel  := all | pops k name{k}
     src  := prog v[nt] | vars np (name found(0|1) nv (isLink(0|1) v[nt]){nv}){np}
  → `ok <obj> cur <objCurrent>` ; errors as `err notFound` / `err notMatched`
  `calobj <nq> (weight metric nd obs[nd] dataT[nd] nm modelT[nm] modelV[nm]){nq}` → `ok <value>` | `err div` -/

abbrev P (α : Type) := List String → Option (α × List String)

def pRat : P Rat
  | s :: r => (parseRat? s).map (·, r)
  | [] => none
def pNat : P Nat
  | s :: r => s.toNat?.map (·, r)
  | [] => none
def pTok : P String
  | s :: r => some (s, r)
  | [] => none
def pOptRat : P (Option Rat)
  | s :: r => if s = "nan" then some (none, r) else (parseRat? s).map (fun v => (some v, r))
  | [] => none

def pMany {α : Type} (p : P α) : Nat → P (List α)
  | 0, r => some ([], r)
  | n + 1, r => do
      let (a, r1) ← p r
      let (as, r2) ← pMany p n r1
      some (a :: as, r2)

def pKind : P Kind := fun toks => do
  let (k, r) ← pTok toks
  match k with
  | "plain" => some (.plain, r)
  | "atmost" => do let (a, r) ← pRat r; some (.atMost a, r)
  | "atleast" => do let (a, r) ← pRat r; some (.atLeast a, r)
  | "incfrac" => do let (a, r) ← pRat r; let (b, r) ← pRat r; some (.incFrac a b, r)
  | "incabs" => do let (a, r) ← pRat r; let (b, r) ← pRat r; some (.incAbs a b, r)
  | "decfrac" => do let (a, r) ← pRat r; let (b, r) ← pRat r; some (.decFrac a b, r)
  | "decabs" => do let (a, r) ← pRat r; let (b, r) ← pRat r; some (.decAbs a b, r)
  | _ => none

def pWin : P Window := fun toks => do
  let (k, r) ← pTok toks
  match k with
  | "at" => do let (y, r) ← pRat r; some (.at y, r)
  | "range" => do
      let (a, r) ← pRat r
      let (b, r) ← pTok r
      if b = "inf" then some (.range a none, r) else (parseRat? b).map (fun bv => (.range a (some bv), r))
  | _ => none

def pSel : P (Option (List String)) := fun toks => do
  let (k, r) ← pTok toks
  match k with
  | "all" => some (none, r)
  | "pops" => do
      let (n, r) ← pNat r
      let (names, r) ← pMany pTok n r
      some (some names, r)
  | _ => none

def pVar (nt : Nat) : P Var := fun toks => do
  let (l, r) ← pNat toks
  let (vs, r) ← pMany pRat nt r
  some (⟨l = 1, vs⟩, r)

def pPop (nt : Nat) : P Pop := fun toks => do
  let (name, r) ← pTok toks
  let (found, r) ← pNat r
  let (nv, r) ← pNat r
  let (vs, r) ← pMany (pVar nt) nv r
  some (⟨name, if found = 1 then some vs else none⟩, r)

def pSrc (nt : Nat) : P Source := fun toks => do
  let (k, r) ← pTok toks
  match k with
  | "prog" => do let (vs, r) ← pMany pRat nt r; some (.prog vs, r)
  | "vars" => do
      let (np, r) ← pNat r
      let (ps, r) ← pMany (pPop nt) np r
      some (.vars ps, r)
  | _ => none

def pMeasurable (nt : Nat) : P Measurable := fun toks => do
  let (k, r) ← pKind toks
  let (w, r) ← pRat r
  let (win, r) ← pWin r
  let (sel, r) ← pSel r
  let (src, r) ← pSrc nt r
  some (⟨k, w, win, sel, src⟩, r)

def showRes : Except Err Obj → String
  | .ok o => o.toString
  | .error .notFound => "notFound"
  | .error .notMatched => "notMatched"

def objectiveCurrent (t : List Rat) (dt : Rat) (ms : List Measurable) : Except Err Obj :=
  let rec go : List Measurable → Obj → Except Err Obj
    | [], acc => .ok acc
    | m :: ms, acc =>
        match measureCurrent t dt m with
        | .error e => .error e
        | .ok v => go ms (Obj.add acc (Obj.scale m.weight (hard m.kind v)))
  go ms (.fin 0)

def handle (toks : List String) : Option String := do
  let (dt, r) ← pRat toks
  let (nt, r) ← pNat r
  let (t, r) ← pMany pRat nt r
  let (nm, r) ← pNat r
  let (ms, r) ← pMany (pMeasurable nt) nm r
  if r ≠ [] then none else
  if dt = 0 then some "err dt" else
  some ("ok " ++ showRes (objective t dt ms) ++ " spec " ++ showRes (Spec.objective t dt ms)
        ++ " cur " ++ showRes (objectiveCurrent t dt ms))

def pMetric : P Metric := fun toks => do
  let (k, r) ← pTok toks
  match k with
  | "fractional" => some (.fractional, r)
  | "wape" => some (.wape, r)
  | _ => none

def pQuantity : P Quantity := fun toks => do
  let (w, r) ← pRat toks
  let (m, r) ← pMetric r
  let (nd, r) ← pNat r
  let (obs, r) ← pMany pOptRat nd r
  let (dT, r) ← pMany pRat nd r
  let (nm, r) ← pNat r
  let (mT, r) ← pMany pRat nm r
  let (mV, r) ← pMany pRat nm r
  some (⟨w, m, obs, dT, mT, mV⟩, r)

def handleCal (toks : List String) : Option String := do
  let (nq, r) ← pNat toks
  let (qs, r) ← pMany pQuantity nq r
  if r ≠ [] then none else
  match calObjective qs with
  | some v => some ("ok " ++ showRat v)
  | none => some "err div"

end Atomica.Protocol.Objective
