/-
  AtomicaModel.Protocol.Graph — the copy logic of `atomica/model.py`: `unlink` / `relink` (core Lean only).

  A built `Model` is a heap of integration objects (`Compartment`, `Characteristic`, `Parameter`, `Link`) that refer to
  each other and to their `Population` by Python object references.  Before pickling / deep copying, `Model.unlink`
  replaces every such reference by the *id* of the object it points to (`Variable.id`, a tuple of strings:
  `(pop, name)` or `(pop, source, dest, link name)`; a `Population` is stood for by its name), and `Model.relink`
  looks the ids up again in a dict built from all populations:

      objs = {}
      for pop in self.pops:
          objs[pop.name] = pop
          for obj in pop.comps + pop.characs + pop.pars + pop.links:
              objs[obj.id] = obj            # a later object with the same id silently replaces an earlier one

  Mirrors: `Variable/Compartment/TimedCompartment/Characteristic/Parameter/Link .unlink/.relink`, `Population.unlink/relink`
  (guard `is_linked`), `Model.unlink/relink` (guard `_vars_by_pop is None`), and the shape of
  `Model.__getstate__/__setstate__/__deepcopy__` (`copyModel`).

  Modelling decisions
  * An object reference is an *address* `Target` (population index, or population index + position in
    `pop.comps + pop.characs + pop.pars + pop.links`).  Python cannot have a dangling reference; here a dangling address makes
    `unlink` fail (`none`), so no theorem can hold because of a junk default.
  * Every class is one `Obj` with a list of reference *fields*, each a list of references
    (Compartment: `outlinks, inlinks` [+ `flush_link` as a 0/1-element list]; Characteristic: `includes, denominator`;
     Parameter: `links` + one field per entry of `deps`; Link: `parameter` (0/1), `source`, `dest`).
  * `unlink` reads `x.id` / `pop.name` of the referenced object while the heap is being rewritten object by object.  Ids
    and names are never rewritten, so reading them from the heap as it was at the start is the same thing.
  * Python errors are `none`: `objs[x]` with an unknown id (KeyError), `x.id` on something that is already an id
    (AttributeError: the reason for the `is_linked` guard).
  * Caches: `unlink` drops `_vars_by_pop`, `_exec_order`, `_program_cache`, the four `Population` lookup dicts and the parsed
    function `_fcn`; `relink` rebuilds `_vars_by_pop`, the lookups and `_fcn` (re-parsed from `fcn_str`) but NOT `_exec_order`
    / `_program_cache` (these are recomputed at the start of `Model.process`).  Caches are modelled by presence flags.
-/
namespace Atomica.Protocol.Graph

/-- dictionary key used by `relink`: a population name (a `str`) or a variable id (a `tuple`); never equal to each other -/
inductive Key
  | pop (name : String)
  | var (id : List String)
  deriving DecidableEq, Repr

/-- what an object reference points to -/
inductive Target
  | pop (p : Nat)
  | var (p : Nat) (i : Nat)
  deriving DecidableEq, Repr

/-- a reference field entry: a live object reference, or the id standing for it -/
inductive Ref
  | ptr (t : Target)
  | key (k : Key)
  deriving DecidableEq, Repr

structure Obj where
  id : List String
  /-- `Variable.pop` -/
  pop : Ref
  fields : List (List Ref)
  /-- `bool(fcn_str)` (Parameters only) -/
  hasFcn : Bool
  /-- `_fcn is not None` -/
  fcnCached : Bool
  deriving DecidableEq, Repr

structure Pop where
  name : String
  /-- `comps + characs + pars + links` -/
  objs : List Obj
  isLinked : Bool
  /-- `comp_lookup`, `charac_lookup`, `par_lookup`, `link_lookup` present -/
  lookups : Bool
  deriving DecidableEq, Repr

structure Model where
  pops : List Pop
  /-- `_vars_by_pop is not None` (the model-level "linked" flag) -/
  varsByPop : Bool
  /-- `_exec_order is not None` -/
  execOrder : Bool
  /-- `_program_cache is not None` -/
  programCache : Bool
  deriving DecidableEq, Repr

/-- `mapM` for `Option`, written out so that proofs are plain inductions -/
def mapOpt {α β} (f : α → Option β) : List α → Option (List β)
  | [] => some []
  | a :: as =>
      match f a, mapOpt f as with
      | some b, some bs => some (b :: bs)
      | _, _ => none

/-! ### ids -/

/-- `x.id` / `pop.name` of the object at an address; `none` for a dangling address -/
def keyOf (m : Model) : Target → Option Key
  | .pop p => (m.pops[p]?).map (fun P => Key.pop P.name)
  | .var p i => (m.pops[p]?).bind (fun P => (P.objs[i]?).map (fun o => Key.var o.id))

/-- all addresses, in the order `relink` enumerates them -/
def allTargets (m : Model) : List Target :=
  (List.range m.pops.length).flatMap (fun p =>
    Target.pop p :: (List.range ((m.pops[p]?).map (·.objs.length) |>.getD 0)).map (Target.var p))

/-- the insertion sequence of `objs` in `Model.relink` -/
def table (m : Model) : List (Key × Target) :=
  (allTargets m).filterMap (fun t => (keyOf m t).map (fun k => (k, t)))

/-- value of a dict built by successive assignments: the *last* assignment to a key wins -/
def dictGet : List (Key × Target) → Key → Option Target
  | [], _ => none
  | (k', v) :: rest, k =>
      match dictGet rest k with
      | some v' => some v'
      | none => if k' = k then some v else none

def keys (m : Model) : List Key := (table m).map Prod.fst

/-- ids (and population names) are pairwise distinct: the hypothesis of the round-trip theorem -/
def idsNodup (m : Model) : Bool := decide (keys m).Nodup

/-! ### unlink -/

def unlinkRef (m : Model) : Ref → Option Ref
  | .ptr t => (keyOf m t).map Ref.key
  | .key _ => none          -- `'str' object has no attribute 'name'` / `'tuple' object has no attribute 'id'`

def unlinkObj (m : Model) (o : Obj) : Option Obj :=
  match unlinkRef m o.pop, mapOpt (mapOpt (unlinkRef m)) o.fields with
  | some pop, some fields => some { o with pop := pop, fields := fields, fcnCached := false }
  | _, _ => none

/-- `Population.unlink` without its guard -/
def unlinkPopRaw (m : Model) (P : Pop) : Option Pop :=
  (mapOpt (unlinkObj m) P.objs).map (fun objs => { P with objs := objs, isLinked := false, lookups := false })

/-- `Population.unlink` -/
def unlinkPop (m : Model) (P : Pop) : Option Pop :=
  if P.isLinked then unlinkPopRaw m P else some P

/-- `Model.unlink` -/
def unlink (m : Model) : Option Model :=
  if m.varsByPop then
    (mapOpt (unlinkPop m) m.pops).map (fun pops => { pops := pops, varsByPop := false, execOrder := false, programCache := false })
  else some m

/-! ### relink -/

def relinkRef (tbl : List (Key × Target)) : Ref → Option Ref
  | .key k => (dictGet tbl k).map Ref.ptr    -- KeyError when absent
  | .ptr _ => none                            -- an object is not a key of `objs`

def relinkObj (tbl : List (Key × Target)) (o : Obj) : Option Obj :=
  match relinkRef tbl o.pop, mapOpt (mapOpt (relinkRef tbl)) o.fields with
  | some pop, some fields => some { o with pop := pop, fields := fields, fcnCached := o.hasFcn || o.fcnCached }
  | _, _ => none

/-- `Population.relink` without its guard -/
def relinkPopRaw (tbl : List (Key × Target)) (P : Pop) : Option Pop :=
  (mapOpt (relinkObj tbl) P.objs).map (fun objs => { P with objs := objs, isLinked := true, lookups := true })

/-- `Population.relink` -/
def relinkPop (tbl : List (Key × Target)) (P : Pop) : Option Pop :=
  if P.isLinked then some P else relinkPopRaw tbl P

/-- `Model.relink` -/
def relink (m : Model) : Option Model :=
  if m.varsByPop then some m
  else (mapOpt (relinkPop (table m)) m.pops).map (fun pops => { m with pops := pops, varsByPop := true })

/-- the same without any guard (what would happen if `is_linked` / `_vars_by_pop` were not consulted) -/
def unlinkRaw (m : Model) : Option Model :=
  (mapOpt (unlinkPopRaw m) m.pops).map (fun pops => { pops := pops, varsByPop := false, execOrder := false, programCache := false })

def relinkRaw (m : Model) : Option Model :=
  (mapOpt (relinkPopRaw (table m)) m.pops).map (fun pops => { m with pops := pops, varsByPop := true })

/-! ### the copy protocols -/

/-- what `unlink` forgets and `relink` does not restore (recomputed by `Model.process`) -/
def dropCaches (m : Model) : Model := { m with execOrder := false, programCache := false }

/-- `__deepcopy__` / `__getstate__`+`__setstate__`: unlink, copy the (now reference-free) dict, relink the original,
    relink the copy.  Copying plain data is the identity on values, so the result is (original afterwards, copy). -/
def copyModel (m : Model) : Option (Model × Model) :=
  (unlink m).bind (fun u => (relink u).bind (fun orig => (relink u).map (fun new => (orig, new))))

/-! ### well-formedness of a linked model (decidable; evaluated by the driver on every extracted model) -/

def validTarget (m : Model) (t : Target) : Bool := (keyOf m t).isSome

def refLinked (m : Model) : Ref → Bool
  | .ptr t => validTarget m t
  | .key _ => false

def objLinked (m : Model) (o : Obj) : Bool :=
  (match o.pop with | .ptr (.pop p) => validTarget m (.pop p) | _ => false)
  && o.fields.all (fun f => f.all (refLinked m))
  && (o.fcnCached == o.hasFcn)

def popLinked (m : Model) (P : Pop) : Bool :=
  P.isLinked && P.lookups && P.objs.all (objLinked m)

/-- a built model as `Model.build` leaves it -/
def linked (m : Model) : Bool := m.varsByPop && m.pops.all (popLinked m)

/-! ### driver handler

  request  `relink <nPops> { <popName> <nObjs> { <idLen> <id…> <hasFcn> <popRef> <nFields> { <n> <ref…> } } }`
           ref = `P <p>` | `V <p> <i>`                      (a linked model as extracted from a real `Model`)
  reply    `ok <idsNodup> <linked> <roundTrip> U <unlinked refs…> R <relinked refs…>`  — refs per object: pop ref, then per field
           `<n> <ref…>`; a key prints as `K <len> <strings…>`, an address as above; `err` in place of a list when the step fails -/

abbrev Parser := StateT (List String) Option

def tok : Parser String := do
  match (← get) with
  | [] => failure
  | t :: ts => set ts; pure t

def pNat : Parser Nat := do let t ← tok; match t.toNat? with | some n => pure n | none => failure

def pMany {α} (n : Nat) (p : Parser α) : Parser (List α) := do
  let mut a : Array α := Array.mkEmpty n
  for _ in [0:n] do
    a := a.push (← p)
  pure a.toList

def pRef : Parser Ref := do
  match (← tok) with
  | "P" => do let p ← pNat; pure (.ptr (.pop p))
  | "V" => do let p ← pNat; let i ← pNat; pure (.ptr (.var p i))
  | _ => failure

def pObj : Parser Obj := do
  let n ← pNat
  let id ← pMany n tok
  let hasFcn := (← tok) == "1"
  let pop ← pRef
  let nf ← pNat
  let fields ← pMany nf (do let k ← pNat; pMany k pRef)
  pure { id, pop, fields, hasFcn, fcnCached := hasFcn }

def pPop : Parser Pop := do
  let name ← tok
  let n ← pNat
  let objs ← pMany n pObj
  pure { name, objs, isLinked := true, lookups := true }

def pModel : Parser Model := do
  let n ← pNat
  let pops ← pMany n pPop
  pure { pops, varsByPop := true, execOrder := true, programCache := false }

def showKey : Key → String
  | .pop n => "K 1 " ++ n
  | .var id => "K " ++ toString id.length ++ (id.foldl (fun s x => s ++ " " ++ x) "")

def showRef : Ref → String
  | .ptr (.pop p) => "P " ++ toString p
  | .ptr (.var p i) => "V " ++ toString p ++ " " ++ toString i
  | .key k => showKey k

def showRefs (m : Model) : String :=
  " ".intercalate (m.pops.flatMap (fun P => P.objs.flatMap (fun o =>
    showRef o.pop :: o.fields.flatMap (fun f => toString f.length :: f.map showRef))))

def b01 (b : Bool) : String := if b then "1" else "0"

def handle (args : List String) : Option String :=
  match pModel.run args with
  | some (m, []) =>
      let u := unlink m
      let r := u.bind relink
      let rt := decide (r = some (dropCaches m))
      some ("ok " ++ b01 (idsNodup m) ++ " " ++ b01 (linked m) ++ " " ++ b01 rt
            ++ " U " ++ (match u with | some u => showRefs u | none => "err")
            ++ " R " ++ (match r with | some r => showRefs r | none => "err"))
  | _ => none

end Atomica.Protocol.Graph
