/-
  AtomicaModel.Protocol.Rng — sampling of uncertain inputs and the bookkeeping of random draws (C17).

  Anchors (atomica):
    utils.py      TimeSeries.sample, parallel_progress / _worker_init
    parameters.py Parameter.sample, ParameterSet.sample
    programs.py   ProgramSet.sample, Program.sample, Covout.sample
    project.py    Project.run_sampled_sims, _run_sampled_sim (retry on BadInitialization)
    results.py    Ensemble.run_sims, _sample_and_map (sc.parallelize)

  The random generator is abstract: a *draw function* `z : Nat → Rat` gives the standard-normal numbers a
  generator produces from a given state, in order (`np.random.randn(1)[0]` called repeatedly).  The model
  says *which* draw every perturbed number uses (`off`set bookkeeping) and *which* stream every sampled
  simulation reads (`Slot`, `Seeding`).  Two seeding configurations of the worker pool are modelled:
    * `inherited` — every forked worker starts from the parent's generator state (what
      `multiprocessing.Pool(initializer=_worker_init)` gives with the fork start method, since
      `_worker_init` only sets a log level) — the faithful model of the current code;
    * `reseeded`  — workers start from pairwise different states — the specification.
  `Covout.sample` likewise has the specification-shaped total definition and `Covout.sampleCurrent`, which
  fails with `attributeError` exactly where the code reads the non-existent attribute `self.interactions`.
-/
import AtomicaModel.Basic
namespace Atomica.Rng

/-! ## 1. Perturbation of one time series (`TimeSeries.sample`) -/

/-- The part of a `TimeSeries` that sampling reads or writes (`t` and `units` are copied untouched). -/
structure Series where
  vals : List Rat
  assumption : Option Rat
  sigma : Option Rat
  sampled : Bool
deriving DecidableEq, Repr

inductive Err
  | alreadySampled   -- `Exception("Sampling has already been performed - can only sample once")`
  | attributeError   -- `AttributeError: 'Covout' object has no attribute 'interactions'`
  | exhausted        -- `Exception("Failed simulation after %d attempts ...")`
deriving DecidableEq, Repr

/-- the standard-normal draws of one generator stream, by position -/
abbrev Draws := Nat → Rat

/-- `TimeSeries.has_data` -/
def Series.hasData (s : Series) : Bool := s.assumption.isSome || !s.vals.isEmpty

/-- number of draws `TimeSeries.sample(constant)` consumes — depends on the *shape* of the series only -/
def Series.nDraws (s : Series) (constant : Bool) : Nat :=
  match s.sigma with
  | none => 0
  | some _ => if constant then 1 else 1 + s.vals.length

/-- `v_i + σ * z(off+i)` : every entry perturbed by its own draw -/
def perturbEach (sg : Rat) (z : Draws) : Nat → List Rat → List Rat
  | _, [] => []
  | off, v :: vs => (v + sg * z off) :: perturbEach sg z (off + 1) vs

/-- the perturbed copy (before the `_sampled` flag is set) -/
def Series.perturb (s : Series) (constant : Bool) (z : Draws) (off : Nat) : Series :=
  match s.sigma with
  | none => s
  | some sg =>
      let delta := sg * z off
      { s with
        assumption := s.assumption.map (· + delta)
        vals := if constant then s.vals.map (· + delta) else perturbEach sg z (off + 1) s.vals }

/-- `TimeSeries.sample(constant)` reading the stream `z` from position `off`. -/
def Series.sample (s : Series) (constant : Bool) (z : Draws) (off : Nat) : Except Err Series :=
  if s.sampled then .error .alreadySampled
  else
    let new := s.perturb constant z off
    .ok { new with sampled := new.hasData }

/-! ## 2. Parameter sets: all series, in `all_pars()` × `ts.items()` order, reading consecutive draws -/

def nDrawsList (constant : Bool) : List Series → Nat
  | [] => 0
  | s :: rest => s.nDraws constant + nDrawsList constant rest

def sampleList (constant : Bool) (z : Draws) : Nat → List Series → Except Err (List Series)
  | _, [] => .ok []
  | off, s :: rest =>
      match s.sample constant z off, sampleList constant z (off + s.nDraws constant) rest with
      | .ok s', .ok r' => .ok (s' :: r')
      | .error e, _ => .error e
      | _, .error e => .error e

/-- `ParameterSet` as far as sampling is concerned -/
abbrev ParSet := List Series

def ParSet.sample (p : ParSet) (constant : Bool) (z : Draws) (off : Nat) : Except Err ParSet :=
  sampleList constant z off p

/-! ## 3. Program sets -/

/-- `Program.sample` perturbs exactly these five series, in this order (`baseline_spend` is not sampled). -/
structure Program where
  spend : Series
  unitCost : Series
  capacity : Series
  saturation : Series
  coverage : Series
deriving DecidableEq, Repr

def Program.toList (p : Program) : List Series := [p.spend, p.unitCost, p.capacity, p.saturation, p.coverage]

def Program.nDraws (p : Program) (constant : Bool) : Nat := nDrawsList constant p.toList

def Program.sample (p : Program) (constant : Bool) (z : Draws) (off : Nat) : Except Err Program :=
  match sampleList constant z off p.toList with
  | .ok [a, b, c, d, e] => .ok ⟨a, b, c, d, e⟩
  | .ok _ => .error .alreadySampled   -- unreachable: `sampleList` preserves length
  | .error e => .error e

/-- `Covout` outcomes: single-program outcomes (dict order) and explicit interaction deltas (dict order). -/
structure Covout where
  progs : List Rat
  interactions : List Rat
  sigma : Option Rat
deriving DecidableEq, Repr

def Covout.nDraws (c : Covout) : Nat :=
  match c.sigma with
  | none => 0
  | some _ => c.progs.length + c.interactions.length

/-- specification: every outcome and every explicit interaction outcome gets its own draw -/
def Covout.sample (c : Covout) (z : Draws) (off : Nat) : Covout :=
  match c.sigma with
  | none => c
  | some sg =>
      { c with
        progs := perturbEach sg z off c.progs
        interactions := perturbEach sg z (off + c.progs.length) c.interactions }

/-- the current code: `if self._interactions: for k, v in self.interactions.items()` raises -/
def Covout.sampleCurrent (c : Covout) (z : Draws) (off : Nat) : Except Err Covout :=
  match c.sigma with
  | none => .ok c
  | some sg =>
      if c.interactions.isEmpty then .ok { c with progs := perturbEach sg z off c.progs }
      else .error .attributeError

structure ProgSet where
  programs : List Program
  covouts : List Covout
deriving DecidableEq, Repr

def samplePrograms (constant : Bool) (z : Draws) : Nat → List Program → Except Err (List Program)
  | _, [] => .ok []
  | off, p :: rest =>
      match p.sample constant z off, samplePrograms constant z (off + p.nDraws constant) rest with
      | .ok p', .ok r' => .ok (p' :: r')
      | .error e, _ => .error e
      | _, .error e => .error e

def nDrawsPrograms (constant : Bool) : List Program → Nat
  | [] => 0
  | p :: rest => p.nDraws constant + nDrawsPrograms constant rest

def sampleCovouts (z : Draws) : Nat → List Covout → List Covout
  | _, [] => []
  | off, c :: rest => c.sample z off :: sampleCovouts z (off + c.nDraws) rest

def sampleCovoutsCurrent (z : Draws) : Nat → List Covout → Except Err (List Covout)
  | _, [] => .ok []
  | off, c :: rest =>
      match c.sampleCurrent z off, sampleCovoutsCurrent z (off + c.nDraws) rest with
      | .ok c', .ok r' => .ok (c' :: r')
      | .error e, _ => .error e
      | _, .error e => .error e

def nDrawsCovouts : List Covout → Nat
  | [] => 0
  | c :: rest => c.nDraws + nDrawsCovouts rest

def ProgSet.nDraws (g : ProgSet) (constant : Bool) : Nat :=
  nDrawsPrograms constant g.programs + nDrawsCovouts g.covouts

/-- `ProgramSet.sample(constant)` (specification): programs first, then covouts. -/
def ProgSet.sample (g : ProgSet) (constant : Bool) (z : Draws) (off : Nat) : Except Err ProgSet :=
  match samplePrograms constant z off g.programs with
  | .ok ps => .ok ⟨ps, sampleCovouts z (off + nDrawsPrograms constant g.programs) g.covouts⟩
  | .error e => .error e

/-- `ProgramSet.sample(constant)` as the code stands (D5). -/
def ProgSet.sampleCurrent (g : ProgSet) (constant : Bool) (z : Draws) (off : Nat) : Except Err ProgSet :=
  match samplePrograms constant z off g.programs,
        sampleCovoutsCurrent z (off + nDrawsPrograms constant g.programs) g.covouts with
  | .ok ps, .ok cs => .ok ⟨ps, cs⟩
  | .error e, _ => .error e
  | _, .error e => .error e

/-! ## 4. One sampled simulation: sample → run, retried with *fresh* draws on a bad initialisation -/

/-- `_run_sampled_sim`: attempt `k` reads the block starting at `off + k*len`; `bad` says whether the run of
    the inputs sampled from a given stream position raises `BadInitialization`.  Returns the number of the
    successful attempt. -/
def retryFrom (bad : Nat → Bool) (len off : Nat) : Nat → Nat → Except Err Nat
  | 0, _ => .error .exhausted
  | fuel + 1, k => if bad (off + k * len) then retryFrom bad len off fuel (k + 1) else .ok k

def runSampled (bad : Nat → Bool) (len off maxAttempts : Nat) : Except Err Nat :=
  retryFrom bad len off maxAttempts 0

/-- serial loop of `run_sampled_sims`: sample `i` starts where sample `i-1` stopped.  Returns, per sample,
    (stream position of the block finally used, number of failed attempts before it). -/
def serialRuns (bad : Nat → Bool) (len maxAttempts : Nat) : Nat → Nat → Except Err (List (Nat × Nat))
  | 0, _ => .ok []
  | n + 1, off =>
      match runSampled bad len off maxAttempts with
      | .error e => .error e
      | .ok k =>
          match serialRuns bad len maxAttempts n (off + (k + 1) * len) with
          | .ok r => .ok ((off + k * len, k) :: r)
          | .error e => .error e

/-! ## 5. Who reads which stream: schedules of samples on workers -/

/-- where a sample ran: the worker and how many tasks that worker had run before it -/
structure Slot where
  worker : Nat
  pos : Nat
deriving DecidableEq, Repr

inductive Seeding
  | inherited   -- every worker starts from the parent's state
  | reseeded    -- every worker starts from its own state
deriving DecidableEq, Repr

/-- identity of the start state of worker `w`: 0 = the parent's state at the time of the call -/
def seedId : Seeding → Nat → Nat
  | .inherited, _ => 0
  | .reseeded, w => w + 1

/-- the stream segment a sample reads: (start state, number of tasks run from it before) -/
def blockId (sd : Seeding) (s : Slot) : Nat × Nat := (seedId sd s.worker, s.pos)

/-- a worker runs its tasks one after the other: position `p+1` is used only if `p` is -/
def contiguous (s : List Slot) : Bool :=
  s.all fun x => x.pos == 0 || s.contains ⟨x.worker, x.pos - 1⟩

def nodupB : List Slot → Bool
  | [] => true
  | x :: xs => !xs.contains x && nodupB xs

/-- any assignment of samples to (worker, position) a pool of `W` workers can produce -/
def validSchedule (W : Nat) (s : List Slot) : Bool :=
  nodupB s && s.all (fun x => x.worker < W) && contiguous s

/-- the serial loop: one "worker" (the calling process itself), samples in order -/
def serialSchedule (n : Nat) : List Slot := (List.range n).map fun i => ⟨0, i⟩

def firstIdx (p : Slot → Bool) : List Slot → Nat
  | [] => 0
  | x :: xs => if p x then 0 else firstIdx p xs + 1

/-- collision pattern: for every sample the index of the first sample reading the same segment -/
def classes (sd : Seeding) (s : List Slot) : List Nat :=
  s.map fun x => firstIdx (fun y => blockId sd y == blockId sd x) s

def dedup : List (Nat × Nat) → List (Nat × Nat)
  | [] => []
  | x :: xs => if (dedup xs).contains x then dedup xs else x :: dedup xs

def nDistinct (sd : Seeding) (s : List Slot) : Nat := (dedup (s.map (blockId sd))).length

def allDistinct (sd : Seeding) (s : List Slot) : Bool := nDistinct sd s == s.length

/-! ## 6. Driver (wire format) -/

abbrev P := StateT (List String) Option

def tok : P String := fun l => match l with | [] => none | x :: xs => some (x, xs)

def pNat : P Nat := do let t ← tok; (t.toNat? : Option Nat)

def pRat : P Rat := do let t ← tok; (parseRat? t : Option Rat)

def pOptRat : P (Option Rat) := do
  let t ← tok
  if t == "none" then pure none else
    match parseRat? t with
    | some r => pure (some r)
    | none => failure

def pBool : P Bool := do
  let t ← tok
  if t == "1" then pure true else if t == "0" then pure false else failure

def pMany (p : P α) : Nat → P (List α)
  | 0 => pure []
  | n + 1 => do let x ← p; let xs ← pMany p n; pure (x :: xs)

def pList (p : P α) : P (List α) := do let n ← pNat; pMany p n

def pExpect (s : String) : P Unit := do let t ← tok; if t == s then pure () else failure

/-- `<sigma|none> <assumption|none> <sampled> <n> v…` -/
def pSeries : P Series := do
  let sg ← pOptRat
  let a ← pOptRat
  let f ← pBool
  let vs ← pList pRat
  pure ⟨vs, a, sg, f⟩

def pProgram : P Program := do
  let a ← pSeries; let b ← pSeries; let c ← pSeries; let d ← pSeries; let e ← pSeries
  pure ⟨a, b, c, d, e⟩

/-- `<sigma|none> <np> o… <ni> d…` -/
def pCovout : P Covout := do
  let sg ← pOptRat
  let ps ← pList pRat
  let is ← pList pRat
  pure ⟨ps, is, sg⟩

def pDraws : P (List Rat) := do pExpect "z"; pList pRat

def showOpt : Option Rat → String
  | none => "none"
  | some r => showRat r

def showList (l : List Rat) : String :=
  toString l.length ++ (if l.isEmpty then "" else " " ++ showRats l)

def showSeries (s : Series) : String :=
  showOpt s.sigma ++ " " ++ showOpt s.assumption ++ " " ++ (if s.sampled then "1" else "0") ++ " " ++ showList s.vals

def showCovout (c : Covout) : String :=
  showOpt c.sigma ++ " " ++ showList c.progs ++ " " ++ showList c.interactions

def showErr : Err → String
  | .alreadySampled => "err already-sampled"
  | .attributeError => "err attribute-error"
  | .exhausted => "err exhausted"

def showSeriesList (l : List Series) : String :=
  toString l.length ++ String.join (l.map fun s => " " ++ showSeries s)

def showProgSet (g : ProgSet) : String :=
  toString g.programs.length ++ String.join (g.programs.map fun p => String.join (p.toList.map fun s => " " ++ showSeries s))
    ++ " " ++ toString g.covouts.length ++ String.join (g.covouts.map fun c => " " ++ showCovout c)

def drawsOf (l : List Rat) : Draws := fun i => l.getD i 0

def pSlots : P (List Slot) := pList (do let w ← pNat; let p ← pNat; pure ⟨w, p⟩)

def runP (p : P String) (args : List String) : Option String :=
  match p args with
  | some (r, []) => some r
  | _ => none

def showNats (l : List Nat) : String := " ".intercalate (l.map toString)

/-- requests of kind `rng`:
    `series <c> <series> z <n> z…`                      → `ok <consumed> <series>` | `err …`
    `parset <c> <m> <series>… z <n> z…`                 → `ok <consumed> <m> <series>…`
    `progset|progset-current <c> <P> <5 series>… <C> <covout>… z <n> z…` → `ok <consumed> <P> … <C> …`
    `sched <inherited|reseeded> <W> <n> w p …`          → `ok <valid> <allDistinct> <nDistinct> <n> class…`
    `serial <n>`                                        → the same for the serial loop
    `retry <max> <len> <nsamples> <nb> b…`              → `ok <nsamples> pos fails …` | `err exhausted` -/
def handle : List String → Option String
  | "series" :: rest => runP (do
      let c ← pBool; let s ← pSeries; let z ← pDraws
      if z.length < s.nDraws c then pure "err short" else
      match s.sample c (drawsOf z) 0 with
      | .ok s' => pure ("ok " ++ toString (s.nDraws c) ++ " " ++ showSeries s')
      | .error e => pure (showErr e)) rest
  | "parset" :: rest => runP (do
      let c ← pBool; let l ← pList pSeries; let z ← pDraws
      if z.length < nDrawsList c l then pure "err short" else
      match ParSet.sample l c (drawsOf z) 0 with
      | .ok l' => pure ("ok " ++ toString (nDrawsList c l) ++ " " ++ showSeriesList l')
      | .error e => pure (showErr e)) rest
  | "progset" :: rest => runP (do
      let c ← pBool; let ps ← pList pProgram; let cs ← pList pCovout; let z ← pDraws
      let g : ProgSet := ⟨ps, cs⟩
      if z.length < g.nDraws c then pure "err short" else
      match g.sample c (drawsOf z) 0 with
      | .ok g' => pure ("ok " ++ toString (g.nDraws c) ++ " " ++ showProgSet g')
      | .error e => pure (showErr e)) rest
  | "progset-current" :: rest => runP (do
      let c ← pBool; let ps ← pList pProgram; let cs ← pList pCovout; let z ← pDraws
      let g : ProgSet := ⟨ps, cs⟩
      if z.length < g.nDraws c then pure "err short" else
      match g.sampleCurrent c (drawsOf z) 0 with
      | .ok g' => pure ("ok " ++ toString (g.nDraws c) ++ " " ++ showProgSet g')
      | .error e => pure (showErr e)) rest
  | "sched" :: mode :: rest => runP (do
      let sd ← (if mode == "inherited" then pure Seeding.inherited
                else if mode == "reseeded" then pure Seeding.reseeded else failure : P Seeding)
      let W ← pNat; let s ← pSlots
      pure ("ok " ++ (if validSchedule W s then "1" else "0") ++ " " ++ (if allDistinct sd s then "1" else "0")
            ++ " " ++ toString (nDistinct sd s) ++ " " ++ toString s.length
            ++ (if s.isEmpty then "" else " " ++ showNats (classes sd s)))) rest
  | ["serial", n] => do
      let n ← n.toNat?
      let s := serialSchedule n
      some ("ok " ++ (if validSchedule 1 s then "1" else "0") ++ " " ++ (if allDistinct .inherited s then "1" else "0")
            ++ " " ++ toString (nDistinct .inherited s) ++ " " ++ toString s.length
            ++ (if s.isEmpty then "" else " " ++ showNats (classes .inherited s)))
  | "retry" :: rest => runP (do
      let mx ← pNat; let len ← pNat; let n ← pNat; let bs ← pList pBool
      let bad : Nat → Bool := fun p => if len == 0 then bs.getD 0 false else bs.getD (p / len) false
      match serialRuns bad len mx n 0 with
      | .ok r => pure ("ok " ++ toString r.length ++ String.join (r.map fun (p, k) => " " ++ toString p ++ " " ++ toString k))
      | .error e => pure (showErr e)) rest
  | _ => none

end Atomica.Rng
