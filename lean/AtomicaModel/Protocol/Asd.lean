/-
  AtomicaModel.Protocol.Asd — the accept loop of `sciris.asd` (sc_asd.py, sciris 3.3.0) as a state machine (C15).

  `sc.asd(function, x, args, xmin=, xmax=, maxiters=, …)` is what `optimize` (optimization.py), `calibrate`
  (calibration.py) and `reconcile` (reconciliation.py) run by default.  Per iteration it

      choice            <- random coordinate and direction            (not modelled: any proposal is allowed)
      newval            = x[par] ± stepsizes[choice]
      if newval < xmin[par]: newval = xmin[par]                       (clipLo)
      if newval > xmax[par]: newval = xmax[par]                       (clipHi, after clipLo)
      xnew = x.copy(); xnew[par] = newval
      fvalnew = function(xnew)
      if fvalnew < fvalold: x = xnew; fval = fvalnew                  (strict improvement only)

  and returns the current `x` and `fval` when any stopping criterion fires (iteration budget, time budget,
  tolerances, `fval == minval`): the model therefore quantifies over *every finite sequence of proposals*.
  Objective values live in `ℚ ∪ {∞}` (`∞` = `np.inf`, returned for `FailedConstraint` / `BadInitialization` and
  for a missed hard target).  Step sizes and selection probabilities only steer which proposals are made.
-/
import AtomicaModel.Basic
namespace Atomica.Protocol

/-- objective value: a rational or `+∞` -/
inductive Obj where
  | fin (r : Rat)
  | inf
  deriving DecidableEq, Repr, Inhabited

namespace Obj

/-- Python `a < b` on floats (no NaN) -/
def lt : Obj → Obj → Bool
  | fin a, fin b => decide (a < b)
  | fin _, inf => true
  | inf, _ => false

/-- `a ≤ b`, i.e. `not (b < a)` -/
def le (a b : Obj) : Bool := !(lt b a)

def isFinite : Obj → Bool
  | fin _ => true
  | inf => false

def add : Obj → Obj → Obj
  | fin a, fin b => fin (a + b)
  | _, _ => inf

/-- `w * v` for a finite weight (the hard-target measurables carry weight 1) -/
def scale (w : Rat) : Obj → Obj
  | fin a => fin (w * a)
  | inf => inf

def toString : Obj → String
  | fin r => showRat r
  | inf => "inf"

def parse? (s : String) : Option Obj :=
  if s = "inf" then some inf else (parseRat? s).map fin

end Obj

/-- bounds of one coordinate; `none` = unbounded (`∓np.inf`) -/
structure Bound where
  lo : Option Rat
  hi : Option Rat
  deriving Repr, Inhabited

def Bound.free : Bound := ⟨none, none⟩

/-- the two `if`s of sc.asd, in their order -/
def clipB (b : Bound) (v : Rat) : Rat :=
  let v1 := match b.lo with
    | some l => if v < l then l else v
    | none => v
  match b.hi with
    | some h => if v1 > h then h else v1
    | none => v1

def Bound.within (b : Bound) (v : Rat) : Prop :=
  (∀ l, b.lo = some l → l ≤ v) ∧ (∀ h, b.hi = some h → v ≤ h)

def Bound.withinB (b : Bound) (v : Rat) : Bool :=
  (match b.lo with | some l => decide (l ≤ v) | none => true) &&
  (match b.hi with | some h => decide (v ≤ h) | none => true)

/-- state of the loop: current (= best so far) point and its objective value -/
structure St where
  x : List Rat
  f : Obj
  deriving Repr, DecidableEq

/-- one iteration as observed from outside: coordinate, unclipped new value, objective value returned -/
structure Eval where
  par : Nat
  raw : Rat
  f : Obj
  deriving Repr

/-- `xnew = x.copy(); xnew[par] = clip(newval)` -/
def propose (box : List Bound) (x : List Rat) (par : Nat) (raw : Rat) : List Rat :=
  x.set par (clipB (box.getD par Bound.free) raw)

/-- accept iff strictly better -/
def step (box : List Bound) (s : St) (e : Eval) : St :=
  if Obj.lt e.f s.f then ⟨propose box s.x e.par e.raw, e.f⟩ else s

def run (box : List Bound) (s : St) (es : List Eval) : St := es.foldl (step box) s

/-- the points evaluated along the way, with the values returned for them -/
def evaluated (box : List Bound) (s : St) : List Eval → List St
  | [] => []
  | e :: es => ⟨propose box s.x e.par e.raw, e.f⟩ :: evaluated box (step box s e) es

/-- `x` lies in the box (same length, every coordinate within its bounds) -/
def inBox (box : List Bound) (x : List Rat) : Prop :=
  x.length = box.length ∧ ∀ i (hx : i < x.length) (hb : i < box.length), (box[i]).within (x[i])

def inBoxB (box : List Bound) (x : List Rat) : Bool :=
  x.length == box.length && (List.zipWith Bound.withinB box x).all id

/-! ### the same loop driven by an objective function (deterministic objective) -/

def stepF (F : List Rat → Obj) (box : List Bound) (s : St) (p : Nat × Rat) : St :=
  step box s ⟨p.1, p.2, F (propose box s.x p.1 p.2)⟩

def runF (F : List Rat → Obj) (box : List Bound) (x0 : List Rat) (ps : List (Nat × Rat)) : St :=
  ps.foldl (stepF F box) ⟨x0, F x0⟩

/-! ### replay of a logged trace (driver)

  The harness logs every point at which the objective was evaluated and the value returned.  The model works out
  which coordinate was changed (it must be at most one), re-does the clip and the accept decision. -/

def diffIdx : List Rat → List Rat → Nat → List Nat
  | a :: as, b :: bs, i => if a = b then diffIdx as bs (i + 1) else i :: diffIdx as bs (i + 1)
  | _, _, _ => []

inductive ReplayErr where
  | length (k : Nat) | multi (k : Nat) | clip (k : Nat)
  deriving Repr

/-- returns the final state and the number of accepted steps -/
def replay (box : List Bound) : St → Nat → Nat → List (List Rat × Obj) → Except ReplayErr (St × Nat)
  | s, _, acc, [] => .ok (s, acc)
  | s, k, acc, (xe, fe) :: rest =>
      if xe.length ≠ s.x.length then .error (.length k) else
      match diffIdx s.x xe 0 with
      | [] => -- no coordinate moved (asd could not find an in-range step): evaluated at the current point
          let s' := step box s ⟨0, s.x.getD 0 0, fe⟩
          if propose box s.x 0 (s.x.getD 0 0) ≠ xe then .error (.clip k) else
          replay box s' (k + 1) (if Obj.lt fe s.f then acc + 1 else acc) rest
      | [i] =>
          let raw := xe.getD i 0
          if propose box s.x i raw ≠ xe then .error (.clip k) else
          replay box (step box s ⟨i, raw, fe⟩) (k + 1) (if Obj.lt fe s.f then acc + 1 else acc) rest
      | _ => .error (.multi k)

/-! ### driver

  `asd <n> x0[n] lo[n] hi[n] <f0> <k> (x[n] f){k}`  (bounds: rational, `-inf`, `inf`)
  → `ok <accepted> <inbox0> <inbox1> <f> x[n]` | `err <reason> <k>` -/

def parseBoundLo? (s : String) : Option (Option Rat) :=
  if s = "-inf" then some none else (parseRat? s).map some
def parseBoundHi? (s : String) : Option (Option Rat) :=
  if s = "inf" then some none else (parseRat? s).map some

def takeN? (n : Nat) (l : List String) : Option (List String × List String) :=
  if l.length < n then none else some (l.take n, l.drop n)

def parseLog? (n : Nat) : Nat → List String → Option (List (List Rat × Obj))
  | 0, [] => some []
  | 0, _ => none
  | k + 1, toks => do
      let (xs, rest) ← takeN? n toks
      let x ← parseRats? xs
      match rest with
      | f :: rest' =>
          let fv ← Obj.parse? f
          let tl ← parseLog? n k rest'
          some ((x, fv) :: tl)
      | [] => none

def handle : List String → Option String
  | nS :: toks => do
      let n ← nS.toNat?
      let (x0s, t1) ← takeN? n toks
      let (los, t2) ← takeN? n t1
      let (his, t3) ← takeN? n t2
      let x0 ← parseRats? x0s
      let lo ← los.mapM parseBoundLo?
      let hi ← his.mapM parseBoundHi?
      match t3 with
      | f0S :: kS :: t4 =>
          let f0 ← Obj.parse? f0S
          let k ← kS.toNat?
          let log ← parseLog? n k t4
          let box := List.zipWith Bound.mk lo hi
          match replay box ⟨x0, f0⟩ 0 0 log with
          | .ok (s, acc) =>
              some ("ok " ++ toString acc ++ " " ++ (if inBoxB box x0 then "1" else "0") ++ " "
                ++ (if inBoxB box s.x then "1" else "0") ++ " " ++ s.f.toString ++ " " ++ showRats s.x)
          | .error (.length k) => some ("err length " ++ toString k)
          | .error (.multi k) => some ("err multi " ++ toString k)
          | .error (.clip k) => some ("err clip " ++ toString k)
      | _ => none
  | _ => none

end Atomica.Protocol
