/-
  AtomicaModel.Protocol.Skeletons — driver access to the generated skeletons (C15).
  `skeleton <name>` → canonical wire rendering of the generated Lean term followed by the same report as `bracket`.
-/
import AtomicaModel.Protocol.Bracket
import AtomicaModel.Generated.Brackets
namespace Atomica.Protocol.Skeletons
open Atomica.Protocol.Bracket

def handle : List String → Option String
  | [name] =>
      match Atomica.Protocol.Generated.all.lookup name with
      | some s => some ("ok " ++ render s ++ " | " ++ report s)
      | none => some "err unknown-skeleton"
  | _ => none

end Atomica.Protocol.Skeletons
