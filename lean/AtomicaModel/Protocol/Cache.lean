/-
  AtomicaModel.Protocol.Cache — `Covout` (programs.py) as visible data + derived cache (C16).

  Visible data (what the "Program effects" sheet shows): baseline, single-program outcomes (ordered dict), the
  explicit interaction outcomes of `imp_interaction`, the coverage interaction.
  Cache (private attributes): `_interactions` (outcome − baseline *at parse time*), `_cached_progs` (sorted by
  −|outcome − baseline|, stable), `_deltas`, `_combination_outcomes` (2^n entries, MSB = first cached program).

  `derive` is what `Covout.__init__` computes; `updateOutcomes` is `Covout.update_outcomes` (it does *not* re-parse
  `_interactions`).  `stepCurrent` applies each library operation with exactly the `update_outcomes` calls the code
  makes (`ProgramSet.remove_program`, `reconciliation._update_progset`: none); `stepSpec` is the specification-shaped
  version (cache re-derived from the visible data).  `outcome` reads exactly the attributes `Covout.get_outcome` reads.
-/
import AtomicaModel.Tables
namespace Atomica.Protocol.Cache
open Atomica.Tables (P tok pNat pRat pList pStr pOpt run encStr showList)

inductive CovInt where
  | additive | nested | random
  deriving DecidableEq, Repr, Inhabited

structure Visible where
  baseline : Rat
  progs : List (String × Rat)               -- `Covout.progs`
  inter : List (List String × Rat)          -- `imp_interaction`: set of programs ↦ outcome (absolute value)
  covInt : CovInt
  deriving DecidableEq, Repr, Inhabited

structure Cache where
  inter : List (List String × Rat)          -- `_interactions`: set of programs ↦ outcome − baseline
  cached : List (String × Rat)              -- `_cached_progs`
  deltas : List Rat                         -- `_deltas`
  combOut : List Rat                        -- `_combination_outcomes`
  deriving DecidableEq, Repr, Inhabited

structure State where
  visible : Visible
  cache : Cache
  deriving DecidableEq, Repr, Inhabited

def absQ (q : Rat) : Rat := if q < 0 then -q else q

/-- insert `x` after every element whose |delta| is at least as large (stable, descending) -/
def insDesc (b : Rat) (x : String × Rat) : List (String × Rat) → List (String × Rat)
  | [] => [x]
  | y :: ys => if absQ (y.2 - b) < absQ (x.2 - b) then x :: y :: ys else y :: insDesc b x ys

/-- `sorted(progs.items(), key=lambda x: -abs(x[1] - baseline))` -/
def sortProgs (b : Rat) (l : List (String × Rat)) : List (String × Rat) :=
  l.foldl (fun acc x => insDesc b x acc) []

/-- `[bin(x)[2:].rjust(n, "0") for x in range(2**n)]` as boolean lists -/
def allMasks : Nat → List (List Bool)
  | 0 => [[]]
  | n + 1 => (allMasks n).map (false :: ·) ++ (allMasks n).map (true :: ·)

def sameSet (a b : List String) : Bool := a.all b.contains && b.all a.contains

def select {α} (mask : List Bool) (l : List α) : List α :=
  (mask.zip l).filterMap fun (m, x) => if m then some x else none

/-- first element of largest magnitude (`tmp[np.argmax(abs(tmp))]`) -/
def bestDelta : List Rat → Rat
  | [] => 0
  | d :: ds => ds.foldl (fun best x => if absQ best < absQ x then x else best) d

/-- `Covout.compute_impact_interaction` -/
def impact (inter : List (List String × Rat)) (cached : List (String × Rat)) (deltas : List Rat) (mask : List Bool) : Rat :=
  if !mask.any id then 0
  else
    let active := (select mask cached).map (·.1)
    match inter.reverse.find? (fun c => sameSet c.1 active) with
    | some c => c.2
    | none => bestDelta (select mask deltas)

/-- `Covout.update_outcomes`: everything is recomputed except `_interactions` -/
def updateOutcomes (v : Visible) (inter : List (List String × Rat)) : Cache :=
  let cached := sortProgs v.baseline v.progs
  let deltas := cached.map (·.2 - v.baseline)
  { inter := inter, cached := cached, deltas := deltas,
    combOut := (allMasks cached.length).map (impact inter cached deltas) }

/-- what `Covout.__init__` leaves in the private attributes -/
def derive (v : Visible) : Cache :=
  updateOutcomes v (v.inter.map fun c => (c.1, c.2 - v.baseline))

/-- `assert x in self.progs` for every program named in `imp_interaction` -/
def interOK (v : Visible) : Bool := v.inter.all fun c => c.1.all fun x => (v.progs.map (·.1)).contains x

def init (v : Visible) : Option State := if interOK v then some ⟨v, derive v⟩ else none

/-- export to the spreadsheet and read back: a new `Covout` built from the visible data -/
def reimport (s : State) : State := ⟨s.visible, derive s.visible⟩

def CacheInv (s : State) : Prop := s.cache = derive s.visible

instance (s : State) : Decidable (CacheInv s) := by unfold CacheInv; infer_instance

/-! ### operations -/

inductive Op where
  | copy                                   -- `sc.dcp`, `ProgramSet.copy`, `Covout.sample()` with `sigma is None`
  | updateOutcomes                         -- `Covout.update_outcomes()`; `Covout.sample()` with `sigma == 0`
  | removeProgram (name : String)          -- `ProgramSet.remove_program`: `del covout.progs[name]`
  | setBaseline (x : Rat)                  -- `_update_progset`: `covout.baseline = x`
  | setOutcome (name : String) (x : Rat)   -- `_update_progset`: `covout.progs[name] = x`
  deriving DecidableEq, Repr, Inhabited

def dictSet (k : String) (x : Rat) : List (String × Rat) → List (String × Rat)
  | [] => [(k, x)]
  | (k', x') :: rest => if k' = k then (k, x) :: rest else (k', x') :: dictSet k x rest

/-- the visible data after an operation (the same for the code and for the specification, except that the
    specification also drops interaction terms that name a removed program) -/
def editCurrent (op : Op) (v : Visible) : Visible :=
  match op with
  | .copy => v
  | .updateOutcomes => v
  | .removeProgram n => { v with progs := v.progs.filter (·.1 ≠ n) }
  | .setBaseline x => { v with baseline := x }
  | .setOutcome n x => { v with progs := dictSet n x v.progs }

def editSpec (op : Op) (v : Visible) : Visible :=
  match op with
  | .removeProgram n => { v with progs := v.progs.filter (·.1 ≠ n), inter := v.inter.filter (fun c => !c.1.contains n) }
  | op => editCurrent op v

/-- the operation as the code performs it -/
def stepCurrent (op : Op) (s : State) : State :=
  match op with
  | .updateOutcomes => ⟨s.visible, updateOutcomes s.visible s.cache.inter⟩
  | op => ⟨editCurrent op s.visible, s.cache⟩

/-- the operation as the property needs it: the cache follows the visible data -/
def stepSpec (op : Op) (s : State) : State :=
  match op with
  | .copy => s
  | .updateOutcomes => ⟨s.visible, updateOutcomes s.visible s.cache.inter⟩
  | op => ⟨editSpec op s.visible, derive (editSpec op s.visible)⟩

def runCurrent (ops : List Op) (s : State) : State := ops.foldl (fun s op => stepCurrent op s) s
def runSpec (ops : List Op) (s : State) : State := ops.foldl (fun s op => stepSpec op s) s

/-- operations for which the code keeps the cache coherent -/
def Op.safe : Op → Bool
  | .copy => true
  | .updateOutcomes => true
  | _ => false

/-! ### `Covout.get_outcome` -/

inductive OErr where
  | keyError        -- a cached program is missing from the coverage dict
  | indexError
  | notModelled     -- additive interaction with total coverage above 1 (left to C12)
  deriving DecidableEq, Repr

def maskIndex (m : List Bool) : Nat := m.foldl (fun acc b => 2 * acc + (if b then 1 else 0)) 0

def sumQ (l : List Rat) : Rat := l.foldl (· + ·) 0
def prodQ (l : List Rat) : Rat := l.foldl (· * ·) 1

def lookupCov (cov : List (String × Rat)) (k : String) : Except OErr Rat :=
  match cov.lookup k with
  | some c => .ok c
  | none => .error .keyError

def insAsc (x : Nat × Rat) : List (Nat × Rat) → List (Nat × Rat)
  | [] => [x]
  | y :: ys => if x.2 < y.2 then x :: y :: ys else y :: insAsc x ys

/-- nested interaction: walk the programs by increasing coverage, switching them off one at a time -/
def nestedSum (combOut : List Rat) : List (Nat × Rat) → List Bool → Rat → Rat → Rat
  | [], _, _, acc => acc
  | (i, c) :: rest, mask, prev, acc =>
      nestedSum combOut rest (mask.set i false) c (acc + (c - prev) * combOut.getD (maskIndex mask) 0)

/-- reads `baseline`, `n_progs = len(progs)`, `cov_interaction` (visible) and `_cached_progs`, `_deltas`,
    `_combination_outcomes` (cache) — the attributes `get_outcome` reads -/
def outcome (s : State) (cov : List (String × Rat)) : Except OErr Rat := do
  let b := s.visible.baseline
  let n := s.visible.progs.length
  if n = 0 then return b
  if n = 1 then
    match s.cache.cached.head?, s.cache.deltas.head? with
    | some (k, _), some d => do let c ← lookupCov cov k; return b + c * d
    | _, _ => throw .indexError
  let c ← s.cache.cached.mapM fun kv => lookupCov cov kv.1
  match s.visible.covInt with
  | .additive =>
      if sumQ c ≤ 1 then return b + sumQ (List.zipWith (· * ·) c s.cache.deltas)
      else throw .notModelled
  | .random =>
      let w := (allMasks c.length).map fun m =>
        prodQ (List.zipWith (fun (mi : Bool) ci => if mi then ci else 1 - ci) m c)
      return b + sumQ (List.zipWith (· * ·) w s.cache.combOut)
  | .nested =>
      let order := (c.zipIdx.map fun (ci, i) => (i, ci)).foldl (fun acc x => insAsc x acc) []
      return b + nestedSum s.cache.combOut order (List.replicate c.length true) 0 0

/-! ### driver (`cache …`) -/

def pCovInt : P CovInt := do
  let t ← tok
  if t = "a" then pure .additive else if t = "n" then pure .nested else if t = "r" then pure .random else failure

def pOp : P Op := do
  let t ← tok
  if t = "copy" then pure .copy
  else if t = "upd" then pure .updateOutcomes
  else if t = "rm" then do let n ← pStr; pure (.removeProgram n)
  else if t = "base" then do let x ← pRat; pure (.setBaseline x)
  else if t = "out" then do let n ← pStr; let x ← pRat; pure (.setOutcome n x)
  else failure

def pVisible : P Visible := do
  let baseline ← pRat
  let covInt ← pCovInt
  let progs ← pList (do let k ← pStr; let v ← pRat; pure (k, v))
  let inter ← pList (do let c ← pList pStr; let v ← pRat; pure (c, v))
  pure { baseline, progs, inter, covInt }

def showOutcome : Except OErr Rat → String
  | .ok q => showRat q
  | .error .keyError => "keyerror"
  | .error .indexError => "indexerror"
  | .error .notModelled => "na"

def showState (s : State) (cov : List (String × Rat)) : String :=
  " ".intercalate [
    showRat s.visible.baseline,
    showList (fun kv => encStr kv.1 ++ " " ++ showRat kv.2) s.visible.progs,
    showList (fun c => showList encStr c.1 ++ " " ++ showRat c.2) s.visible.inter,
    showList (fun kv => encStr kv.1) s.cache.cached,
    showList showRat s.cache.deltas,
    showList showRat s.cache.combOut,
    (if decide (CacheInv s) then "1" else "0"),
    showOutcome (outcome s cov)]

/-- `cache <visible> <ops> <coverage>` → `<state after stepSpec…> | <state after stepCurrent…>` (each: visible, cache,
    CacheInv flag, outcome), or `err bad-interaction` when `Covout.__init__` would reject the interaction string -/
def handle (args : List String) : Option String :=
  (run (do
      let v ← pVisible
      let ops ← pList pOp
      let cov ← pList (do let k ← pStr; let c ← pRat; pure (k, c))
      pure (v, ops, cov)) args).map fun (v, ops, cov) =>
    match init v with
    | none => "err bad-interaction"
    | some s0 =>
        let spec := runSpec ops s0
        let cur := runCurrent ops s0
        (if interOK spec.visible then showState spec cov else "err bad-interaction")
          ++ " | " ++ showState cur cov
          ++ " | " ++ (if interOK cur.visible then showState (reimport cur) cov else "err bad-interaction")

end Atomica.Protocol.Cache
