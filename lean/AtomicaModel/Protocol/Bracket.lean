/-
  AtomicaModel.Protocol.Bracket — "temporarily change a setting, always put it back" (C15).

  A tiny statement language for the skeletons of `calibrate` (calibration.py), `Project.run_optimization`,
  `Project.calibrate` (project.py), `reconcile` (reconciliation.py) and `optimize` (optimization.py).  The
  translator (harness/props/c15.py, `translate`) regenerates `AtomicaModel/Generated/Brackets.lean` from the Python
  AST on every run, keeping only

    * statements that read or assign `<obj>.settings.<field>`  (`save`, `setNew`, `restore`),
    * everything else as opaque `call`s that may raise,
    * in-place modifications of objects (`write`), tagged with who owns the object,
    * `if` / loops / `try … except … finally` / `raise` / `return` structure.

  `exec` runs a skeleton against an oracle that decides which dynamic call raises, which branch is taken, how often a
  loop runs, whether a typed `except` matches and what value an assignment stores.  `restoresField` is a static check
  (abstract interpretation: "is the field certainly back at its entry value at every exit, normal, exceptional or
  return?").  Soundness is proved in `AtomicaProofs.Properties.C15` (`restores_sound`).
-/
namespace Atomica.Protocol.Bracket

abbrev Var := Nat
abbrev Field := Nat

/-- owner of an object that is modified in place -/
inductive Root where
  | caller (name : String)   -- a parameter of the function or something reached through one
  | copy                     -- bound to `x.copy()`, `sc.dcp(x)`, `_convert_to_single_year(x, …)` inside the function
  | fresh                    -- a literal or an object constructed inside the function
  deriving Repr, DecidableEq

inductive Stmt where
  | skip
  | save (v : Var) (f : Field)       -- `v = obj.settings.f`
  | setNew (f : Field)               -- `obj.settings.f = <expr>`
  | restore (f : Field) (v : Var)    -- `obj.settings.f = v`
  | call (label : String)            -- any other statement; may raise
  | write (r : Root)                 -- in-place modification
  | raise
  | ret
  | seq (a b : Stmt)
  | ite (a b : Stmt)
  | loop (body : Stmt)
  | tryFinally (body fin : Stmt)
  | tryExcept (body handler : Stmt) (catchAll : Bool)
  deriving Repr

inductive Outcome where
  | norm | exc | ret
  deriving Repr, DecidableEq

structure Oracle where
  raises : Nat → Bool     -- does the k-th dynamic call raise?
  choice : Nat → Nat      -- every other decision, in order

structure State where
  settings : Field → Int
  vars : Var → Int
  written : List String    -- names of caller-owned objects modified so far
  nc : Nat                 -- dynamic calls so far
  nx : Nat                 -- other decisions so far

def upd (g : Nat → Int) (k : Nat) (v : Int) : Nat → Int := fun i => if i = k then v else g i

/-- run `f` up to `n` times, stopping at the first non-normal outcome -/
def iter (f : State → Outcome × State) : Nat → State → Outcome × State
  | 0, σ => (.norm, σ)
  | n + 1, σ =>
      match f σ with
      | (.norm, σ1) => iter f n σ1
      | r => r

def exec (o : Oracle) : Stmt → State → Outcome × State
  | .skip, σ => (.norm, σ)
  | .save v f, σ => (.norm, { σ with vars := upd σ.vars v (σ.settings f) })
  | .setNew f, σ => (.norm, { σ with settings := upd σ.settings f (Int.ofNat (o.choice σ.nx)), nx := σ.nx + 1 })
  | .restore f v, σ => (.norm, { σ with settings := upd σ.settings f (σ.vars v) })
  | .call _, σ => (if o.raises σ.nc then .exc else .norm, { σ with nc := σ.nc + 1 })
  | .write r, σ =>
      match r with
      | .caller n => (.norm, { σ with written := σ.written ++ [n] })
      | _ => (.norm, σ)
  | .raise, σ => (.exc, σ)
  | .ret, σ => (.ret, σ)
  | .seq a b, σ =>
      match exec o a σ with
      | (.norm, σ1) => exec o b σ1
      | r => r
  | .ite a b, σ =>
      let σ1 := { σ with nx := σ.nx + 1 }
      if o.choice σ.nx = 0 then exec o b σ1 else exec o a σ1
  | .loop body, σ => iter (exec o body) (o.choice σ.nx) { σ with nx := σ.nx + 1 }
  | .tryFinally body fin, σ =>
      match exec o body σ with
      | (ob, σ1) =>
          match exec o fin σ1 with
          | (.norm, σ2) => (ob, σ2)
          | r => r
  | .tryExcept body h catchAll, σ =>
      match exec o body σ with
      | (.exc, σ1) =>
          if catchAll then exec o h σ1
          else if o.choice σ1.nx = 0 then (.exc, { σ1 with nx := σ1.nx + 1 })
          else exec o h { σ1 with nx := σ1.nx + 1 }
      | r => r

/-! ### static check -/

/-- abstract state for one field `f`: `clean` = the field certainly holds its entry value; `good` = variables that
    certainly hold the entry value -/
structure Abs where
  clean : Bool
  good : List Var
  deriving Repr, DecidableEq

def Abs.top : Abs := ⟨false, []⟩

def joinA (a b : Abs) : Abs := ⟨a.clean && b.clean, a.good.filter (fun v => b.good.contains v)⟩

def joinO : Option Abs → Option Abs → Option Abs
  | none, y => y
  | x, none => x
  | some a, some b => some (joinA a b)

/-- reachable abstract states per outcome (`none` = this outcome cannot happen) -/
structure Res where
  norm : Option Abs
  exc : Option Abs
  ret : Option Abs
  deriving Repr

def Res.none : Res := ⟨Option.none, Option.none, Option.none⟩

def Res.sel (r : Res) : Outcome → Option Abs
  | .norm => r.norm
  | .exc => r.exc
  | .ret => r.ret

def Res.join (a b : Res) : Res := ⟨joinO a.norm b.norm, joinO a.exc b.exc, joinO a.ret b.ret⟩

/-- does the statement read or assign a settings field? -/
def touches : Stmt → Bool
  | .save _ _ | .setNew _ | .restore _ _ => true
  | .seq a b | .ite a b | .tryFinally a b | .tryExcept a b _ => touches a || touches b
  | .loop b => touches b
  | _ => false

def absExec (f : Field) : Stmt → Abs → Res
  | .skip, a => ⟨some a, none, none⟩
  | .save v g, a =>
      if g = f ∧ a.clean then ⟨some ⟨a.clean, v :: a.good⟩, none, none⟩
      else ⟨some ⟨a.clean, a.good.filter (fun w => w ≠ v)⟩, none, none⟩
  | .setNew g, a => if g = f then ⟨some ⟨false, a.good⟩, none, none⟩ else ⟨some a, none, none⟩
  | .restore g v, a => if g = f then ⟨some ⟨a.good.contains v, a.good⟩, none, none⟩ else ⟨some a, none, none⟩
  | .call _, a => ⟨some a, some a, none⟩
  | .write _, a => ⟨some a, none, none⟩
  | .raise, a => ⟨none, some a, none⟩
  | .ret, a => ⟨none, none, some a⟩
  | .seq s t, a =>
      let rs := absExec f s a
      match rs.norm with
      | none => rs
      | some a1 =>
          let rt := absExec f t a1
          ⟨rt.norm, joinO rs.exc rt.exc, joinO rs.ret rt.ret⟩
  | .ite s t, a => (absExec f s a).join (absExec f t a)
  | .loop b, a =>
      if touches b then ⟨some Abs.top, some Abs.top, some Abs.top⟩ else ⟨some a, some a, some a⟩
  | .tryFinally b fin, a =>
      let rb := absExec f b a
      let after : Option Abs → Res := fun x => match x with
        | none => Res.none
        | some ax => absExec f fin ax
      let fn := after rb.norm
      let fe := after rb.exc
      let fr := after rb.ret
      ⟨fn.norm,
       joinO fe.norm (joinO fn.exc (joinO fe.exc fr.exc)),
       joinO fr.norm (joinO fn.ret (joinO fe.ret fr.ret))⟩
  | .tryExcept b h catchAll, a =>
      let rb := absExec f b a
      let rh : Res := match rb.exc with
        | none => Res.none
        | some ae => absExec f h ae
      ⟨joinO rb.norm rh.norm, joinO (if catchAll then none else rb.exc) rh.exc, joinO rb.ret rh.ret⟩

def okO : Option Abs → Bool
  | none => true
  | some a => a.clean

/-- at every exit (normal, exception, return) field `f` certainly holds its entry value -/
def restoresField (f : Field) (s : Stmt) : Bool :=
  let r := absExec f s ⟨true, []⟩
  okO r.norm && okO r.exc && okO r.ret

def fieldsOf : Stmt → List Field
  | .save _ f | .setNew f | .restore f _ => [f]
  | .seq a b | .ite a b | .tryFinally a b | .tryExcept a b _ => fieldsOf a ++ fieldsOf b
  | .loop b => fieldsOf b
  | _ => []

/-- assigned fields only -/
def assignedFields : Stmt → List Field
  | .setNew f | .restore f _ => [f]
  | .seq a b | .ite a b | .tryFinally a b | .tryExcept a b _ => assignedFields a ++ assignedFields b
  | .loop b => assignedFields b
  | _ => []

def restores (s : Stmt) : Bool := (assignedFields s).all (fun f => restoresField f s)

/-! ### caller-owned objects written -/

def writesTo : Stmt → List String
  | .write (.caller n) => [n]
  | .seq a b | .ite a b | .tryFinally a b | .tryExcept a b _ => writesTo a ++ writesTo b
  | .loop b => writesTo b
  | _ => []

/-! ### counter-example search: raise at the k-th dynamic call, all other decisions constant `c` -/

def size : Stmt → Nat
  | .seq a b | .ite a b | .tryFinally a b | .tryExcept a b _ => size a + size b + 1
  | .loop b => size b + 1
  | _ => 1

def crashOracle (k c : Nat) : Oracle := ⟨fun i => i == k, fun _ => c⟩

def σ0 : State := ⟨fun _ => -1, fun _ => -2, [], 0, 0⟩

def leaksAt (s : Stmt) (k c : Nat) : Bool :=
  let r := exec (crashOracle k c) s σ0
  (assignedFields s).any (fun f => r.2.settings f ≠ σ0.settings f)

def candidates (s : Stmt) : List (Nat × Nat) :=
  (List.range (size s + 1)).flatMap (fun k => [(k, 1), (k, 0), (k, 2)])

def witness (s : Stmt) : Option (Nat × Nat) := (candidates s).find? (fun p => leaksAt s p.1 p.2)

/-- number of dynamic calls executed before the crash (for the harness: which call to hit) -/
def callsAt (s : Stmt) (k c : Nat) : Nat := (exec (crashOracle k c) s σ0).2.nc

/-! ### wire format (prefix notation) and driver

  `bracket <tokens…>` where
     S := skip | save v f | setnew f | restore f v | call | writecaller <name> | writecopy | writefresh | raise | ret
        | seq S S | ite S S | loop S | tryfinally S S | tryexcept (0|1) S S
  → `restores <0|1> witness <none | k c> writes <n> name{n} fields <n> f{n}` -/

def parseStmt : Nat → List String → Option (Stmt × List String)
  | 0, _ => none
  | fuel + 1, toks =>
      match toks with
      | "skip" :: r => some (.skip, r)
      | "save" :: v :: f :: r => do some (.save (← v.toNat?) (← f.toNat?), r)
      | "setnew" :: f :: r => do some (.setNew (← f.toNat?), r)
      | "restore" :: f :: v :: r => do some (.restore (← f.toNat?) (← v.toNat?), r)
      | "call" :: r => some (.call "", r)
      | "writecaller" :: n :: r => some (.write (.caller n), r)
      | "writecopy" :: r => some (.write .copy, r)
      | "writefresh" :: r => some (.write .fresh, r)
      | "raise" :: r => some (.raise, r)
      | "ret" :: r => some (.ret, r)
      | "seq" :: r => do
          let (a, r1) ← parseStmt fuel r
          let (b, r2) ← parseStmt fuel r1
          some (.seq a b, r2)
      | "ite" :: r => do
          let (a, r1) ← parseStmt fuel r
          let (b, r2) ← parseStmt fuel r1
          some (.ite a b, r2)
      | "loop" :: r => do
          let (a, r1) ← parseStmt fuel r
          some (.loop a, r1)
      | "tryfinally" :: r => do
          let (a, r1) ← parseStmt fuel r
          let (b, r2) ← parseStmt fuel r1
          some (.tryFinally a b, r2)
      | "tryexcept" :: c :: r => do
          let (a, r1) ← parseStmt fuel r
          let (b, r2) ← parseStmt fuel r1
          some (.tryExcept a b (c = "1"), r2)
      | _ => none

/-- canonical rendering (used to check that the generated Lean term and the wire term are the same skeleton) -/
def render : Stmt → String
  | .skip => "skip"
  | .save v f => s!"save {v} {f}"
  | .setNew f => s!"setnew {f}"
  | .restore f v => s!"restore {f} {v}"
  | .call _ => "call"
  | .write (.caller n) => s!"writecaller {n}"
  | .write .copy => "writecopy"
  | .write .fresh => "writefresh"
  | .raise => "raise"
  | .ret => "ret"
  | .seq a b => s!"seq {render a} {render b}"
  | .ite a b => s!"ite {render a} {render b}"
  | .loop a => s!"loop {render a}"
  | .tryFinally a b => s!"tryfinally {render a} {render b}"
  | .tryExcept a b c => s!"tryexcept {if c then 1 else 0} {render a} {render b}"

def report (s : Stmt) : String :=
  let w := match witness s with
    | none => "none"
    | some (k, c) => s!"{k} {c} {callsAt s k c}"
  let ws := (writesTo s).eraseDups
  let fs := (assignedFields s).eraseDups
  s!"restores {if restores s then 1 else 0} witness {w} writes {ws.length}" ++
    String.join (ws.map (" " ++ ·)) ++ s!" fields {fs.length}" ++ String.join (fs.map (fun f => " " ++ toString f))

def handle (toks : List String) : Option String := do
  let (s, r) ← parseStmt (toks.length + 1) toks
  if r ≠ [] then none else some (report s)

end Atomica.Protocol.Bracket
