/-
  AtomicaModel.Basic — shared definitions for the executable model (core Lean only, no Mathlib).
  Numbers are exact rationals (core `Rat`).  Every division the Python code performs is modelled by
  `divQ`, which is `none` at a zero denominator, so that "never NaN" is never true for the wrong reason.
-/
namespace Atomica

/-- Sum `f 0 + … + f (n-1)` by structural recursion (bridged to `Finset.sum (range n)` in the proofs). -/
def sumTo : Nat → (Nat → Rat) → Rat
  | 0, _ => 0
  | n + 1, f => sumTo n f + f n

/-- Checked division: `none` when the denominator is zero (Python: NaN/inf or ZeroDivisionError). -/
def divQ (a b : Rat) : Option Rat := if b = 0 then none else some (a / b)

def listSum (l : List Rat) : Rat := l.foldr (· + ·) 0

def clipLo (lo x : Rat) : Rat := if x < lo then lo else x
def clipHi (hi x : Rat) : Rat := if x > hi then hi else x

/-! ### Wire format helpers (used by the driver only) -/

def parseInt? (s : String) : Option Int := s.toInt?

/-- Parse `p/q`, `p`, `-p/q`. -/
def parseRat? (s : String) : Option Rat :=
  match s.splitOn "/" with
  | [p] => (parseInt? p).map (fun i => (i : Rat))
  | [p, q] => do
      let pi ← parseInt? p
      let qi ← parseInt? q
      if qi = 0 then none else some ((pi : Rat) / (qi : Rat))
  | _ => none

def showRat (r : Rat) : String :=
  if r.den = 1 then toString r.num else toString r.num ++ "/" ++ toString r.den

def showOptRat : Option Rat → String
  | none => "nan"
  | some r => showRat r

def showRats (l : List Rat) : String := " ".intercalate (l.map showRat)

def parseRats? (l : List String) : Option (List Rat) := l.mapM parseRat?

end Atomica
