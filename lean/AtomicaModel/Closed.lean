/-
  AtomicaModel.Closed — a CLOSED-LOOP model of a whole `atomica` simulation (C03 "independent re-implementation"; serves C06/C09).

  `Engine.step` takes the parameter values of a step as an input.  Here they are *computed* from the specification and the
  current state, exactly as `Model.build` + `Model.update_pars` + `Parameter.update/constrain` + `Characteristic.update` do,
  and the whole start-up sequence and main loop of `Model.process` is run from the specification alone:

      simulate : Spec → Option (List (Stock × Flow))           -- one entry (stock, flows) per time index

  Composition of pieces that exist already (none of them is changed):
    `Engine.step / flushAll`  (one integration step / the initial junction flush),
    `Series.interpLinear`     (`TimeSeries.interpolate`, databook values on the grid),
    `Expr.evalCurrent`        (parameter functions: the parsed Python tree after `_DivTransformer`, `sdiv`, `max`, `min`, `floor`, comparisons),
    `Grid.point`              (time of index `i` = `start + i*dt`).

  What one time index does (`evalPars`, mirror of `update_pars` at `ti`):
    1. characteristics in dependency order (`Characteristic.update`): Σ members, divided by the denominator when it is > 0;
       denominator ≤ 0: 0 when the numerator is < 1e-6, otherwise `inf` (here: no value);
    2. every parameter starts from its databook value  clip(interp(data, t) · scale)   (`Model.build`: insertion + `constrain()`),
    3. parameters with a function, in execution order (`_exec_order['all_pars']`, flattened over populations):
         value := clip(scale · f(dependencies))          (`Parameter.update(ti)`; `Parameter.constrain(ti)`)
       population aggregations (SRC/TGT_POP_AVG/SUM):
         value := clip(scale · Σ_j w_j·[wvar_j]·var_j / [Σ_j w_j·[wvar_j] or 1 if that is 0])   (`update_pars`, aggregation block)
    All function parameters are evaluated at every index.  The code evaluates "precompute" parameters once, vectorised, before the
    run (they depend on nothing the run changes: `evalPars_static` in C03Closed.lean), "dynamic" ones at every index, and
    "postcompute" ones after the run (nothing reads them; they may depend on link flows, which are `none` here = no claim).
    `derivative` parameters and `skip_function` windows are not modelled (such specifications are excluded by the harness).

  Values are `Option Rat`: `none` = NaN / inf / not modelled (no claim).  A step is defined only when every parameter that drives
  a link has a value; `Engine.step` itself is `none` at a 0/0 junction.

  Start-up (`Model.process`): parameters on the initial stocks, `flushAll`, parameters again, then the loop
  `step` (= `update_links` at index i, `update_comps` to index i+1), parameters at i+1, …

  The driver requests (`csim`, `csimref`, `cwf`) are at the end; `csim` evaluates stage by stage through arrays (pure
  memoisation, see EngineIO), `csimref` calls `simulate` verbatim; the harness cross-checks the two.
-/
import AtomicaModel.Engine
import AtomicaModel.EngineIO
import AtomicaModel.Series
import AtomicaModel.Expr
import AtomicaModel.Grid
namespace Atomica.Closed
open Atomica Atomica.Engine

/-! ### specification -/

/-- what a name in a parameter function, a characteristic member or an aggregation refers to (flattened, global indices) -/
inductive Ref where
  | comp (c : Nat)      -- compartment size: sum of its rows (`comp[ti]`)
  | charac (k : Nat)    -- characteristic value at this index
  | par (p : Nat)       -- parameter value at this index
  | flow (l : Nat)      -- link flow / dt: output-only (known after the step; a parameter that drives anything may not use it)
  | time                -- `t`
  | step                -- `dt`
  deriving DecidableEq, Repr, Inhabited

structure CharSpec where
  includes : List Ref            -- `Characteristic.includes` (compartments / characteristics)
  denom : Option Ref             -- `Characteristic.denominator`
  deriving Repr, Inhabited

/-- one source/target population `j` of an aggregation for the parameter of population `i` -/
structure AggTerm where
  weight : Option (Series.TS × Rat)   -- interaction weight W[j,i] resp. W[i,j]: series and y_factor·meta_y_factor; `none` = no interaction (weight 1)
  var : Ref                           -- the aggregated variable in population j
  wvar : Option Ref                   -- optional weighting variable in population j
  deriving Repr, Inhabited

inductive ParKind where
  | data                                                     -- databook values only
  | fn (e : Expr.Py) (deps : List (String × List Ref))       -- function; a name stands for the SUM of the listed variables (`get_variable`)
  | agg (avg : Bool) (terms : List AggTerm)                  -- SRC/TGT_POP_AVG (avg) / SUM
  deriving Repr, Inhabited

structure ParSpec where
  data : Option Series.TS      -- databook series of this population (`none`: `has_values` is false)
  scale : Rat                  -- `Parameter.scale_factor` (y_factor · meta_y_factor)
  lo : Option Rat              -- `Parameter.limits[0]` (`none` = -inf / no limits)
  hi : Option Rat              -- `Parameter.limits[1]` (`none` = +inf / no limits)
  kind : ParKind
  deriving Repr, Inhabited

structure Spec where
  net : Net                    -- parameters `p < net.nP`: ALL parameters of all populations (link-driving ones first)
  nK : Nat
  characs : Nat → CharSpec
  corder : List Nat            -- a topological order of the characteristics
  pars : Nat → ParSpec
  porder : List Nat            -- `_exec_order['all_pars']`, flattened over populations
  start : Rat
  dt : Rat
  npts : Nat
  init : Stock                 -- stocks before the initial junction flush

abbrev Vals := Nat → Option Rat

def setAt (f : Vals) (k : Nat) (v : Option Rat) : Vals := fun j => if j = k then v else f j

/-- `model_settings["tolerance"]` -/
def tol : Rat := 1 / 1000000

/-! ### values of references -/

def refVal (net : Net) (x : Stock) (cv pv : Vals) (t dt : Rat) : Ref → Option Rat
  | .comp c => some (stockTotal net x c)
  | .charac k => cv k
  | .par p => pv p
  | .flow _ => none
  | .time => some t
  | .step => some dt

/-- `dep_vals[name] = 0.0; for dep in deps: dep_vals[name] += …` -/
def sumRefs (f : Ref → Option Rat) : List Ref → Option Rat
  | [] => some 0
  | r :: rs => Expr.addE (f r) (sumRefs f rs)

/-! ### characteristics (`Characteristic.update`) -/

def noVals : Vals := fun _ => none

def charVal (net : Net) (x : Stock) (cv : Vals) (cs : CharSpec) : Option Rat :=
  let f := refVal net x cv noVals 0 0
  match sumRefs f cs.includes with
  | none => none
  | some num =>
      match cs.denom with
      | none => some num
      | some d =>
          match f d with
          | none => none
          | some dv => if dv > 0 then some (num / dv) else if num < tol then some 0 else none

def charStep (s : Spec) (x : Stock) (cv : Vals) (k : Nat) : Vals := setAt cv k (charVal s.net x cv (s.characs k))

def evalCharacs (s : Spec) (x : Stock) : Vals := s.corder.foldl (charStep s x) noVals

/-! ### parameters -/

/-- `Parameter.constrain`: `if v < lo: v = lo; if v > hi: v = hi` (= `np.clip(v, lo, hi)`) -/
def clipLim (lo hi : Option Rat) (v : Rat) : Rat :=
  let v1 := match lo with
    | some l => clipLo l v
    | none => v
  match hi with
  | some h => clipHi h v1
  | none => v1

/-- `Model.build`: `par.vals = cascade_par.interpolate(t) * par.scale_factor; par.constrain()` -/
def baseVal (ps : ParSpec) (t : Rat) : Option Rat :=
  match ps.data with
  | none => none
  | some ts =>
      match Series.interpLinear ts t with
      | .val r => some (clipLim ps.lo ps.hi (r * ps.scale))
      | _ => none

def envOf (f : Ref → Option Rat) (deps : List (String × List Ref)) : Expr.Env :=
  fun name => (deps.lookup name).map (fun refs => Expr.Val.sc (sumRefs f refs))

/-- `self._fcn(**dep_vals)` as a scalar -/
def evalFn (e : Expr.Py) (env : Expr.Env) : Option Rat :=
  match Expr.evalCurrent Expr.wl env e with
  | some (.sc (some r)) => some r
  | _ => none

def weightAt (w : Option (Series.TS × Rat)) (t : Rat) : Option Rat :=
  match w with
  | none => some 1
  | some (ts, sc) =>
      match Series.interpLinear ts t with
      | .val r => some (r * sc)
      | _ => none

/-- effective weight of a term: interaction weight × weighting variable -/
def termWeight (f : Ref → Option Rat) (t : Rat) (tm : AggTerm) : Option Rat :=
  match tm.wvar with
  | none => weightAt tm.weight t
  | some wv => Expr.mulE (weightAt tm.weight t) (f wv)

def aggNum (f : Ref → Option Rat) (t : Rat) : List AggTerm → Option Rat
  | [] => some 0
  | tm :: r => Expr.addE (Expr.mulE (termWeight f t tm) (f tm.var)) (aggNum f t r)

def aggDen (f : Ref → Option Rat) (t : Rat) : List AggTerm → Option Rat
  | [] => some 0
  | tm :: r => Expr.addE (termWeight f t tm) (aggDen f t r)

/-- `update_pars`, aggregation block: `norm[norm == 0] = 1; weights /= norm; matmul(weights, vals)` -/
def aggVal (f : Ref → Option Rat) (t : Rat) (avg : Bool) (terms : List AggTerm) : Option Rat :=
  match aggNum f t terms with
  | none => none
  | some n =>
      if avg then
        match aggDen f t terms with
        | none => none
        | some d => some (n / (if d = 0 then 1 else d))
      else some n

/-- the un-clipped, un-scaled value a function / aggregation parameter computes from the current values -/
def rawVal (f : Ref → Option Rat) (t : Rat) : ParKind → Option Rat
  | .data => none
  | .fn e deps => evalFn e (envOf f deps)
  | .agg avg terms => aggVal f t avg terms

/-- new value of parameter `p` given the values so far: unchanged for a data parameter, `clip(scale · raw)` otherwise -/
def parVal (s : Spec) (t : Rat) (x : Stock) (cv pv : Vals) (p : Nat) : Option Rat :=
  let ps := s.pars p
  match ps.kind with
  | .data => pv p
  | k => (rawVal (refVal s.net x cv pv t s.dt) t k).map (fun v => clipLim ps.lo ps.hi (ps.scale * v))

def parStep (s : Spec) (t : Rat) (x : Stock) (cv : Vals) (pv : Vals) (p : Nat) : Vals := setAt pv p (parVal s t x cv pv p)

def basePars (s : Spec) (t : Rat) : Vals := fun p => baseVal (s.pars p) t

/-- all parameter values of time index `i` on stock `x` -/
def evalPars (s : Spec) (i : Nat) (x : Stock) : Vals :=
  let t := Grid.point s.start s.dt i
  s.porder.foldl (parStep s t x (evalCharacs s x)) (basePars s t)

/-! ### closing the loop -/

/-- the total function `Engine.step` reads (only consulted where `linkParsDefined`) -/
def pvOf (v : Vals) : Nat → Rat := fun p => (v p).getD 0

/-- every parameter that drives a link has a value -/
def linkParsDefined (net : Net) (v : Vals) : Bool :=
  allBelow net.nL (fun l => match net.par l with
    | some p => (v p).isSome
    | none => true)

/-- `update_pars(); update_links()` at index `i`, `update_comps()` to index `i+1` -/
def stepClosed (s : Spec) (i : Nat) (x : Stock) : Option (Flow × Stock) :=
  let v := evalPars s i x
  if linkParsDefined s.net v then Engine.step s.net s.dt (pvOf v) x else none

/-- main loop from index `i`, `n` indices: entries `(stock at j, flows at j)` -/
def runClosed (s : Spec) : Nat → Nat → Stock → Option (List (Stock × Flow))
  | _, 0, _ => some []
  | i, n + 1, x =>
      match stepClosed s i x with
      | none => none
      | some (fl, x') =>
          match runClosed s (i + 1) n x' with
          | none => none
          | some rest => some ((x, fl) :: rest)

/-- `update_pars(); flush_junctions()` on the initial stocks -/
def startClosed (s : Spec) : Option Stock :=
  let v := evalPars s 0 s.init
  if linkParsDefined s.net v then flushAll s.net (pvOf v) s.init s.net.jorder else none

/-- a whole simulation with `n` time points -/
def simulateN (s : Spec) (n : Nat) : Option (List (Stock × Flow)) :=
  (startClosed s).bind (fun x0 => runClosed s 0 n x0)

def simulate (s : Spec) : Option (List (Stock × Flow)) := simulateN s s.npts

/-! ### decidable well-formedness of a specification (evaluated by the driver on every extracted spec) -/

def parRefsOf : List Ref → List Nat
  | [] => []
  | .par p :: r => p :: parRefsOf r
  | _ :: r => parRefsOf r

def characRefsOf : List Ref → List Nat
  | [] => []
  | .charac k :: r => k :: characRefsOf r
  | _ :: r => characRefsOf r

def termRefs (tm : AggTerm) : List Ref :=
  tm.var :: (match tm.wvar with
    | some w => [w]
    | none => [])

/-- every variable a parameter reads -/
def kindRefs : ParKind → List Ref
  | .data => []
  | .fn _ deps => deps.flatMap (fun d => d.2)
  | .agg _ terms => terms.flatMap termRefs

def isData (ps : ParSpec) : Bool :=
  match ps.kind with
  | .data => true
  | _ => false

/-- the execution order is duplicate-free and topological for the dependency relation: every parameter a function reads is
    a data parameter or has been evaluated before (`done` = already evaluated) -/
def okOrder (s : Spec) : List Nat → List Nat → Bool
  | _, [] => true
  | done, p :: rest =>
      !(done.contains p)
      && (parRefsOf (kindRefs (s.pars p).kind)).all (fun q => isData (s.pars q) || done.contains q)
      && okOrder s (p :: done) rest

def depsBefore (s : Spec) : Bool := okOrder s [] s.porder

def charRefs (cs : CharSpec) : List Ref :=
  cs.includes ++ (match cs.denom with
    | some d => [d]
    | none => [])

def okCOrder (s : Spec) : List Nat → List Nat → Bool
  | _, [] => true
  | done, k :: rest =>
      !(done.contains k)
      && (characRefsOf (charRefs (s.characs k))).all (fun j => done.contains j)
      && okCOrder s (k :: done) rest

def refOk (s : Spec) (inChar : Bool) : Ref → Bool
  | .comp c => c < s.net.nC
  | .charac k => k < s.nK
  | .par p => !inChar && p < s.net.nP
  | .flow l => !inChar && l < s.net.nL
  | .time => !inChar
  | .step => !inChar

def wfSpec (s : Spec) : Bool :=
  wfCheck s.net && wfGroupRows s.net && resCheck s.net
  && decide (0 < s.dt)
  && depsBefore s
  && okCOrder s [] s.corder
  -- every characteristic / every function parameter is evaluated; indices are in range
  && allBelow s.nK (fun k => s.corder.contains k && (charRefs (s.characs k)).all (refOk s true))
  && s.corder.all (fun k => k < s.nK)
  && allBelow s.net.nP (fun p => (isData (s.pars p) || s.porder.contains p) && (kindRefs (s.pars p).kind).all (refOk s false))
  && s.porder.all (fun p => p < s.net.nP)

/-- decidable: every parameter that drives a junction outflow has a lower limit ≥ 0 that is consistent with its upper limit -/
def propsClipped (s : Spec) : Bool :=
  allBelow s.net.nL (fun l => !(isJunction s.net (s.net.src l)) ||
    (match s.net.par l with
     | none => true
     | some p =>
        (match (s.pars p).lo, (s.pars p).hi with
         | some lo, none => decide (0 ≤ lo)
         | some lo, some hi => decide (0 ≤ lo) && decide (lo ≤ hi)
         | none, _ => false)))

/-! ### driver: wire format

  csim <budget bits> <net> <start> <dt> <npts>
       <nK> { <nInc> <ref>… <hasDenom 0|1> [<ref>] }×nK  <corder: nK indices>
       { <par> }×nP   <nOrder> <porder…>   <stock…>
  <ref>  = `c i` | `k i` | `p i` | `l i` | `t 0` | `d 0`
  <ts>   = <assumption|nan> <n> t1 v1 … tn vn
  <par>  = <hasData 0|1> [<ts>] <scale> <lo|-> <hi|-> <kind>
  <kind> = `D` | `F <nDeps> { <name> <nRefs> <ref>… }… <tree>` | `A <avg 0|1> <nTerms> { <hasW 0|1> [<ts> <scale>] <ref> <hasWv 0|1> [<ref>] }…`
  reply  = `ok <m>` then per computed index ` | <stock…> ; <flows…> ; <pars…>`, then (if m < npts) ` | nan <flush|par|step|big>`;
           `err wf` when `wfSpec` fails.
-/

def pRef : P Ref := do
  let k ← tok
  let i ← pNat
  match k with
  | "c" => pure (.comp i) | "k" => pure (.charac i) | "p" => pure (.par i) | "l" => pure (.flow i)
  | "t" => pure .time | "d" => pure .step
  | _ => failure

def pList {α} (p : P α) : P (List α) := do
  let n ← pNat
  let a ← pMany n p
  pure a.toList

def pOptRatNan : P (Option Rat) := do
  let t ← tok
  match Series.parseOptRat? t with
  | some v => pure v
  | none => failure

def pOptRatDash : P (Option Rat) := do
  let t ← tok
  if t = "-" then pure none else
  match parseRat? t with
  | some v => pure (some v)
  | none => failure

def pTS : P Series.TS := do
  let a ← pOptRatNan
  let raw ← pList (do let t ← pOptRatNan; let v ← pOptRatNan; pure (t, v))
  pure { raw := raw, assumption := a }

def pOpt {α} (p : P α) : P (Option α) := do
  if (← pBool) then (do let a ← p; pure (some a)) else pure none

def pTree : P Expr.Py := do
  let toks ← get
  match Expr.parseNode (toks.length + 1) toks with
  | some (e, rest) => set rest; pure e
  | none => failure

def pChar : P CharSpec := do
  let inc ← pList pRef
  let d ← pOpt pRef
  pure { includes := inc, denom := d }

def pTerm : P AggTerm := do
  let w ← pOpt (do let ts ← pTS; let sc ← pRat; pure (ts, sc))
  let v ← pRef
  let wv ← pOpt pRef
  pure { weight := w, var := v, wvar := wv }

def pKindP : P ParKind := do
  match (← tok) with
  | "D" => pure .data
  | "F" =>
      let deps ← pList (do let name ← tok; let refs ← pList pRef; pure (name, refs))
      let e ← pTree
      pure (.fn e deps)
  | "A" =>
      let avg ← pBool
      let terms ← pList pTerm
      pure (.agg avg terms)
  | _ => failure

def pPar : P ParSpec := do
  let data ← pOpt pTS
  let scale ← pRat
  let lo ← pOptRatDash
  let hi ← pOptRatDash
  let kind ← pKindP
  pure { data, scale, lo, hi, kind }

def pSpec : P Spec := do
  let net ← pNet
  let start ← pRat
  let dt ← pRat
  let npts ← pNat
  let nK ← pNat
  let chars ← pMany nK pChar
  let corder ← pMany nK pNat
  let pars ← pMany net.nP pPar
  let porder ← pList pNat
  let init ← pStock net
  pure { net, nK, characs := fun k => chars.getD k default, corder := corder.toList,
         pars := fun p => pars.getD p default, porder, start, dt, npts, init }

/-! memoised evaluation: every stage is tabulated into arrays before the next one reads it (same values) -/

def ofArr (a : Array (Option Rat)) : Vals := fun j => a.getD j none

def evalCharacsA (s : Spec) (x : Stock) : Array (Option Rat) :=
  s.corder.foldl (fun a k => a.setIfInBounds k (charVal s.net x (ofArr a) (s.characs k))) (Array.replicate s.nK none)

def evalParsA (s : Spec) (i : Nat) (x : Stock) : Array (Option Rat) :=
  let t := Grid.point s.start s.dt i
  let cv := ofArr (evalCharacsA s x)
  s.porder.foldl (fun a p => a.setIfInBounds p (parVal s t x cv (ofArr a) p))
    ((Array.range s.net.nP).map (fun p => baseVal (s.pars p) t))

/-- `Engine.step` stage by stage (as `Engine.handleStep`) -/
def stepA (net : Net) (dt : Rat) (pvf : Nat → Rat) (x : Stock) : Option (Array (Array Rat) × Array (Array Rat)) :=
  let cacheA := (Array.range net.nL).map (fun l => convert net dt pvf x l)
  let cache := fun l => cacheA.getD l 0
  let fl0 := tabFlow net (resolveFlow net cache x)
  let rec bal (a : Array (Array Rat)) : List Nat → Option (Array (Array Rat))
    | [] => some a
    | j :: js => match balanceOne net pvf (ofTab a) j with
        | none => none
        | some fl' => bal (tabFlow net fl') js
  match bal fl0 net.jorder with
  | none => none
  | some a => some (a, tabStock net (updateComps net x (ofTab a)))

def flushA (net : Net) (pvf : Nat → Rat) (x : Stock) : Option (Array (Array Rat)) :=
  let rec go (a : Array (Array Rat)) : List Nat → Option (Array (Array Rat))
    | [] => some a
    | j :: js => match flushOne net pvf (ofTab a) j with
        | none => none
        | some x' => go (tabStock net x') js
  go (tabStock net x) net.jorder

def showVals (n : Nat) (v : Vals) : String :=
  " ".intercalate ((List.range n).map (fun p => showOptRat (v p)))

/-- the loop of `csim`: returns the reply sections produced so far and the reason for stopping early (if any) -/
def bitsOf (a : Array (Array Rat)) : Nat :=
  a.foldl (fun m row => row.foldl (fun m r => max m (Nat.log2 r.den + Nat.log2 r.num.natAbs)) m) 0

def loopA (s : Spec) (budget : Nat) : Nat → Nat → Array (Array Rat) → List String → List String × Option String
  | _, 0, _, acc => (acc.reverse, none)
  | i, n + 1, xa, acc =>
      -- exact rationals grow quickly in closed loop: stop (reply `nan big`) when a stock needs more than `budget` bits;
      -- the computed prefix is the trajectory of the shorter run (`simulateN_prefix`)
      if bitsOf xa > budget then (acc.reverse, some "big") else
      let x := ofTab xa
      let va := evalParsA s i x
      let v := ofArr va
      if !(linkParsDefined s.net v) then (acc.reverse, some "par") else
      match stepA s.net s.dt (pvOf v) x with
      | none => (acc.reverse, some "step")
      | some (fa, xa') =>
          let sec := showStock s.net x ++ " ; " ++ showFlow s.net (ofTab fa) ++ " ; " ++ showVals s.net.nP v
          loopA s budget (i + 1) n xa' (sec :: acc)

def reply (secs : List String) (stop : Option String) : String :=
  let body := secs.foldl (fun a b => a ++ " | " ++ b) ("ok " ++ toString secs.length)
  match stop with
  | none => body
  | some r => body ++ " | nan " ++ r

def handleSim (args : List String) : Option String :=
  runP (do
    let budget ← pNat
    let s ← pSpec
    if !(wfSpec s) then pure "err wf" else
    let v0 := ofArr (evalParsA s 0 s.init)
    if !(linkParsDefined s.net v0) then pure (reply [] (some "flush")) else
    match flushA s.net (pvOf v0) s.init with
    | none => pure (reply [] (some "flush"))
    | some xa =>
        let (secs, stop) := loopA s budget 0 s.npts xa []
        pure (reply secs stop)) args

/-- reference path: `simulate` exactly as the theorems state it (no memoisation; tiny cases only) -/
def handleSimRef (args : List String) : Option String :=
  runP (do
    let s ← pSpec
    if !(wfSpec s) then pure "err wf" else
    match simulate s with
    | none => pure "nan"
    | some traj =>
        pure (reply (traj.map (fun e => showStock s.net e.1 ++ " ; " ++ showFlow s.net e.2)) none)) args

/-- `cwf <spec>` → the individual checks -/
def handleWf (args : List String) : Option String :=
  runP (do
    let s ← pSpec
    pure ("net=" ++ toString (wfCheck s.net && wfGroupRows s.net && resCheck s.net)
      ++ " depsBefore=" ++ toString (depsBefore s) ++ " characs=" ++ toString (okCOrder s [] s.corder)
      ++ " props=" ++ toString (propsClipped s) ++ " all=" ++ toString (wfSpec s))) args

/-- `cpars <spec>` → parameter values of index 0 on the initial stocks (pre-flush evaluation), reference path -/
def handleParsRef (args : List String) : Option String :=
  runP (do
    let s ← pSpec
    if !(wfSpec s) then pure "err wf" else
    pure (showVals s.net.nP (evalPars s 0 s.init))) args

end Atomica.Closed
