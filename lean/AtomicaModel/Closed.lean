/-
  AtomicaModel.Closed — a CLOSED-LOOP model of a whole `atomica` simulation (C03 "independent re-implementation"; serves C06/C09).

  `Engine.step` takes the parameter values of a step as an input.  Here they are *computed* from the specification and the
  current state, exactly as `Model.build` + `Model.update_pars` + `Parameter.update/constrain` + `Characteristic.update` do,
  and the whole start-up sequence and main loop of `Model.process` is run from the specification alone:

      simulate : Spec → Option (List (Stock × Flow))           -- one entry (stock, flows) per time index
  (loop state: the stocks and the current values of the derivative parameters)

  Composition of pieces that exist already (none of them is changed):
    `Engine.step / flushAll`  (one integration step / the initial junction flush),
    `Series.interpLinear`     (`TimeSeries.interpolate`, databook values on the grid),
    `Expr.evalCurrent`        (parameter functions: the parsed Python tree after `_DivTransformer`, `sdiv`, `max`, `min`, `floor`, comparisons),
    `Grid.point`              (time of index `i` = `start + i*dt`).

  What one time index does (`evalPars`, mirror of `update_pars` at `ti`):
    1. characteristics in dependency order (`Characteristic.update`): Σ members, divided by the denominator when it is > 0;
       denominator ≤ 0: 0 when the numerator is < 1e-6, otherwise `inf` (here: no value);
    2. every parameter starts from its databook value  clip(interp(data, t) · scale)   (`Model.build`: insertion + `constrain()`),
    3. parameters with a function, in execution order (`_exec_order['all_pars']`, flattened over populations):
         value := clip(scale · f(dependencies))          (`Parameter.update(ti)`; `Parameter.constrain(ti)`)
       population aggregations (SRC/TGT_POP_AVG/SUM):
         value := clip(scale · Σ_j w_j·[wvar_j]·var_j / [Σ_j w_j·[wvar_j] or 1 if that is 0])   (`update_pars`, aggregation block)
    All function parameters are evaluated at every index.  The code evaluates "precompute" parameters once, vectorised, before the
    run (they depend on nothing the run changes: `evalPars_static` in C03Closed.lean), "dynamic" ones at every index, and
    "postcompute" ones after the run (nothing reads them; they may depend on link flows, which are `none` here = no claim).
    4. skip windows (`Parameter.skip_function = (lo, hi)`, written by `ParameterScenario.get_parset` for function parameters): while
       `lo ≤ t ≤ hi` neither the function nor the aggregation is evaluated and the databook (scenario) value of step 2 stands — in
       all three schedules (`Parameter.update` filters the indices, `Model.build` inserts the databook values of a precompute
       parameter that has a window);
    5. derivative parameters (`Parameter.derivative`): the loop state carries their current values `d`.  At index `i` every reader
       sees `d p`; when `update_pars` reaches the parameter in the execution order it evaluates the rate `scale · f(values so far)`
       and writes `value[i+1] = clip(d p + rate · dt)` (`advVal`, `advStep`); `update_links` of index `i` runs afterwards and still
       reads `value[i]`.  Index 0: the databook value (`initD`); the Euler step taken by the pre-flush `update_pars` is overwritten
       by the post-flush one.  Not modelled (refused by `wfSpec`, counted by the harness): a derivative parameter with a skip
       window (the code goes on stepping with a stale `_dx`, or raises when the window opens at the first point) or that is an
       aggregation.
    Several population types need nothing here: a specification is flat (one global index per (parameter, population) that
    exists), the extraction resolves which variables exist in which population and which populations an aggregation ranges over.

  Values are `Option Rat`: `none` = NaN / inf / not modelled (no claim).  A step is defined only when every parameter that drives
  a link has a value; `Engine.step` itself is `none` at a 0/0 junction.

  Start-up (`Model.process`): parameters on the initial stocks, `flushAll`, parameters again, then the loop
  `step` (= `update_links` at index i, `update_comps` to index i+1), parameters at i+1, …

  The driver requests (`csim`, `csimref`, `cwf`) are at the end; `csim` evaluates stage by stage through arrays (pure
  memoisation, see EngineIO), `csimref` calls `simulate` verbatim; the harness cross-checks the two.
-/
import AtomicaModel.Engine
import AtomicaModel.EngineIO
import AtomicaModel.Series
import AtomicaModel.Expr
import AtomicaModel.Grid
import AtomicaModel.Params
namespace Atomica.Closed
open Atomica Atomica.Engine

/-! ### specification -/

/-- what a name in a parameter function, a characteristic member or an aggregation refers to (flattened, global indices) -/
inductive Ref where
  | comp (c : Nat)      -- compartment size: sum of its rows (`comp[ti]`)
  | charac (k : Nat)    -- characteristic value at this index
  | par (p : Nat)       -- parameter value at this index
  | flow (l : Nat)      -- link flow / dt: output-only (known after the step; a parameter that drives anything may not use it)
  | time                -- `t`
  | step                -- `dt`
  deriving DecidableEq, Repr, Inhabited

structure CharSpec where
  includes : List Ref            -- `Characteristic.includes` (compartments / characteristics)
  denom : Option Ref             -- `Characteristic.denominator`
  deriving Repr, Inhabited

/-- one source/target population `j` of an aggregation for the parameter of population `i` -/
structure AggTerm where
  weight : Option (Series.TS × Rat)   -- interaction weight W[j,i] resp. W[i,j]: series and y_factor·meta_y_factor; `none` = no interaction (weight 1)
  var : Ref                           -- the aggregated variable in population j
  wvar : Option Ref                   -- optional weighting variable in population j
  deriving Repr, Inhabited

inductive ParKind where
  | data                                                     -- databook values only
  | fn (e : Expr.Py) (deps : List (String × List Ref))       -- function; a name stands for the SUM of the listed variables (`get_variable`)
  | agg (avg : Bool) (terms : List AggTerm)                  -- SRC/TGT_POP_AVG (avg) / SUM
  deriving Repr, Inhabited

structure ParSpec where
  data : Option Series.TS      -- databook series of this population (`none`: `has_values` is false)
  scale : Rat                  -- `Parameter.scale_factor` (y_factor · meta_y_factor)
  lo : Option Rat              -- `Parameter.limits[0]` (`none` = -inf / no limits)
  hi : Option Rat              -- `Parameter.limits[1]` (`none` = +inf / no limits)
  kind : ParKind
  /-- `Parameter.skip_function = (lo, hi)`: while `lo ≤ t ≤ hi` the function / aggregation is NOT evaluated and the databook value
      (for a parameter scenario: the pre-interpolated scenario series) stands.  `Params.Window` is the closed window of the code
      (`hi = none` is `+inf`, which is what `ParameterScenario.get_parset` writes). -/
  skip : Option Params.Window := none
  /-- `Parameter.derivative` ("is derivative" in the framework): the function is the RATE OF CHANGE of the parameter.  The value of
      index 0 is the databook value; `update_pars` at index `i` evaluates `_dx = scale · f(values of index i)` at the parameter's
      place in the execution order and writes `value[i+1] = value[i] + _dx · dt`, clipped (`constrain(i+1)`), BEFORE `update_links`
      of index `i` — which, like every reader at index `i`, sees `value[i]`. -/
  deriv : Bool := false
  deriving Repr, Inhabited

structure Spec where
  net : Net                    -- parameters `p < net.nP`: ALL parameters of all populations (link-driving ones first)
  nK : Nat
  characs : Nat → CharSpec
  corder : List Nat            -- a topological order of the characteristics
  pars : Nat → ParSpec
  porder : List Nat            -- `_exec_order['all_pars']`, flattened over populations
  start : Rat
  dt : Rat
  npts : Nat
  init : Stock                 -- stocks before the initial junction flush

abbrev Vals := Nat → Option Rat

def setAt (f : Vals) (k : Nat) (v : Option Rat) : Vals := fun j => if j = k then v else f j

/-- `model_settings["tolerance"]` -/
def tol : Rat := 1 / 1000000

/-! ### values of references -/

def refVal (net : Net) (x : Stock) (cv pv : Vals) (t dt : Rat) : Ref → Option Rat
  | .comp c => some (stockTotal net x c)
  | .charac k => cv k
  | .par p => pv p
  | .flow _ => none
  | .time => some t
  | .step => some dt

/-- `dep_vals[name] = 0.0; for dep in deps: dep_vals[name] += …` -/
def sumRefs (f : Ref → Option Rat) : List Ref → Option Rat
  | [] => some 0
  | r :: rs => Expr.addE (f r) (sumRefs f rs)

/-! ### characteristics (`Characteristic.update`) -/

def noVals : Vals := fun _ => none

def charVal (net : Net) (x : Stock) (cv : Vals) (cs : CharSpec) : Option Rat :=
  let f := refVal net x cv noVals 0 0
  match sumRefs f cs.includes with
  | none => none
  | some num =>
      match cs.denom with
      | none => some num
      | some d =>
          match f d with
          | none => none
          | some dv => if dv > 0 then some (num / dv) else if num < tol then some 0 else none

def charStep (s : Spec) (x : Stock) (cv : Vals) (k : Nat) : Vals := setAt cv k (charVal s.net x cv (s.characs k))

def evalCharacs (s : Spec) (x : Stock) : Vals := s.corder.foldl (charStep s x) noVals

/-! ### parameters -/

/-- `Parameter.constrain`: `if v < lo: v = lo; if v > hi: v = hi` (= `np.clip(v, lo, hi)`) -/
def clipLim (lo hi : Option Rat) (v : Rat) : Rat :=
  let v1 := match lo with
    | some l => clipLo l v
    | none => v
  match hi with
  | some h => clipHi h v1
  | none => v1

/-- `Model.build`: `par.vals = cascade_par.interpolate(t) * par.scale_factor; par.constrain()` -/
def baseVal (ps : ParSpec) (t : Rat) : Option Rat :=
  match ps.data with
  | none => none
  | some ts =>
      match Series.interpLinear ts t with
      | .val r => some (clipLim ps.lo ps.hi (r * ps.scale))
      | _ => none

def envOf (f : Ref → Option Rat) (deps : List (String × List Ref)) : Expr.Env :=
  fun name => (deps.lookup name).map (fun refs => Expr.Val.sc (sumRefs f refs))

/-- `self._fcn(**dep_vals)` as a scalar -/
def evalFn (e : Expr.Py) (env : Expr.Env) : Option Rat :=
  match Expr.evalCurrent Expr.wl env e with
  | some (.sc (some r)) => some r
  | _ => none

def weightAt (w : Option (Series.TS × Rat)) (t : Rat) : Option Rat :=
  match w with
  | none => some 1
  | some (ts, sc) =>
      match Series.interpLinear ts t with
      | .val r => some (r * sc)
      | _ => none

/-- effective weight of a term: interaction weight × weighting variable -/
def termWeight (f : Ref → Option Rat) (t : Rat) (tm : AggTerm) : Option Rat :=
  match tm.wvar with
  | none => weightAt tm.weight t
  | some wv => Expr.mulE (weightAt tm.weight t) (f wv)

def aggNum (f : Ref → Option Rat) (t : Rat) : List AggTerm → Option Rat
  | [] => some 0
  | tm :: r => Expr.addE (Expr.mulE (termWeight f t tm) (f tm.var)) (aggNum f t r)

def aggDen (f : Ref → Option Rat) (t : Rat) : List AggTerm → Option Rat
  | [] => some 0
  | tm :: r => Expr.addE (termWeight f t tm) (aggDen f t r)

/-- `update_pars`, aggregation block: `norm[norm == 0] = 1; weights /= norm; matmul(weights, vals)` -/
def aggVal (f : Ref → Option Rat) (t : Rat) (avg : Bool) (terms : List AggTerm) : Option Rat :=
  match aggNum f t terms with
  | none => none
  | some n =>
      if avg then
        match aggDen f t terms with
        | none => none
        | some d => some (n / (if d = 0 then 1 else d))
      else some n

/-- the un-clipped, un-scaled value a function / aggregation parameter computes from the current values -/
def rawVal (f : Ref → Option Rat) (t : Rat) : ParKind → Option Rat
  | .data => none
  | .fn e deps => evalFn e (envOf f deps)
  | .agg avg terms => aggVal f t avg terms

/-- `Parameter.update`: `if skip_function and skip_function[0] <= t[ti] <= skip_function[1]: return` (the same test guards the
    aggregation block of `update_pars`, the vectorised precompute in `Model.build` and the postcompute loop of `Model.process`) -/
def skipped (ps : ParSpec) (t : Rat) : Bool := Params.inWin ps.skip t

/-- new value of parameter `p` given the values so far: unchanged for a data parameter and for a derivative parameter (its value of
    this index was written by the previous step); for a function / aggregation parameter `clip(scale · raw)` outside its skip
    window and the databook value `clip(interp(data, t) · scale)` inside it -/
def parVal (s : Spec) (t : Rat) (x : Stock) (cv pv : Vals) (p : Nat) : Option Rat :=
  let ps := s.pars p
  if ps.deriv then pv p else
  match ps.kind with
  | .data => pv p
  | k => if skipped ps t then baseVal ps t
         else (rawVal (refVal s.net x cv pv t s.dt) t k).map (fun v => clipLim ps.lo ps.hi (ps.scale * v))

def parStep (s : Spec) (t : Rat) (x : Stock) (cv : Vals) (pv : Vals) (p : Nat) : Vals := setAt pv p (parVal s t x cv pv p)

/-- the value a derivative parameter will have at the NEXT index, computed when `update_pars` visits it:
    `_dx = scale_factor · f(dep values of this index)`; `vals[ti+1] = vals[ti] + _dx · dt`; `constrain(ti+1)` -/
def advVal (s : Spec) (t : Rat) (x : Stock) (cv pv : Vals) (p : Nat) : Option Rat :=
  let ps := s.pars p
  match pv p, rawVal (refVal s.net x cv pv t s.dt) t ps.kind with
  | some v, some f => some (clipLim ps.lo ps.hi (v + ps.scale * f * s.dt))
  | _, _ => none

/-- the values the parameters hold before `update_pars` visits anybody at an index: the databook values (`Model.build`), and for a
    derivative parameter the value `d p` written by the previous step (index 0: the databook value, `initD`) -/
def basePars (s : Spec) (t : Rat) (d : Vals) : Vals := fun p => if (s.pars p).deriv then d p else baseVal (s.pars p) t

/-- values of the derivative parameters at index 0: `Model.build` inserts the databook values and constrains them
    (the loop state carries a value for derivative parameters only) -/
def initD (s : Spec) : Vals := fun p => if (s.pars p).deriv then baseVal (s.pars p) (Grid.point s.start s.dt 0) else none

/-- all parameter values of time index `i` on stock `x`, with `d` = the current values of the derivative parameters -/
def evalPars (s : Spec) (i : Nat) (x : Stock) (d : Vals) : Vals :=
  let t := Grid.point s.start s.dt i
  s.porder.foldl (parStep s t x (evalCharacs s x)) (basePars s t d)

/-- one visit of `update_pars`, with the Euler step of a derivative parameter: (values so far, next derivative values) -/
def advStep (s : Spec) (t : Rat) (x : Stock) (cv : Vals) (st : Vals × Vals) (p : Nat) : Vals × Vals :=
  (parStep s t x cv st.1 p, if (s.pars p).deriv then setAt st.2 p (advVal s t x cv st.1 p) else st.2)

/-- `update_pars` at index `i`: the values of index `i` and the values of the derivative parameters for index `i+1` -/
def evalParsD (s : Spec) (i : Nat) (x : Stock) (d : Vals) : Vals × Vals :=
  let t := Grid.point s.start s.dt i
  s.porder.foldl (advStep s t x (evalCharacs s x)) (basePars s t d, d)

/-- the values of the derivative parameters at index `i+1` -/
def nextD (s : Spec) (i : Nat) (x : Stock) (d : Vals) : Vals := (evalParsD s i x d).2

/-! ### closing the loop -/

/-- the total function `Engine.step` reads (only consulted where `linkParsDefined`) -/
def pvOf (v : Vals) : Nat → Rat := fun p => (v p).getD 0

/-- every parameter that drives a link has a value -/
def linkParsDefined (net : Net) (v : Vals) : Bool :=
  allBelow net.nL (fun l => match net.par l with
    | some p => (v p).isSome
    | none => true)

/-- `update_pars(); update_links()` at index `i`, `update_comps()` to index `i+1` (loop state: stocks `x`, derivative values `d`) -/
def stepClosed (s : Spec) (i : Nat) (x : Stock) (d : Vals) : Option (Flow × Stock) :=
  let v := evalPars s i x d
  if linkParsDefined s.net v then Engine.step s.net s.dt (pvOf v) x else none

/-- main loop from index `i`, `n` indices: entries `(stock at j, flows at j)`; the derivative values advance with every index -/
def runClosed (s : Spec) : Nat → Nat → Stock → Vals → Option (List (Stock × Flow))
  | _, 0, _, _ => some []
  | i, n + 1, x, d =>
      match stepClosed s i x d with
      | none => none
      | some (fl, x') =>
          match runClosed s (i + 1) n x' (nextD s i x d) with
          | none => none
          | some rest => some ((x, fl) :: rest)

/-- `update_pars(); flush_junctions()` on the initial stocks (the Euler step this first `update_pars` takes is overwritten by the
    second one after the flush: `vals[1] = vals[0] + …` is an assignment, so the derivative values stay `initD`) -/
def startClosed (s : Spec) : Option Stock :=
  let v := evalPars s 0 s.init (initD s)
  if linkParsDefined s.net v then flushAll s.net (pvOf v) s.init s.net.jorder else none

/-- a whole simulation with `n` time points -/
def simulateN (s : Spec) (n : Nat) : Option (List (Stock × Flow)) :=
  (startClosed s).bind (fun x0 => runClosed s 0 n x0 (initD s))

def simulate (s : Spec) : Option (List (Stock × Flow)) := simulateN s s.npts

/-! ### decidable well-formedness of a specification (evaluated by the driver on every extracted spec) -/

def parRefsOf : List Ref → List Nat
  | [] => []
  | .par p :: r => p :: parRefsOf r
  | _ :: r => parRefsOf r

def characRefsOf : List Ref → List Nat
  | [] => []
  | .charac k :: r => k :: characRefsOf r
  | _ :: r => characRefsOf r

def termRefs (tm : AggTerm) : List Ref :=
  tm.var :: (match tm.wvar with
    | some w => [w]
    | none => [])

/-- every variable a parameter reads -/
def kindRefs : ParKind → List Ref
  | .data => []
  | .fn _ deps => deps.flatMap (fun d => d.2)
  | .agg _ terms => terms.flatMap termRefs

def isData (ps : ParSpec) : Bool :=
  match ps.kind with
  | .data => true
  | _ => false

def isFn : ParKind → Bool
  | .fn _ _ => true
  | _ => false

/-- the value of this index is not computed inside the index: a databook parameter, or a derivative parameter (its value of this
    index was written by the previous step; `_set_exec_order` adds no dependency edge for derivative parameters) -/
def isFixed (ps : ParSpec) : Bool := ps.deriv || isData ps

/-- the execution order is duplicate-free and topological for the dependency relation: every parameter a function reads is
    a data parameter, a derivative parameter, or has been evaluated before (`done` = already evaluated) -/
def okOrder (s : Spec) : List Nat → List Nat → Bool
  | _, [] => true
  | done, p :: rest =>
      !(done.contains p)
      && (parRefsOf (kindRefs (s.pars p).kind)).all (fun q => isFixed (s.pars q) || done.contains q)
      && okOrder s (p :: done) rest

def depsBefore (s : Spec) : Bool := okOrder s [] s.porder

def charRefs (cs : CharSpec) : List Ref :=
  cs.includes ++ (match cs.denom with
    | some d => [d]
    | none => [])

def okCOrder (s : Spec) : List Nat → List Nat → Bool
  | _, [] => true
  | done, k :: rest =>
      !(done.contains k)
      && (characRefsOf (charRefs (s.characs k))).all (fun j => done.contains j)
      && okCOrder s (k :: done) rest

def refOk (s : Spec) (inChar : Bool) : Ref → Bool
  | .comp c => c < s.net.nC
  | .charac k => k < s.nK
  | .par p => !inChar && p < s.net.nP
  | .flow l => !inChar && l < s.net.nL
  | .time => !inChar
  | .step => !inChar

def wfSpec (s : Spec) : Bool :=
  wfCheck s.net && wfGroupRows s.net && resCheck s.net
  && decide (0 < s.dt)
  && depsBefore s
  && okCOrder s [] s.corder
  -- every characteristic / every function parameter is evaluated; indices are in range
  && allBelow s.nK (fun k => s.corder.contains k && (charRefs (s.characs k)).all (refOk s true))
  && s.corder.all (fun k => k < s.nK)
  && allBelow s.net.nP (fun p => (isData (s.pars p) || s.porder.contains p) && (kindRefs (s.pars p).kind).all (refOk s false))
  && s.porder.all (fun p => p < s.net.nP)
  -- a derivative parameter has a function (not an aggregation: `Parameter.update` returns at once for those and `_dx` stays `None`)
  -- and no skip window (inside one `Parameter.update` returns before `_dx` is refreshed: the Euler step would use a stale rate)
  && allBelow s.net.nP (fun p => !(s.pars p).deriv || (isFn (s.pars p).kind && (s.pars p).skip.isNone))

/-- decidable: every parameter that drives a junction outflow has a lower limit ≥ 0 that is consistent with its upper limit -/
def propsClipped (s : Spec) : Bool :=
  allBelow s.net.nL (fun l => !(isJunction s.net (s.net.src l)) ||
    (match s.net.par l with
     | none => true
     | some p =>
        (match (s.pars p).lo, (s.pars p).hi with
         | some lo, none => decide (0 ≤ lo)
         | some lo, some hi => decide (0 ≤ lo) && decide (lo ≤ hi)
         | none, _ => false)))

/-! ### driver: wire format

  csim <budget bits> <net> <start> <dt> <npts>
       <nK> { <nInc> <ref>… <hasDenom 0|1> [<ref>] }×nK  <corder: nK indices>
       { <par> }×nP   <nOrder> <porder…>   <stock…>
  <ref>  = `c i` | `k i` | `p i` | `l i` | `t 0` | `d 0`
  <ts>   = <assumption|nan> <n> t1 v1 … tn vn
  <par>  = <hasData 0|1> [<ts>] <scale> <lo|-> <hi|-> <kind> <skip> <deriv 0|1>
  <skip> = `0` | `1 <lo> <hi|->`                                      (closed window; `-` = +inf)
  <kind> = `D` | `F <nDeps> { <name> <nRefs> <ref>… }… <tree>` | `A <avg 0|1> <nTerms> { <hasW 0|1> [<ts> <scale>] <ref> <hasWv 0|1> [<ref>] }…`
  reply  = `ok <m>` then per computed index ` | <stock…> ; <flows…> ; <pars…>`, then (if m < npts) ` | nan <flush|par|step|big>`;
           `err wf` when `wfSpec` fails.
-/

def pRef : P Ref := do
  let k ← tok
  let i ← pNat
  match k with
  | "c" => pure (.comp i) | "k" => pure (.charac i) | "p" => pure (.par i) | "l" => pure (.flow i)
  | "t" => pure .time | "d" => pure .step
  | _ => failure

def pList {α} (p : P α) : P (List α) := do
  let n ← pNat
  let a ← pMany n p
  pure a.toList

def pOptRatNan : P (Option Rat) := do
  let t ← tok
  match Series.parseOptRat? t with
  | some v => pure v
  | none => failure

def pOptRatDash : P (Option Rat) := do
  let t ← tok
  if t = "-" then pure none else
  match parseRat? t with
  | some v => pure (some v)
  | none => failure

def pTS : P Series.TS := do
  let a ← pOptRatNan
  let raw ← pList (do let t ← pOptRatNan; let v ← pOptRatNan; pure (t, v))
  pure { raw := raw, assumption := a }

def pOpt {α} (p : P α) : P (Option α) := do
  if (← pBool) then (do let a ← p; pure (some a)) else pure none

def pTree : P Expr.Py := do
  let toks ← get
  match Expr.parseNode (toks.length + 1) toks with
  | some (e, rest) => set rest; pure e
  | none => failure

def pChar : P CharSpec := do
  let inc ← pList pRef
  let d ← pOpt pRef
  pure { includes := inc, denom := d }

def pTerm : P AggTerm := do
  let w ← pOpt (do let ts ← pTS; let sc ← pRat; pure (ts, sc))
  let v ← pRef
  let wv ← pOpt pRef
  pure { weight := w, var := v, wvar := wv }

def pKindP : P ParKind := do
  match (← tok) with
  | "D" => pure .data
  | "F" =>
      let deps ← pList (do let name ← tok; let refs ← pList pRef; pure (name, refs))
      let e ← pTree
      pure (.fn e deps)
  | "A" =>
      let avg ← pBool
      let terms ← pList pTerm
      pure (.agg avg terms)
  | _ => failure

def pPar : P ParSpec := do
  let data ← pOpt pTS
  let scale ← pRat
  let lo ← pOptRatDash
  let hi ← pOptRatDash
  let kind ← pKindP
  let skip ← pOpt (do let wlo ← pRat; let whi ← pOptRatDash; pure (Params.Window.mk wlo whi))
  let deriv ← pBool
  pure { data, scale, lo, hi, kind, skip, deriv }

def pSpec : P Spec := do
  let net ← pNet
  let start ← pRat
  let dt ← pRat
  let npts ← pNat
  let nK ← pNat
  let chars ← pMany nK pChar
  let corder ← pMany nK pNat
  let pars ← pMany net.nP pPar
  let porder ← pList pNat
  let init ← pStock net
  pure { net, nK, characs := fun k => chars.getD k default, corder := corder.toList,
         pars := fun p => pars.getD p default, porder, start, dt, npts, init }

/-! memoised evaluation: every stage is tabulated into arrays before the next one reads it (same values) -/

def ofArr (a : Array (Option Rat)) : Vals := fun j => a.getD j none

def evalCharacsA (s : Spec) (x : Stock) : Array (Option Rat) :=
  s.corder.foldl (fun a k => a.setIfInBounds k (charVal s.net x (ofArr a) (s.characs k))) (Array.replicate s.nK none)

/-- memoised `evalParsD`: (values of index `i`, derivative values for index `i+1`) -/
def evalParsA (s : Spec) (i : Nat) (x : Stock) (d : Vals) : Array (Option Rat) × Array (Option Rat) :=
  let t := Grid.point s.start s.dt i
  let cv := ofArr (evalCharacsA s x)
  s.porder.foldl (fun (st : Array (Option Rat) × Array (Option Rat)) p =>
      (st.1.setIfInBounds p (parVal s t x cv (ofArr st.1) p),
       if (s.pars p).deriv then st.2.setIfInBounds p (advVal s t x cv (ofArr st.1) p) else st.2))
    ((Array.range s.net.nP).map (fun p => basePars s t d p), (Array.range s.net.nP).map d)

/-- `Engine.step` stage by stage (as `Engine.handleStep`) -/
def stepA (net : Net) (dt : Rat) (pvf : Nat → Rat) (x : Stock) : Option (Array (Array Rat) × Array (Array Rat)) :=
  let cacheA := (Array.range net.nL).map (fun l => convert net dt pvf x l)
  let cache := fun l => cacheA.getD l 0
  let fl0 := tabFlow net (resolveFlow net cache x)
  let rec bal (a : Array (Array Rat)) : List Nat → Option (Array (Array Rat))
    | [] => some a
    | j :: js => match balanceOne net pvf (ofTab a) j with
        | none => none
        | some fl' => bal (tabFlow net fl') js
  match bal fl0 net.jorder with
  | none => none
  | some a => some (a, tabStock net (updateComps net x (ofTab a)))

def flushA (net : Net) (pvf : Nat → Rat) (x : Stock) : Option (Array (Array Rat)) :=
  let rec go (a : Array (Array Rat)) : List Nat → Option (Array (Array Rat))
    | [] => some a
    | j :: js => match flushOne net pvf (ofTab a) j with
        | none => none
        | some x' => go (tabStock net x') js
  go (tabStock net x) net.jorder

def showVals (n : Nat) (v : Vals) : String :=
  " ".intercalate ((List.range n).map (fun p => showOptRat (v p)))

/-- the loop of `csim`: returns the reply sections produced so far and the reason for stopping early (if any) -/
def bitsOf (a : Array (Array Rat)) : Nat :=
  a.foldl (fun m row => row.foldl (fun m r => max m (Nat.log2 r.den + Nat.log2 r.num.natAbs)) m) 0

def loopA (s : Spec) (budget : Nat) : Nat → Nat → Array (Array Rat) → Array (Option Rat) → List String → List String × Option String
  | _, 0, _, _, acc => (acc.reverse, none)
  | i, n + 1, xa, da, acc =>
      -- exact rationals grow quickly in closed loop: stop (reply `nan big`) when a stock needs more than `budget` bits;
      -- the computed prefix is the trajectory of the shorter run (`simulateN_prefix`)
      if bitsOf xa > budget then (acc.reverse, some "big") else
      let x := ofTab xa
      let (va, nda) := evalParsA s i x (ofArr da)
      let v := ofArr va
      if !(linkParsDefined s.net v) then (acc.reverse, some "par") else
      match stepA s.net s.dt (pvOf v) x with
      | none => (acc.reverse, some "step")
      | some (fa, xa') =>
          let sec := showStock s.net x ++ " ; " ++ showFlow s.net (ofTab fa) ++ " ; " ++ showVals s.net.nP v
          loopA s budget (i + 1) n xa' nda (sec :: acc)

def reply (secs : List String) (stop : Option String) : String :=
  let body := secs.foldl (fun a b => a ++ " | " ++ b) ("ok " ++ toString secs.length)
  match stop with
  | none => body
  | some r => body ++ " | nan " ++ r

def handleSim (args : List String) : Option String :=
  runP (do
    let budget ← pNat
    let s ← pSpec
    if !(wfSpec s) then pure "err wf" else
    let d0 := (Array.range s.net.nP).map (initD s)
    let v0 := ofArr (evalParsA s 0 s.init (ofArr d0)).1
    if !(linkParsDefined s.net v0) then pure (reply [] (some "flush")) else
    match flushA s.net (pvOf v0) s.init with
    | none => pure (reply [] (some "flush"))
    | some xa =>
        let (secs, stop) := loopA s budget 0 s.npts xa d0 []
        pure (reply secs stop)) args

/-- reference path: `simulate` exactly as the theorems state it (no memoisation; tiny cases only) -/
def handleSimRef (args : List String) : Option String :=
  runP (do
    let s ← pSpec
    if !(wfSpec s) then pure "err wf" else
    match simulate s with
    | none => pure "nan"
    | some traj =>
        pure (reply (traj.map (fun e => showStock s.net e.1 ++ " ; " ++ showFlow s.net e.2)) none)) args

/-- `cwf <spec>` → the individual checks -/
def handleWf (args : List String) : Option String :=
  runP (do
    let s ← pSpec
    pure ("net=" ++ toString (wfCheck s.net && wfGroupRows s.net && resCheck s.net)
      ++ " depsBefore=" ++ toString (depsBefore s) ++ " characs=" ++ toString (okCOrder s [] s.corder)
      ++ " props=" ++ toString (propsClipped s) ++ " all=" ++ toString (wfSpec s))) args

/-- `cpars <spec>` → parameter values of index 0 on the initial stocks (pre-flush evaluation), reference path -/
def handleParsRef (args : List String) : Option String :=
  runP (do
    let s ← pSpec
    if !(wfSpec s) then pure "err wf" else
    pure (showVals s.net.nP (evalPars s 0 s.init (initD s)))) args

end Atomica.Closed
