/-
  AtomicaModel.Grid — the simulation time grid (C03, used by C09/C10).
  Mirrors the *documented* rule of `ProjectSettings` (project.py): the end year is rounded up to a whole
  number of steps and the time vector is `start + k*dt`, `k = 0..n`.
  `nSteps` is the specification `n = ceil((end-start)/dt)`, where a quotient within 1e-9 of an integer
  counts as that integer ("n = k when the span is k steps up to rounding error").
-/
import AtomicaModel.Basic
namespace Atomica.Grid

def tol : Rat := 1 / 1000000000

/-- `ceil` that forgives an excess of at most `tol` (floating-point dust above an integer). -/
def ceilTol (x : Rat) : Int := (x - tol).ceil

/-- number of steps from `start` to the first grid point at or after `stop` -/
def nSteps (start stop dt : Rat) : Nat := (ceilTol ((stop - start) / dt)).toNat

def point (start dt : Rat) (k : Nat) : Rat := start + k * dt

def tvec (start stop dt : Rat) : List Rat :=
  (List.range (nSteps start stop dt + 1)).map (point start dt)

/-! ### `ProjectSettings` as a state machine: any sequence of `sim_start=`, `sim_end=`, `sim_dt=`, `update_time_vector(...)` -/

structure Settings where
  start : Rat
  stop : Rat
  dt : Rat

/-- the first grid point at or after `e` -/
def snap (s e d : Rat) : Rat := point s d (nSteps s e d)

def Settings.setEnd (st : Settings) (e : Rat) : Settings := { st with stop := snap st.start e st.dt }
/-- `sim_dt = d`: the end year is re-snapped onto the new grid -/
def Settings.setDt (st : Settings) (d : Rat) : Settings := ({ st with dt := d }).setEnd st.stop
/-- `sim_start = s`: the end year is re-snapped onto the grid of the new start -/
def Settings.setStart (st : Settings) (s : Rat) : Settings := ({ st with start := s }).setEnd st.stop

/-- `update_time_vector(start, end, dt)`: start first, then the step (re-snapping the old end only when no new end is given),
    then the new end — so that a new end is snapped exactly once, on the new grid -/
def Settings.update (st : Settings) (s e d : Option Rat) : Settings :=
  let st1 := match s with | some s => st.setStart s | none => st
  let st2 := match d with
    | some d => (match e with | none => st1.setDt d | some _ => { st1 with dt := d })
    | none => st1
  match e with | some e => st2.setEnd e | none => st2

def Settings.init (s e d : Rat) : Settings := ({ start := s, stop := 0, dt := d } : Settings).setEnd e

def Settings.npoints (st : Settings) : Nat := nSteps st.start st.stop st.dt + 1

inductive SOp | setEnd (e : Rat) | setDt (d : Rat) | setStart (s : Rat) | update (s e d : Option Rat)

def Settings.apply (st : Settings) : SOp → Settings
  | .setEnd e => st.setEnd e
  | .setDt d => st.setDt d
  | .setStart s => st.setStart s
  | .update s e d => st.update s e d

def parseOpt? (t : String) : Option (Option Rat) := if t = "-" then some none else (parseRat? t).map some

def parseOps : List String → Option (List SOp)
  | [] => some []
  | "E" :: e :: rest => do let e ← parseRat? e; let r ← parseOps rest; pure (.setEnd e :: r)
  | "D" :: d :: rest => do let d ← parseRat? d; let r ← parseOps rest; pure (.setDt d :: r)
  | "S" :: s :: rest => do let s ← parseRat? s; let r ← parseOps rest; pure (.setStart s :: r)
  | "U" :: s :: e :: d :: rest => do
      let s ← parseOpt? s; let e ← parseOpt? e; let d ← parseOpt? d; let r ← parseOps rest; pure (.update s e d :: r)
  | _ => none

/-- driver: `gridops <start> <stop> <dt> <ops…>` → `<start> <stop> <dt> <npoints>` after the operations -/
def handleOps : List String → Option String
  | a :: b :: c :: ops => do
      let s ← parseRat? a
      let e ← parseRat? b
      let d ← parseRat? c
      let ops ← parseOps ops
      let st := ops.foldl Settings.apply (Settings.init s e d)
      some (showRat st.start ++ " " ++ showRat st.stop ++ " " ++ showRat st.dt ++ " " ++ toString st.npoints)
  | _ => none

/-- driver: `grid <start> <stop> <dt>` → `<n> <last>` (n = number of points) -/
def handle : List String → Option String
  | [a, b, c] => do
      let s ← parseRat? a
      let e ← parseRat? b
      let d ← parseRat? c
      if d ≤ 0 then some "err dt" else
      let n := nSteps s e d
      some (toString (n + 1) ++ " " ++ showRat (point s d n))
  | _ => none

end Atomica.Grid
