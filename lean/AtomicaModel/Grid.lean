/-
  AtomicaModel.Grid — the simulation time grid (C03, used by C09/C10).
  Mirrors the *documented* rule of `ProjectSettings` (project.py): the end year is rounded up to a whole
  number of steps and the time vector is `start + k*dt`, `k = 0..n`.
  `nSteps` is the specification `n = ceil((end-start)/dt)`, where a quotient within 1e-9 of an integer
  counts as that integer ("n = k when the span is k steps up to rounding error").
-/
import AtomicaModel.Basic
namespace Atomica.Grid

def tol : Rat := 1 / 1000000000

/-- `ceil` that forgives an excess of at most `tol` (floating-point dust above an integer). -/
def ceilTol (x : Rat) : Int := (x - tol).ceil

/-- number of steps from `start` to the first grid point at or after `stop` -/
def nSteps (start stop dt : Rat) : Nat := (ceilTol ((stop - start) / dt)).toNat

def point (start dt : Rat) (k : Nat) : Rat := start + k * dt

def tvec (start stop dt : Rat) : List Rat :=
  (List.range (nSteps start stop dt + 1)).map (point start dt)

/-- driver: `grid <start> <stop> <dt>` → `<n> <last>` (n = number of points) -/
def handle : List String → Option String
  | [a, b, c] => do
      let s ← parseRat? a
      let e ← parseRat? b
      let d ← parseRat? c
      if d ≤ 0 then some "err dt" else
      let n := nSteps s e d
      some (toString (n + 1) ++ " " ++ showRat (point s d n))
  | _ => none

end Atomica.Grid
