/-
  AtomicaModel.Covout — coverage → outcome for one (parameter, population): `programs.py`
  `Covout.update_outcomes`, `Covout.compute_impact_interaction`, `Covout.get_outcome` (C12).

  * `sortProgs`   : `sorted(progs.items(), key=lambda x: -abs(x[1]-baseline))` — Python's sort is stable;
                    a stable insertion sort by decreasing `|outcome − baseline|`.
  * `combos n`    : `[bin(x)[2:].rjust(n,'0') for x in range(2**n)]` — binary counting, the first sorted program
                    is the most significant bit.
  * `comboOut`    : `compute_impact_interaction` — 0 for the empty combination, the explicit value minus the
                    baseline if the set of programs has one (`_interactions`, last assignment wins), otherwise
                    `tmp[np.argmax(abs(tmp))]` (first maximum) over the member deltas.
  * `randomW`     : `np.product(combinations*cov + (combinations^1)*(1-cov), axis=1)`.
  * `nestedG 0 1` : the weight the nested loop gives a combination, in a form that does not mention the
                    `np.argsort` permutation: `max 0 (min_{i∈S} c_i − max_{i∉S} c_i)` (the empty combination
                    gets the uncovered rest `1 − max c`).  `nestedLoop` is the loop of the code for a given
                    `idx`; the proofs show it gives the same value for *every* ascending `idx` (tie order of
                    numpy's unstable quicksort is irrelevant).
  * `addW`        : the additive branch above 100 %: `additive`, `random_portion` (`adds`, `rps`) and
                    `Σ_i Π_j (i=j ? S_i·additive_i : net_random[S,j])`.
  * `lowW`        : additive branch with Σc ≤ 1 written as weights (code: `np.sum(cov*deltas)`).
  * `outcome`     : `get_outcome`, including the `n_progs == 0` and `n_progs == 1` shortcuts.
-/
import AtomicaModel.Basic
namespace Atomica.Covout

def absQ (x : Rat) : Rat := if x < 0 then -x else x
def maxQ (a b : Rat) : Rat := if a < b then b else a
def minQ (a b : Rat) : Rat := if b < a then b else a

inductive Interaction where
  | additive | nested | random
  deriving DecidableEq, Repr

/-- one program of `Covout.progs`: `id` = position in the dict (its identity), single-program outcome, and the
    coverage `prop_covered[prog][0]` passed to `get_outcome` -/
structure Prog where
  id : Nat
  out : Rat
  cov : Rat
  deriving Repr

/-! ### update_outcomes -/

/-- insert `x` (which stood *before* every element of the list) keeping decreasing `|out − b|`; on a tie `x` stays first -/
def insByMag (b : Rat) (x : Prog) : List Prog → List Prog
  | [] => [x]
  | y :: ys => if absQ (x.out - b) < absQ (y.out - b) then y :: insByMag b x ys else x :: y :: ys

def sortProgs (b : Rat) (ps : List Prog) : List Prog := ps.foldr (insByMag b) []

/-- all 0/1 strings of length `n` in binary counting order (first position = most significant bit) -/
def combos : Nat → List (List Bool)
  | 0 => [[]]
  | n + 1 => (combos n).map (false :: ·) ++ (combos n).map (true :: ·)

def anyTrue : List Bool → Bool
  | [] => false
  | b :: m => b || anyTrue m

/-- `self._deltas[progs]` -/
def members : List Rat → List Bool → List Rat
  | d :: ds, true :: m => d :: members ds m
  | _ :: ds, false :: m => members ds m
  | _, _ => []

/-- the `frozenset` of program names of a combination, as a bit set over the dict positions -/
def maskKey : List Nat → List Bool → Nat
  | i :: ids, true :: m => 2 ^ i + maskKey ids m
  | _ :: ids, false :: m => maskKey ids m
  | _, _ => 0

/-- `self._interactions[combo]` after the constructor's loop (a later entry for the same set overwrites) -/
def lookupLast (ex : List (Nat × Rat)) (k : Nat) : Option Rat :=
  ex.foldl (fun acc e => if e.1 = k then some e.2 else acc) none

/-- `tmp[np.argmax(abs(tmp))]`: the first element of largest magnitude -/
def argmaxAbs : List Rat → Rat
  | [] => 0
  | x :: xs => xs.foldl (fun acc y => if absQ acc < absQ y then y else acc) x

/-- `compute_impact_interaction` (a delta relative to the baseline) -/
def comboOut (b : Rat) (ex : List (Nat × Rat)) (ids : List Nat) (ds : List Rat) (m : List Bool) : Rat :=
  if anyTrue m then
    match lookupLast ex (maskKey ids m) with
    | some v => v - b
    | none => argmaxAbs (members ds m)
  else 0

/-! ### get_outcome: weights of the combinations -/

def randomW : List Rat → List Bool → Rat
  | c :: cs, b :: m => (if b then c else 1 - c) * randomW cs m
  | _, _ => 1

def nestedG : Rat → Rat → List Rat → List Bool → Rat
  | lo, hi, c :: cs, true :: m => nestedG lo (minQ hi c) cs m
  | lo, hi, c :: cs, false :: m => nestedG (maxQ lo c) hi cs m
  | lo, hi, _, _ => maxQ 0 (hi - lo)

/-- `additive = maximum(cov - maximum(cov - (1 - (cumsum(cov) - cov)), 0), 0)`; `p = cumsum(cov) - cov` -/
def addOf (p c : Rat) : Rat := maxQ (c - maxQ (c - (1 - p)) 0) 0

/-- `random_portion = divide(random, remainder, out=zeros, where=remainder != 0)` -/
def rpOf (p c : Rat) : Rat :=
  if 1 - addOf p c = 0 then 0 else (c - addOf p c) / (1 - addOf p c)

def adds : Rat → List Rat → List Rat
  | _, [] => []
  | p, c :: cs => addOf p c :: adds (p + c) cs

def rps : Rat → List Rat → List Rat
  | _, [] => []
  | p, c :: cs => rpOf p c :: rps (p + c) cs

/-- `Σ_{i∈S} additive_i · Π_{j≠i} (S_j ? rp_j : 1 − rp_j)` -/
def addW : List Rat → List Rat → List Bool → Rat
  | a :: as, r :: rs, b :: m =>
      (if b then a else 0) * randomW rs m + (if b then r else 1 - r) * addW as rs m
  | _, _, _ => 0

def allFalse : List Bool → Bool
  | [] => true
  | b :: m => !b && allFalse m

/-- additive with Σc ≤ 1 as weights: `{i} ↦ c_i`, `∅ ↦ r − Σc`, everything else 0 -/
def lowW : Rat → List Rat → List Bool → Rat
  | r, c :: cs, false :: m => lowW (r - c) cs m
  | _, c :: _, true :: m => if allFalse m then c else 0
  | r, _, _ => r

def dot : List Rat → List Rat → Rat
  | c :: cs, d :: ds => c * d + dot cs ds
  | _, _ => 0

/-- weight of each combination (in sorted program order), including the empty one -/
def weight (inter : Interaction) (cov : List Rat) (m : List Bool) : Rat :=
  match inter with
  | .random => randomW cov m
  | .nested => nestedG 0 1 cov m
  | .additive => if 1 < listSum cov then addW (adds 0 cov) (rps 0 cov) m else lowW 1 cov m

/-- `np.sum(combination_coverage * self._combination_outcomes)` -/
def tableSum (n : Nat) (w g : List Bool → Rat) : Rat :=
  listSum ((combos n).map (fun m => w m * g m))

def covs (sp : List Prog) : List Rat := sp.map (·.cov)
def deltas (b : Rat) (sp : List Prog) : List Rat := sp.map (fun p => p.out - b)
def ids (sp : List Prog) : List Nat := sp.map (·.id)

/-- `Covout.get_outcome` on the cached (sorted) programs `self._cached_progs` / `self._deltas` -/
def outcomeSorted (inter : Interaction) (b : Rat) (sp : List Prog) (ex : List (Nat × Rat)) : Rat :=
  match sp with
  | [] => b
  | [p] => b + p.cov * (p.out - b)
  | _ =>
    match inter with
    | .additive =>
        if 1 < listSum (covs sp) then
          b + tableSum sp.length (addW (adds 0 (covs sp)) (rps 0 (covs sp))) (comboOut b ex (ids sp) (deltas b sp))
        else b + dot (covs sp) (deltas b sp)
    | .nested => b + tableSum sp.length (nestedG 0 1 (covs sp)) (comboOut b ex (ids sp) (deltas b sp))
    | .random => b + tableSum sp.length (randomW (covs sp)) (comboOut b ex (ids sp) (deltas b sp))

/-- `Covout(...).get_outcome(...)`: `update_outcomes` sorts, `get_outcome` evaluates -/
def outcome (inter : Interaction) (b : Rat) (ps : List Prog) (ex : List (Nat × Rat)) : Rat :=
  outcomeSorted inter b (sortProgs b ps) ex

/-! ### the nested loop of the code, for a given `idx = np.argsort(cov)` -/

def setFalse : List Bool → Nat → List Bool
  | [], _ => []
  | _ :: m, 0 => false :: m
  | b :: m, i + 1 => b :: setFalse m i

/-- the `for i in range(len(cov))` loop: `prev` = `cov[idx[i-1]]` (0 before the first step), `mask` = `prog_mask` -/
def nestedLoop (cov : List Rat) (g : List Bool → Rat) : List Nat → Rat → List Bool → Rat
  | [], _, _ => 0
  | i :: idx, prev, mask =>
      (cov.getD i 0 - prev) * g mask + nestedLoop cov g idx (cov.getD i 0) (setFalse mask i)

/-- a stable ascending argsort (one admissible `idx`; the proofs cover every admissible one) -/
def insAsc (cov : List Rat) (i : Nat) : List Nat → List Nat
  | [] => [i]
  | j :: js => if cov.getD j 0 < cov.getD i 0 then j :: insAsc cov i js else i :: j :: js
  -- `i` stood before `j`: on a tie `i` stays first

def argsortAsc (cov : List Rat) : List Nat := (List.range cov.length).foldr (insAsc cov) []

/-! ### driver -/

def parseInter? : String → Option Interaction
  | "additive" => some .additive
  | "nested" => some .nested
  | "random" => some .random
  | _ => none

def parseProgs (b : Rat) : Nat → Nat → List String → Option (List Prog × List String)
  | 0, _, rest => some ([], rest)
  | n + 1, i, o :: c :: rest => do
      let ov ← parseRat? o
      let cv ← parseRat? c
      let (ps, rest') ← parseProgs b n (i + 1) rest
      some ({ id := i, out := ov, cov := cv } :: ps, rest')
  | _, _, _ => none

def parseEx : Nat → List String → Option (List (Nat × Rat))
  | 0, [] => some []
  | k + 1, m :: v :: rest => do
      let mv ← m.toNat?
      let vv ← parseRat? v
      let r ← parseEx k rest
      some ((mv, vv) :: r)
  | _, _ => none

/-- `covout <what> <interaction> <baseline> <n> (<outcome_i> <coverage_i>)* <k> (<bitset_j> <value_j>)*`
    `what` = `val`     → the value of `get_outcome`
           = `table`   → `<sorted ids…> | <2^n combination outcomes (deltas)>`
           = `weights` → the `2^n` weights in table order (the empty combination included)
           = `nestedloop` → the value computed by the code's loop with the stable argsort (n ≥ 2) -/
def handle : List String → Option String
  | what :: it :: bs :: ns :: rest => do
      let inter ← parseInter? it
      let b ← parseRat? bs
      let n ← ns.toNat?
      let (ps, rest') ← parseProgs b n 0 rest
      match rest' with
      | [] => none
      | ks :: exs => do
        let k ← ks.toNat?
        let ex ← parseEx k exs
        if ps.any (fun p => p.cov < 0 || 1 < p.cov) then some "err range" else
        let sp := sortProgs b ps
        let cov := covs sp
        let ds := deltas b sp
        let ids := ids sp
        match what with
        | "val" => some (showRat (outcome inter b ps ex))
        | "table" =>
            some (" ".intercalate (ids.map toString) ++ " | " ++
                  showRats ((combos sp.length).map (comboOut b ex ids ds)))
        | "weights" => some (showRats ((combos sp.length).map (weight inter cov)))
        | "nestedloop" =>
            some (showRat (b + nestedLoop cov (comboOut b ex ids ds) (argsortAsc cov) 0
                                  (List.replicate sp.length true)))
        | _ => none
  | _ => none

end Atomica.Covout
