/-
  AtomicaModel.Engine — one integration step of `atomica/model.py` in exact rational arithmetic (layer L1).

  Mirrors, for a flattened model (all populations together):
    * `Model.update_links` first loop          → `convert`   (parameter value → per-step fraction / amount: `link._cache`)
    * `Compartment/TimedCompartment/SourceCompartment.resolve_outflows` → `resolveFlow`
    * `JunctionCompartment.balance`, `ResidualJunctionCompartment.balance` in `_exec_order['junctions']` → `balanceAll`
    * `Compartment/SinkCompartment/TimedCompartment.update` → `updateComps`
    * `JunctionCompartment.initial_flush` / `ResidualJunctionCompartment.initial_flush` → `flushAll`
  Parameter values of the step are an *input* (`pv`), so theorems about `step` hold for every way parameters are produced
  (data, functions, programs).

  Conventions: compartments `c < nC`, links `l < nL`, parameters `p < nP` are natural numbers; stocks and flows are functions
  of (index, row).  Row 0 of a timed compartment is the one that is flushed, arrivals enter row `nrows-1`.  A flow `fl l r` is
  the number of people removed from row `r` of `src l` through link `l`; a `TimedLink` records it per row, an ordinary `Link`
  records `recorded l = Σ_r fl l r`.  Divisions that can hit zero are checked (`Option`), so "never NaN" is a real statement.
-/
import AtomicaModel.Basic
namespace Atomica.Engine

inductive Units | frac | dur | num | prop
  deriving DecidableEq, Repr

inductive CKind | normal | source | sink | junction | resjunction | timed
  deriving DecidableEq, Repr

structure Net where
  nC : Nat
  nL : Nat
  nP : Nat
  kind : Nat → CKind
  /-- keyring rows of a compartment (1 unless timed) -/
  nrows : Nat → Nat
  src : Nat → Nat
  dst : Nat → Nat
  /-- driving parameter; `none` for flush links and residual-junction links -/
  par : Nat → Option Nat
  /-- `TimedLink` (keeps elapsed time; value stored per row) -/
  tlink : Nat → Bool
  /-- number of source rows the link draws from (rows of a timed source / of a duration-group junction; else 1) -/
  lrows : Nat → Nat
  /-- the link is the timed outflow (flush link) of its source -/
  isFlush : Nat → Bool
  /-- junction that belongs to a duration group (balances row by row) -/
  jgroup : Nat → Bool
  units : Nat → Units
  tscale : Nat → Rat
  /-- `Model._exec_order['junctions']` -/
  jorder : List Nat

abbrev Stock := Nat → Nat → Rat
abbrev Flow := Nat → Nat → Rat

variable (net : Net)

def stockTotal (x : Stock) (c : Nat) : Rat := sumTo (net.nrows c) (x c)

/-- value an ordinary `Link` stores: the sum over source rows -/
def recorded (fl : Flow) (l : Nat) : Rat := sumTo (net.lrows l) (fl l)

/-! ### update_links, first loop: parameter value → `link._cache` -/

/-- `Parameter.source_popsize`: people in the source compartments of all links of parameter `p` -/
def popsize (x : Stock) (p : Nat) : Rat :=
  sumTo net.nL (fun l => if net.par l = some p then stockTotal net x (net.src l) else 0)

/-- `link._cache`: fraction of the source to move (amount of people for a source compartment) -/
def convert (dt : Rat) (pv : Nat → Rat) (x : Stock) (l : Nat) : Rat :=
  match net.par l with
  | none => 0
  | some p =>
    let v := pv p
    if v ≤ 0 then 0 else
    match net.units p with
    | .frac => v * (dt / net.tscale p)
    | .dur => dt / (v * net.tscale p)
    | .num =>
        let amt := v * (dt / net.tscale p)
        if net.kind (net.src l) = .source then amt
        else
          let n := popsize net x p
          if n = 0 then 0 else amt / n
    | .prop => 0

/-! ### resolve_outflows -/

/-- does link `l` act on row `r` of its (non-junction) source?  Timed links do not act on row 0; the flush link is separate. -/
def acts (l r : Nat) : Bool := !(net.isFlush l) && !(net.tlink l && r == 0)

/-- summed requested fraction out of row `r` of compartment `c` -/
def outReq (cache : Nat → Rat) (c r : Nat) : Rat :=
  sumTo net.nL (fun l => if net.src l = c ∧ acts net l r then cache l else 0)

def rescale (t : Rat) : Rat := if t > 1 then 1 / t else 1

/-- flows through parameter-driven links out of ordinary, timed and source compartments (flush links excluded).
    An ordinary compartment is the one-row case of a timed one (it has neither timed links nor a flush link). -/
def baseFlow (cache : Nat → Rat) (x : Stock) (l r : Nat) : Rat :=
  let c := net.src l
  match net.kind c with
  | .source => if r = 0 then cache l else 0
  | .normal | .timed =>
      if r < net.nrows c ∧ acts net l r then cache l * (rescale (outReq net cache c r) * x c r) else 0
  | _ => 0

/-- what leaves row `r` of `c` through non-flush links -/
def baseOut (cache : Nat → Rat) (x : Stock) (c r : Nat) : Rat :=
  sumTo net.nL (fun l => if net.src l = c then baseFlow net cache x l r else 0)

/-- all flows after `resolve_outflows` (junction outflows still unset = 0) -/
def resolveFlow (cache : Nat → Rat) (x : Stock) : Flow := fun l r =>
  let c := net.src l
  if net.kind c = .timed ∧ net.isFlush l then
    if r = 0 then
      let rest := x c 0 - baseOut net cache x c 0
      if rest > 0 then rest else 0
    else 0
  else baseFlow net cache x l r

/-! ### junction balancing -/

def pOf (pv : Nat → Rat) (l : Nat) : Rat :=
  match net.par l with
  | some p => pv p
  | none => 0

def pTot (pv : Nat → Rat) (j : Nat) : Rat :=
  sumTo net.nL (fun l => if net.src l = j then pOf net pv l else 0)

/-- inflow into junction `j`, per row for a duration-group junction, else everything in row 0 -/
def jInflow (fl : Flow) (j r : Nat) : Rat :=
  if net.jgroup j then sumTo net.nL (fun l => if net.dst l = j then fl l r else 0)
  else if r = 0 then sumTo net.nL (fun l => if net.dst l = j then recorded net fl l else 0) else 0

/-- number of rows on which inflow into `j` can be non-zero: the largest row count among its in-links -/
def jRows (j : Nat) : Nat :=
  (List.range net.nL).foldl (fun m l => if net.dst l = j then max m (net.lrows l) else m) 0

/-- `not np.any(net_inflow)`: the inflow into junction `j` is zero in every row -/
def inflowZero (fl : Flow) (j : Nat) : Bool :=
  (List.range (jRows net j)).all (fun r => jInflow net fl j r == 0)

/-- normalised fraction used by a residual junction -/
def resFrac (pv : Nat → Rat) (j l : Nat) : Rat :=
  if pTot net pv j > 1 then pOf net pv l / pTot net pv j else pOf net pv l

def balanceOne (pv : Nat → Rat) (fl : Flow) (j : Nat) : Option Flow :=
  match net.kind j with
  | .junction =>
      if pTot net pv j = 0 then
        -- nothing flows in ⇒ nothing flows out, whatever the proportions (the code's guard against 0·0/0); otherwise NaN
        (if inflowZero net fl j then some (fun l r => if net.src l = j then 0 else fl l r) else none)
      else some (fun l r => if net.src l = j then jInflow net fl j r * pOf net pv l / pTot net pv j else fl l r)
  | .resjunction =>
      some (fun l r =>
        if net.src l = j then
          let inn := jInflow net fl j r
          if net.par l = none ∧ pTot net pv j < 1 then
            inn - sumTo net.nL (fun l' => if net.src l' = j then inn * resFrac net pv j l' else 0)
          else inn * resFrac net pv j l
        else fl l r)
  | _ => some fl

def balanceAll (pv : Nat → Rat) (fl : Flow) : List Nat → Option Flow
  | [] => some fl
  | j :: js => (balanceOne net pv fl j).bind (fun fl' => balanceAll pv fl' js)

/-! ### update_comps -/

def outRow (fl : Flow) (c r : Nat) : Rat :=
  sumTo net.nL (fun l => if net.src l = c then fl l r else 0)

def inAll (fl : Flow) (c : Nat) : Rat :=
  sumTo net.nL (fun l => if net.dst l = c then recorded net fl l else 0)

def inUntimed (fl : Flow) (c : Nat) : Rat :=
  sumTo net.nL (fun l => if net.dst l = c ∧ !(net.tlink l) then recorded net fl l else 0)

/-- what timed link `l` puts into row `r` of its timed destination (rows `n`) *before* the keyring advances -/
def tlinkInto (fl : Flow) (l n r : Nat) : Rat :=
  let L := net.lrows l
  if L ≤ n then (if r < L then fl l r else 0)
  else (if r < n then fl l r else 0) + (if r + 1 = n then sumTo (L - n) (fun k => fl l (n + k)) else 0)

def inTimedRow (fl : Flow) (c r : Nat) : Rat :=
  sumTo net.nL (fun l => if net.dst l = c ∧ net.tlink l then tlinkInto net fl l (net.nrows c) r else 0)

def clip0 (v : Rat) : Rat := if v > 0 then v else 0

def updateComps (x : Stock) (fl : Flow) : Stock := fun c r =>
  match net.kind c with
  | .normal => if r = 0 then clip0 (x c 0 - outRow net fl c 0 + inAll net fl c) else 0
  | .sink => if r = 0 then x c 0 + inAll net fl c else 0
  | .timed =>
      let n := net.nrows c
      let y := fun r => x c r - outRow net fl c r + inTimedRow net fl c r
      let z := fun r => if n ≤ 1 then y r else if r + 1 < n then y (r + 1) else 0
      if r < n then
        let v := z r + (if r + 1 = n then inUntimed net fl c else 0)
        if v < 0 then 0 else v
      else 0
  | _ => x c r

/-! ### one step -/

def flows (dt : Rat) (pv : Nat → Rat) (x : Stock) : Option Flow :=
  balanceAll net pv (resolveFlow net (convert net dt pv x) x) net.jorder

def step (dt : Rat) (pv : Nat → Rat) (x : Stock) : Option (Flow × Stock) :=
  (flows net dt pv x).map (fun fl => (fl, updateComps net x fl))

/-! ### initial flush of junction contents (before the first step) -/

/-- add `amt` to compartment `c` through its `[0]` setter: uniform over rows for a timed destination.
    (`TimedCompartment.__setitem__` *replaces* the rows by `value / nrows`; `dest[0] += a` reads the total first.) -/
def addTo (x : Stock) (c : Nat) (amt : Rat) : Stock := fun c' r =>
  if c' = c then
    match net.kind c with
    | .timed => if r < net.nrows c then (stockTotal net x c + amt) / (net.nrows c : Rat) else 0
    | _ => if r = 0 then x c 0 + amt else x c r
  else x c' r

/-- fractions used by `initial_flush` for junction `j` (plain: normalised; residual: as `balance`) -/
def flushFrac (pv : Nat → Rat) (j l : Nat) : Option Rat :=
  match net.kind j with
  | .junction => divQ (pOf net pv l) (pTot net pv j)
  | .resjunction =>
      let t := pTot net pv j
      if net.par l = none then (if t < 1 then some (1 - t) else some 0)
      else if t < 1 then some (pOf net pv l) else divQ (pOf net pv l) t
  | _ => some 0

/-- push the content of junction `j` into the destinations of its out-links, link by link (links `0..k-1`) -/
def flushLinks (pv : Nat → Rat) (j : Nat) (v : Rat) : Nat → Stock → Option Stock
  | 0, x => some x
  | k + 1, x => do
      let x' ← flushLinks pv j v k x
      if net.src k = j then
        let f ← flushFrac net pv j k
        some (addTo net x' (net.dst k) (v * f))
      else some x'

def flushOne (pv : Nat → Rat) (x : Stock) (j : Nat) : Option Stock :=
  if x j 0 > 0 then
    (flushLinks net pv j (x j 0) net.nL x).map (fun x' => fun c r => if c = j then 0 else x' c r)
  else some x

def flushAll (pv : Nat → Rat) (x : Stock) : List Nat → Option Stock
  | [] => some x
  | j :: js => (flushOne net pv x j).bind (fun x' => flushAll pv x' js)

/-! ### well-formedness (decidable, evaluated by the driver on every extracted net) -/

def allBelow (n : Nat) (p : Nat → Bool) : Bool := (List.range n).all p

def isJunction (c : Nat) : Bool :=
  match net.kind c with
  | .junction | .resjunction => true
  | _ => false

def wfCheck : Bool :=
  allBelow net.nL (fun l =>
    net.src l < net.nC && net.dst l < net.nC
    && (net.kind (net.src l) != .sink)                       -- no outflow from a sink
    && (net.kind (net.dst l) != .source)                     -- no inflow to a source
    && (net.lrows l ≥ 1 || isJunction net (net.src l))
    && (match net.par l with | some p => p < net.nP | none => true)
    -- flush links leave timed compartments, are ordinary links and carry no parameter
    && (!(net.isFlush l) || (net.kind (net.src l) == .timed && !(net.tlink l) && net.par l == none))
    -- rows a link draws from
    && (match net.kind (net.src l) with
        | .timed => net.lrows l == net.nrows (net.src l)
        | .junction | .resjunction => (net.jgroup (net.src l) || net.lrows l == 1)
        | _ => net.lrows l == 1)
    -- timed links leave timed compartments / duration-group junctions (the destination may be any compartment:
    -- a duration-group junction may also feed ordinary compartments, which read the link's row sum)
    && (!(net.tlink l) || (net.kind (net.src l) == .timed || (isJunction net (net.src l) && net.jgroup (net.src l))))
    -- links into / out of a duration-group junction are timed links with a common row count
    && (!(isJunction net (net.dst l) && net.jgroup (net.dst l)) || net.tlink l)
    && (!(isJunction net (net.src l) && net.jgroup (net.src l)) || net.tlink l)
    -- parameter-driven links out of non-junctions have transition units, junction outflows proportion units
    && (match net.par l with
        | some p => (if isJunction net (net.src l) then net.units p == .prop else net.units p != .prop)
        | none => net.isFlush l || net.kind (net.src l) == .resjunction))
  && allBelow net.nP (fun p => net.tscale p > 0)
  && allBelow net.nC (fun c => net.nrows c ≥ 1 && (net.kind c == .timed || net.nrows c == 1))
  -- every timed compartment has exactly one flush link
  && allBelow net.nC (fun c => net.kind c != .timed ||
        ((List.range net.nL).filter (fun l => net.src l == c && net.isFlush l)).length == 1)
  -- jorder lists every junction exactly once and is a topological order of the junction sub-graph
  && net.jorder.all (fun j => j < net.nC && isJunction net j)
  && allBelow net.nC (fun c => !(isJunction net c) || (net.jorder.filter (· == c)).length == 1)
  && allBelow net.nL (fun l => !(isJunction net (net.src l) && isJunction net (net.dst l)) ||
        (net.jorder.idxOf (net.src l) < net.jorder.idxOf (net.dst l)))

/-! ### whole runs (layer L1: the parameter values of every step are inputs) -/

/-- `Model.process` main loop: one entry `(stock at index i, flows at index i)` per time index; `pvs` holds the parameter
    values of each index.  `none` as soon as a step is undefined (NaN in the code). -/
def runFrom (dt : Rat) : List (Nat → Rat) → Stock → Option (List (Stock × Flow))
  | [], _ => some []
  | pv :: pvs, x =>
      match step net dt pv x with
      | none => none
      | some (fl, x') =>
          match runFrom dt pvs x' with
          | none => none
          | some rest => some ((x, fl) :: rest)

/-- start-up sequence of `Model.process`: parameters (`pvPre`), initial junction flush, parameters again (`pvs.head`), links -/
def process (dt : Rat) (pvPre : Nat → Rat) (pvs : List (Nat → Rat)) (xinit : Stock) : Option (List (Stock × Flow)) :=
  (flushAll net pvPre xinit net.jorder).bind (fun x0 => runFrom net dt pvs x0)

/-- every residual junction has exactly one parameter-less (residual) out-link: `framework.transitions['>']` holds one pair
    per residual junction.  (With two residual links each would receive the whole remainder.) -/
def resCheck : Bool :=
  allBelow net.nC (fun c => net.kind c != .resjunction ||
    ((List.range net.nL).filter (fun l => net.src l == c && net.par l == none)).length == 1)

/-- links incident to one duration-group junction draw from / deliver to the same number of rows
    (the junction balances row by row, so a mismatch would drop or misplace people) -/
def wfGroupRows : Bool :=
  allBelow net.nL (fun l1 => allBelow net.nL (fun l2 =>
    let inc := fun (l j : Nat) => net.src l == j || net.dst l == j
    allBelow net.nC (fun j =>
      !(isJunction net j && net.jgroup j && inc l1 j && inc l2 j) || net.lrows l1 == net.lrows l2)))

end Atomica.Engine
