/-
  AtomicaModel.Expr — the parameter-function parser (C19).

  Anchors: atomica/function_parser.py (`parse_function`, `_DivTransformer`, `sdiv`, `vector_min/max`,
  `supported_functions`) and atomica/utils.py (`evaluate_plot_string`).

  * `Py` is the Python 3.12 expression AST as a rose tree: `Kind` has one constructor per `ast.expr` class
    (carrying the non-expression payload: operator, identifier, constant kind, keyword names) plus `other tag`
    for a node class this model does not know; the children are the sub-expressions in a fixed order.
  * `guards`, `preprocess` — the two assertions on the string and the `:` → `___` replacement.
  * `divTransform` — `_DivTransformer`: every `/` becomes a call of `sdiv`.
  * `accepts wl` — the SPECIFICATION-shaped acceptance (a node-kind whitelist; the theorems are about it).
  * `acceptsCurrent wl` — the FAITHFUL model of the walk in `parse_function` as it is written (only
    `Call` nodes whose `func` is a `Name` are looked at).  It differs from `accepts` (defect D1).
  * `deps wl` — the reported dependency names (multiset; Python reports them in breadth-first order).
  * `eval wl env` — exact evaluation on the rational-closed fragment (`+ - * /→sdiv ** (integer exponent)`,
    unary `+ -`, single comparisons as 0/1, `min max floor sdiv`), scalars and arrays with numpy broadcasting.
    An element `none` = "non-finite or not modelled" (no claim), an outer `none` = "raises or not modelled".
  * `plotAccepts` — the node check of `evaluate_plot_string`.
  * `evalB` — the same evaluation carrying a running floating-point error bound (wire only: it tells the
    harness how far an IEEE evaluation may be from the exact value, and when a branch could flip).
-/
import AtomicaModel.Basic
import AtomicaModel.Generated.Whitelist
namespace Atomica.Expr

/-! ### The Python expression AST -/

inductive BinOpK where
  | add | sub | mult | div | pow | floorDiv | mod | matMult | lShift | rShift | bitOr | bitXor | bitAnd | unknown
  deriving DecidableEq, Repr, Inhabited

inductive UnOpK where
  | uAdd | uSub | not | invert | unknown
  deriving DecidableEq, Repr, Inhabited

inductive BoolOpK where
  | and | or | unknown
  deriving DecidableEq, Repr, Inhabited

inductive CmpOpK where
  | eq | notEq | lt | ltE | gt | gtE | is | isNot | in_ | notIn | unknown
  deriving DecidableEq, Repr, Inhabited

/-- `ast.Constant` by the Python type of its value (`float none` = a literal such as `1e999`). -/
inductive Const where
  | int (v : Int) | float (v : Option Rat) | complex | str | bytes | bool (b : Bool) | none | ellipsis | unknown
  deriving DecidableEq, Repr, Inhabited

/-- One constructor per `ast.expr` class of Python 3.12; children (sub-expressions) are listed in `Py.node`:
  `boolOp` values · `namedExpr` target,value · `binOp` left,right · `unaryOp` operand · `lambda` defaults…,body ·
  `ifExp` test,body,orelse · `dict` keys (without the `**` ones),values · `set/list/tuple` elts ·
  comprehensions elt(s), then per generator target,iter,ifs… · `await/yieldFrom` value · `yield` value? ·
  `compare` left,comparators… · `call` func,args…,keyword values… · `formattedValue` value,format_spec? ·
  `joinedStr` values · `attribute` value · `subscript` value,slice · `starred` value · `slice` lower?,upper?,step? -/
inductive Kind where
  | boolOp (op : BoolOpK) | namedExpr | binOp (op : BinOpK) | unaryOp (op : UnOpK) | lambda | ifExp
  | dict (unpack : Nat) | set | listComp | setComp | dictComp | generatorExp | await | yield | yieldFrom
  | compare (ops : List CmpOpK) | call (nargs : Nat) (kws : List String)
  | formattedValue | joinedStr | constant (c : Const) | attribute (attr : String) | subscript | starred
  | name (id : String) | list | tuple | slice | other (tag : String)
  deriving DecidableEq, Repr, Inhabited

inductive Py where
  | node (k : Kind) (cs : List Py)
  deriving Repr, Inhabited

namespace Py
def kind : Py → Kind | node k _ => k
def children : Py → List Py | node _ cs => cs
end Py

/-- Python class name of a node (used in replies and violation keys). -/
def Kind.tag : Kind → String
  | .boolOp _ => "BoolOp" | .namedExpr => "NamedExpr" | .binOp _ => "BinOp" | .unaryOp _ => "UnaryOp"
  | .lambda => "Lambda" | .ifExp => "IfExp" | .dict _ => "Dict" | .set => "Set" | .listComp => "ListComp"
  | .setComp => "SetComp" | .dictComp => "DictComp" | .generatorExp => "GeneratorExp" | .await => "Await"
  | .yield => "Yield" | .yieldFrom => "YieldFrom" | .compare _ => "Compare" | .call _ _ => "Call"
  | .formattedValue => "FormattedValue" | .joinedStr => "JoinedStr" | .constant _ => "Constant"
  | .attribute _ => "Attribute" | .subscript => "Subscript" | .starred => "Starred" | .name _ => "Name"
  | .list => "List" | .tuple => "Tuple" | .slice => "Slice" | .other t => t

mutual
/-- every node of the tree, pre-order (what `ast.walk` visits, in another order) -/
def subterms : Py → List Py
  | .node k cs => .node k cs :: subtermsL cs
def subtermsL : List Py → List Py
  | [] => []
  | c :: cs => subterms c ++ subtermsL cs
end

/-! ### Guards on the string -/

/-- `"__" in s` -/
def hasDunder : List Char → Bool
  | [] => false
  | [_] => false
  | a :: b :: cs => (a == '_' && b == '_') || hasDunder (b :: cs)

/-- the two assertions at the top of `parse_function` / `evaluate_plot_string` -/
def guards (s : String) : Bool := !hasDunder s.toList && decide (s.length < 1800)

/-- `fcn_str.replace(":", "___")` -/
def preprocessL : List Char → List Char
  | [] => []
  | c :: cs => if c = ':' then '_' :: '_' :: '_' :: preprocessL cs else c :: preprocessL cs

def preprocess (s : String) : String := String.ofList (preprocessL s.toList)

/-! ### `_DivTransformer` -/

mutual
def divTransform : Py → Py
  | .node k cs =>
      match k with
      | .binOp .div => .node (.call cs.length []) (.node (.name "sdiv") [] :: divTransformL cs)
      | _ => .node k (divTransformL cs)
def divTransformL : List Py → List Py
  | [] => []
  | c :: cs => divTransform c :: divTransformL cs
end

/-- no `/` operator node is left -/
def noDiv (e : Py) : Bool := (subterms e).all fun t => decide (t.kind ≠ .binOp .div)

/-! ### Acceptance -/

def arithOp : BinOpK → Bool
  | .add | .sub | .mult | .div | .pow => true
  | _ => false

def signOp : UnOpK → Bool
  | .uAdd | .uSub => true
  | _ => false

def orderOp : CmpOpK → Bool
  | .eq | .notEq | .lt | .ltE | .gt | .gtE => true
  | _ => false

def numConst : Const → Bool
  | .int _ | .float _ => true
  | _ => false

/-- SPECIFICATION: the node kinds a parameter function may consist of.  A numeric constant, a name, one of
  `+ - * / **`, unary `+ -`, a comparison with `== != < <= > >=`, or a call *of a bare whitelisted name* with
  positional arguments only.  Everything else — attribute access, subscripts, calls through anything but a
  whitelisted name, keywords, starred arguments, lambdas, comprehensions, conditionals, boolean operators,
  containers, f-strings, strings/bytes/None/bool/complex constants, unknown node classes — is rejected. -/
def safeNode (wl : List String) : Py → Bool
  | .node (.constant c) cs => numConst c && cs.isEmpty
  | .node (.name _) cs => cs.isEmpty
  | .node (.binOp op) cs => arithOp op && cs.length == 2
  | .node (.unaryOp op) cs => signOp op && cs.length == 1
  | .node (.compare ops) cs => ops.all orderOp && !ops.isEmpty && cs.length == ops.length + 1
  | .node (.call n kws) (.node (.name f) [] :: args) => wl.contains f && kws.isEmpty && args.length == n
  | _ => false

/-- SPECIFICATION-shaped acceptance of a parsed string: every node the walk visits is of a safe kind. -/
def accepts (wl : List String) (e : Py) : Bool := (subterms e).all (safeNode wl)

/-- first node (pre-order) that is not of a safe kind -/
def firstBad (wl : List String) (e : Py) : Option Py := (subterms e).find? (fun t => !safeNode wl t)

/-- FAITHFUL: the only assertion inside the walk of `parse_function` as written:
  `isinstance(node, ast.Call) and hasattr(node.func, "id")` ⇒ `node.func.id in supported_functions`. -/
def currentOk (wl : List String) : Py → Bool
  | .node (.call _ _) (.node (.name f) _ :: _) => wl.contains f
  | _ => true

/-- `compile()` refuses `await`/`yield` and asynchronous comprehensions (sent as `other "Async…"`) outside a
  function (the compile-time rejections modelled). -/
def compileOk (e : Py) : Bool :=
  (subterms e).all fun t => match t.kind with
    | .await | .yield | .yieldFrom => false
    | .other tag => !tag.startsWith "Async"
    | _ => true

/-- FAITHFUL model of the acceptance decision of `parse_function` as written (after `_DivTransformer`). -/
def acceptsCurrent (wl : List String) (e : Py) : Bool :=
  (subterms (divTransform e)).all (currentOk wl) && compileOk e

/-! ### Dependencies -/

def depName (wl : List String) : Py → Option String
  | .node (.name x) _ => if wl.contains x then none else some x
  | _ => none

/-- names the walk reports as dependencies (one entry per occurrence) -/
def deps (wl : List String) (e : Py) : List String := (subterms e).filterMap (depName wl)

/-- what `parse_function` computes: the walk runs on the transformed tree -/
def depsCurrent (wl : List String) (e : Py) : List String := deps wl (divTransform e)

/-! ### Evaluation -/

/-- one array element / scalar: `none` = non-finite or not modelled (no claim made) -/
abbrev El := Option Rat

inductive Val (ε : Type) where
  | sc (a : ε)
  | arr (l : List ε)
  deriving Repr, DecidableEq

def map1 {ε : Type} (f : ε → ε) : Val ε → Val ε
  | .sc a => .sc (f a)
  | .arr l => .arr (l.map f)

/-- numpy broadcasting of a binary elementwise operation: scalar↔array, equal-length arrays -/
def lift2 {ε : Type} (f : ε → ε → ε) : Val ε → Val ε → Option (Val ε)
  | .sc a, .sc b => some (.sc (f a b))
  | .sc a, .arr l => some (.arr (l.map (f a)))
  | .arr l, .sc b => some (.arr (l.map (fun x => f x b)))
  | .arr l, .arr m => if l.length = m.length then some (.arr (List.zipWith f l m)) else none

/-- `functools.reduce(f, [acc, w1, w2, …])` -/
def reduceV {ε : Type} (f : ε → ε → ε) : Val ε → List (Val ε) → Option (Val ε)
  | acc, [] => some acc
  | acc, w :: ws => match lift2 f acc w with
      | some u => reduceV f u ws
      | none => none

def sequence {α : Type} : List (Option α) → Option (List α)
  | [] => some []
  | none :: _ => none
  | some a :: r => match sequence r with
      | some l => some (a :: l)
      | none => none

def addE : El → El → El
  | some a, some b => some (a + b)
  | _, _ => none
def subE : El → El → El
  | some a, some b => some (a - b)
  | _, _ => none
def mulE : El → El → El
  | some a, some b => some (a * b)
  | _, _ => none

/-- `sdiv`: 0 where the numerator is 0 (whatever the denominator), otherwise the checked quotient -/
def sdivE : El → El → El
  | some a, d => if a = 0 then some 0 else match d with
      | some b => divQ a b
      | none => none
  | none, _ => none

def powLimit : Nat := 64

/-- `**` with an integer exponent (`0 ** negative` undefined; other exponents not modelled) -/
def powE : El → El → El
  | some a, some b =>
      if b.den = 1 ∧ b.num.natAbs ≤ powLimit then
        if 0 ≤ b.num then some (a ^ b.num.toNat)
        else if a = 0 then none else some ((1 / a) ^ b.num.natAbs)
      else none
  | _, _ => none

def negE : El → El
  | some a => some (-a)
  | none => none
def floorE : El → El
  | some a => some (a.floor : Rat)
  | none => none
def minE : El → El → El
  | some a, some b => some (if a ≤ b then a else b)
  | _, _ => none
def maxE : El → El → El
  | some a, some b => some (if a ≤ b then b else a)
  | _, _ => none
def cmpE (f : Rat → Rat → Bool) : El → El → El
  | some a, some b => some (if f a b then 1 else 0)
  | _, _ => none

def binFn (op : BinOpK) (a b : Val El) : Option (Val El) :=
  match op with
  | .add => lift2 addE a b
  | .sub => lift2 subE a b
  | .mult => lift2 mulE a b
  | .div => lift2 sdivE a b
  | .pow => lift2 powE a b
  | _ => none

def cmpFn : CmpOpK → Option (Rat → Rat → Bool)
  | .eq => some fun a b => decide (a = b)
  | .notEq => some fun a b => decide (a ≠ b)
  | .lt => some fun a b => decide (a < b)
  | .ltE => some fun a b => decide (a ≤ b)
  | .gt => some fun a b => decide (b < a)
  | .gtE => some fun a b => decide (b ≤ a)
  | _ => none

/-- the whitelisted functions the model interprets (`vector_min`, `vector_max`, `np.floor`, `sdiv`);
  every other whitelisted name is opaque (`none`) -/
def callFn (f : String) (vs : List (Val El)) : Option (Val El) :=
  if f = "min" then match vs with
    | [] => none
    | v :: r => reduceV minE v r
  else if f = "max" then match vs with
    | [] => none
    | v :: r => reduceV maxE v r
  else if f = "floor" then match vs with
    | [v] => some (map1 floorE v)
    | _ => none
  else if f = "sdiv" then match vs with
    | [a, b] => lift2 sdivE a b
    | _ => none
  else none

abbrev Env := String → Option (Val El)

/-- the identifier when the first child is a bare name (the `func` position of a call) -/
def headName : List Py → Option String
  | .node (.name f) [] :: _ => some f
  | _ => none

/-- value of a node from its kind, the bare name in function position (if any) and the values of its children -/
def combine (wl : List String) (env : Env) (k : Kind) (hn : Option String) (vs : List (Option (Val El))) :
    Option (Val El) :=
  match k, hn, vs with
  | .constant (.int v), _, [] => some (.sc (some (v : Rat)))
  | .constant (.float r), _, [] => some (.sc r)
  | .name x, _, [] => if wl.contains x then none else env x
  | .binOp op, _, [some a, some b] => binFn op a b
  | .unaryOp .uSub, _, [some a] => some (map1 negE a)
  | .unaryOp .uAdd, _, [some a] => some a
  | .compare [op], _, [some a, some b] =>
      match cmpFn op with
      | some f => lift2 (cmpE f) a b
      | none => none
  | .call n [], some f, _ :: vargs =>
      if wl.contains f && vargs.length == n then
        match sequence vargs with
        | some l => callFn f l
        | none => none
      else none
  | _, _, _ => none

mutual
/-- exact evaluation: names resolve to the whitelist first (never a number), then to `env` -/
def eval (wl : List String) (env : Env) : Py → Option (Val El)
  | .node k cs => combine wl env k (headName cs) (evalL wl env cs)
def evalL (wl : List String) (env : Env) : List Py → List (Option (Val El))
  | [] => []
  | c :: cs => eval wl env c :: evalL wl env cs
end

/-- what `parse_function(s)[0](**env)` computes: evaluation of the transformed tree -/
def evalCurrent (wl : List String) (env : Env) (e : Py) : Option (Val El) := eval wl env (divTransform e)

/-- the `i`-th element (a scalar is its own every element) -/
def Val.at {ε : Type} (i : Nat) : Val ε → Option ε
  | .sc a => some a
  | .arr l => l[i]?

/-- the scalar environment seen by element `i` -/
def envAt (env : Env) (i : Nat) : Env := fun x =>
  match env x with
  | some v => (v.at i).map Val.sc
  | none => none

/-! ### Static typing used to delimit the compared fragment

  numpy gives boolean∘boolean arithmetic its own meaning (`True + True = True`, `-True` raises) where Python
  gives 2 and -1; the model evaluates comparisons to 0/1, so an arithmetic node all of whose operands are
  boolean-valued is outside the compared fragment. -/

def isBoolTyped : Py → Bool
  | .node (.compare _) _ => true
  | _ => false

def boolArith : Py → Bool
  | .node (.binOp _) cs => cs.all isBoolTyped
  | .node (.unaryOp _) cs => cs.all isBoolTyped
  | .node (.call _ _) (_ :: args) => !args.isEmpty && args.all isBoolTyped
  | _ => false

def inFragment (e : Py) : Bool := (subterms e).all fun t => !boolArith t

/-! ### `evaluate_plot_string` -/

def plotNodeOk : Py → Bool
  | .node (.dict _) _ => true
  | .node .list _ => true
  | .node (.constant .str) cs => cs.isEmpty
  | _ => false

/-- every node the walk visits (the root `Expression` excluded) is a `Dict`, a `List` or a string constant -/
def plotAccepts (e : Py) : Bool := (subterms e).all plotNodeOk

def hasBracket (s : String) : Bool := s.toList.any fun c => c == '{' || c == '['

/-! ### Evaluation with a running error bound (wire only, no theorem depends on it) -/

structure EB where
  v : Rat
  e : Rat
  amb : Bool
  deriving Repr

abbrev ElB := Option EB

def absQ (x : Rat) : Rat := if x < 0 then -x else x
def maxQ (a b : Rat) : Rat := if a ≤ b then b else a
def uRound : Rat := 1 / 4503599627370496  -- 2^-52
def rnd (x : Rat) : Rat := uRound * absQ x

def addB (sub : Bool) : ElB → ElB → ElB
  | some a, some b =>
      let v := if sub then a.v - b.v else a.v + b.v
      some ⟨v, a.e + b.e + rnd v, a.amb || b.amb⟩
  | _, _ => none

def mulB : ElB → ElB → ElB
  | some a, some b =>
      let v := a.v * b.v
      some ⟨v, absQ a.v * b.e + absQ b.v * a.e + a.e * b.e + rnd v, a.amb || b.amb⟩
  | _, _ => none

def sdivB : ElB → ElB → ElB
  | some a, d =>
      if a.v = 0 ∧ a.e = 0 then some ⟨0, 0, a.amb⟩
      else match d with
        | none => if a.v = 0 then some ⟨0, 0, true⟩ else none
        | some b =>
            if a.v = 0 then
              (if absQ b.v ≤ b.e then some ⟨0, 0, true⟩ else some ⟨0, a.e / (absQ b.v - b.e), a.amb || b.amb⟩)
            else if b.v = 0 then none
            else if absQ b.v ≤ b.e then some ⟨a.v / b.v, 0, true⟩
            else
              let v := a.v / b.v
              some ⟨v, (a.e + absQ v * b.e) / (absQ b.v - b.e) + rnd v, a.amb || b.amb⟩
  | none, _ => none

def powB : ElB → ElB → ElB
  | some a, some b =>
      if b.v.den = 1 ∧ b.v.num.natAbs ≤ powLimit then
        let n := b.v.num.natAbs
        let amb := a.amb || b.amb || decide (b.e ≠ 0)
        let hi := absQ a.v + a.e
        let lo := absQ a.v - a.e
        if 0 ≤ b.v.num then
          let v := a.v ^ n
          some ⟨v, (hi ^ n - absQ a.v ^ n) + 8 * (n + 1) * rnd v, amb⟩
        else if a.v = 0 then none
        else if lo ≤ 0 then some ⟨(1 / a.v) ^ n, 0, true⟩
        else
          let v := (1 / a.v) ^ n
          some ⟨v, ((1 / lo) ^ n - (1 / absQ a.v) ^ n) + 8 * (n + 1) * rnd v, amb⟩
      else none
  | _, _ => none

def negB : ElB → ElB
  | some a => some ⟨-a.v, a.e, a.amb⟩
  | none => none

def floorB : ElB → ElB
  | some a =>
      let f : Rat := (a.v.floor : Rat)
      let near := a.e ≠ 0 ∧ (a.v - f ≤ a.e ∨ f + 1 - a.v ≤ a.e)
      some ⟨f, 0, a.amb || decide near⟩
  | none => none

def minB (isMax : Bool) : ElB → ElB → ElB
  | some a, some b =>
      let pickB := if isMax then decide (a.v ≤ b.v) else decide (b.v < a.v)
      let c := if pickB then b else a
      -- when the operands are further apart than their bounds the same one is picked in floating point
      let separated := decide (a.e + b.e < absQ (a.v - b.v))
      some ⟨c.v, if separated then c.e else maxQ a.e b.e, a.amb || b.amb⟩
  | _, _ => none

def cmpB (f : Rat → Rat → Bool) : ElB → ElB → ElB
  | some a, some b =>
      let near := (a.e ≠ 0 ∨ b.e ≠ 0) ∧ absQ (a.v - b.v) ≤ a.e + b.e
      some ⟨if f a.v b.v then 1 else 0, 0, a.amb || b.amb || decide near⟩
  | _, _ => none

def binFnB (op : BinOpK) (a b : Val ElB) : Option (Val ElB) :=
  match op with
  | .add => lift2 (addB false) a b
  | .sub => lift2 (addB true) a b
  | .mult => lift2 mulB a b
  | .div => lift2 sdivB a b
  | .pow => lift2 powB a b
  | _ => none

def callFnB (f : String) (vs : List (Val ElB)) : Option (Val ElB) :=
  if f = "min" then match vs with
    | [] => none
    | v :: r => reduceV (minB false) v r
  else if f = "max" then match vs with
    | [] => none
    | v :: r => reduceV (minB true) v r
  else if f = "floor" then match vs with
    | [v] => some (map1 floorB v)
    | _ => none
  else if f = "sdiv" then match vs with
    | [a, b] => lift2 sdivB a b
    | _ => none
  else none

def constB (v : Int) : ElB :=
  some ⟨(v : Rat), if v.natAbs < 9007199254740992 then 0 else rnd (v : Rat), false⟩

def toB : Val El → Val ElB
  | .sc a => .sc (a.map fun x => ⟨x, 0, false⟩)
  | .arr l => .arr (l.map fun a => a.map fun x => ⟨x, 0, false⟩)

def combineB (wl : List String) (env : Env) (k : Kind) (hn : Option String) (vs : List (Option (Val ElB))) :
    Option (Val ElB) :=
  match k, hn, vs with
  | .constant (.int v), _, [] => some (.sc (constB v))
  | .constant (.float r), _, [] => some (.sc (r.map fun x => ⟨x, 0, false⟩))
  | .name x, _, [] => if wl.contains x then none else (env x).map toB
  | .binOp op, _, [some a, some b] => binFnB op a b
  | .unaryOp .uSub, _, [some a] => some (map1 negB a)
  | .unaryOp .uAdd, _, [some a] => some a
  | .compare [op], _, [some a, some b] =>
      match cmpFn op with
      | some f => lift2 (cmpB f) a b
      | none => none
  | .call n [], some f, _ :: vargs =>
      if wl.contains f && vargs.length == n then
        match sequence vargs with
        | some l => callFnB f l
        | none => none
      else none
  | _, _, _ => none

mutual
def evalB (wl : List String) (env : Env) : Py → Option (Val ElB)
  | .node k cs => combineB wl env k (headName cs) (evalBL wl env cs)
def evalBL (wl : List String) (env : Env) : List Py → List (Option (Val ElB))
  | [] => []
  | c :: cs => evalB wl env c :: evalBL wl env cs
end

/-! ### Wire format (driver only)

  tree:   `<Tag> <p> <payload × p> <n> <child × n>`  (pre-order, explicit arities)
  string: code points joined by `,` (`-` for the empty string) -/

def binOpOf : String → BinOpK
  | "Add" => .add | "Sub" => .sub | "Mult" => .mult | "Div" => .div | "Pow" => .pow | "FloorDiv" => .floorDiv
  | "Mod" => .mod | "MatMult" => .matMult | "LShift" => .lShift | "RShift" => .rShift | "BitOr" => .bitOr
  | "BitXor" => .bitXor | "BitAnd" => .bitAnd | _ => .unknown

def unOpOf : String → UnOpK
  | "UAdd" => .uAdd | "USub" => .uSub | "Not" => .not | "Invert" => .invert | _ => .unknown

def boolOpOf : String → BoolOpK
  | "And" => .and | "Or" => .or | _ => .unknown

def cmpOpOf : String → CmpOpK
  | "Eq" => .eq | "NotEq" => .notEq | "Lt" => .lt | "LtE" => .ltE | "Gt" => .gt | "GtE" => .gtE
  | "Is" => .is | "IsNot" => .isNot | "In" => .in_ | "NotIn" => .notIn | _ => .unknown

def constOf : List String → Const
  | ["int", v] => match v.toInt? with
      | some i => .int i
      | none => .unknown
  | ["float", v] => .float (parseRat? v)
  | ["complex"] => .complex | ["str"] => .str | ["bytes"] => .bytes
  | ["bool", "1"] => .bool true | ["bool", "0"] => .bool false
  | ["none"] => .none | ["ellipsis"] => .ellipsis
  | _ => .unknown

def mkKind (tag : String) (payload : List String) : Kind :=
  match tag, payload with
  | "BoolOp", [op] => .boolOp (boolOpOf op)
  | "NamedExpr", [] => .namedExpr
  | "BinOp", [op] => .binOp (binOpOf op)
  | "UnaryOp", [op] => .unaryOp (unOpOf op)
  | "Lambda", [] => .lambda
  | "IfExp", [] => .ifExp
  | "Dict", [u] => .dict (u.toNat?.getD 0)
  | "Set", [] => .set
  | "ListComp", [] => .listComp
  | "SetComp", [] => .setComp
  | "DictComp", [] => .dictComp
  | "GeneratorExp", [] => .generatorExp
  | "Await", [] => .await
  | "Yield", [] => .yield
  | "YieldFrom", [] => .yieldFrom
  | "Compare", ops => .compare (ops.map cmpOpOf)
  | "Call", n :: kws => .call (n.toNat?.getD 0) kws
  | "FormattedValue", [] => .formattedValue
  | "JoinedStr", [] => .joinedStr
  | "Constant", c => .constant (constOf c)
  | "Attribute", [a] => .attribute a
  | "Subscript", [] => .subscript
  | "Starred", [] => .starred
  | "Name", [x] => .name x
  | "List", [] => .list
  | "Tuple", [] => .tuple
  | "Slice", [] => .slice
  | t, _ => .other t

mutual
def parseNode : Nat → List String → Option (Py × List String)
  | 0, _ => none
  | fuel + 1, tag :: p :: rest =>
      match p.toNat? with
      | none => none
      | some pn =>
          if rest.length < pn then none else
          match rest.drop pn with
          | n :: rest' =>
              match n.toNat? with
              | none => none
              | some nn =>
                  match parseMany fuel nn rest' with
                  | some (cs, rest'') => some (.node (mkKind tag (rest.take pn)) cs, rest'')
                  | none => none
          | [] => none
  | _ + 1, _ => none
def parseMany : Nat → Nat → List String → Option (List Py × List String)
  | 0, _, _ => none
  | _ + 1, 0, toks => some ([], toks)
  | fuel + 1, k + 1, toks =>
      match parseNode fuel toks with
      | some (c, rest) =>
          match parseMany fuel k rest with
          | some (cs, rest') => some (c :: cs, rest')
          | none => none
      | none => none
end

/-- parse a whole token list as one tree (`syntaxerr` = the string did not parse) -/
def parseTree (toks : List String) : Option (Option Py) :=
  match toks with
  | ["syntaxerr"] => some none
  | _ => match parseNode (toks.length + 1) toks with
      | some (e, []) => some (some e)
      | _ => none

def decodeStr (tok : String) : Option String :=
  if tok = "-" then some "" else
  ((tok.splitOn ",").mapM fun (t : String) => t.toNat?.map Char.ofNat).map String.ofList

def encodeStr (s : String) : String :=
  if s.isEmpty then "-" else ",".intercalate (s.toList.map fun c => toString c.toNat)

def wl : List String := Generated.whitelist

def showEl : El → String
  | some r => showRat r
  | none => "nan"

def showVal : Val El → String
  | .sc a => "sc " ++ showEl a
  | .arr l => "arr " ++ toString l.length ++ (l.foldl (fun s a => s ++ " " ++ showEl a) "")

def showElB : ElB → String
  | some b => if b.amb then "amb" else showRat b.e
  | none => "nan"

def showValB : Val ElB → String
  | .sc a => showElB a
  | .arr l => " ".intercalate (l.map showElB)

/-- `expr-accept <str> <tree|syntaxerr>` →
  `g=<0|1> spec=<acc|rej:<Tag>|syntax> cur=<acc|rej|syntax> prep=<str> deps <n> <names…>` -/
def handleAccept : List String → Option String
  | s :: toks => do
      let str ← decodeStr s
      let t ← parseTree toks
      let g := if guards str then "1" else "0"
      let prep := encodeStr (preprocess str)
      match t with
      | none => some s!"g={g} spec=syntax cur=syntax prep={prep} deps 0"
      | some e =>
          let spec := match firstBad wl e with
            | none => "acc"
            | some b => "rej:" ++ b.kind.tag
          let cur := if acceptsCurrent wl e then "acc" else "rej"
          let d := depsCurrent wl e
          some (s!"g={g} spec={spec} cur={cur} prep={prep} deps {d.length}" ++ d.foldl (fun a x => a ++ " " ++ x) "")
  | _ => none

def parseEnv : Nat → List String → Option (List (String × Val El) × List String)
  | 0, toks => some ([], toks)
  | k + 1, name :: "s" :: v :: rest => do
      let (l, r) ← parseEnv k rest
      some ((name, .sc (parseRat? v)) :: l, r)
  | k + 1, name :: "a" :: n :: rest => do
      let nn ← n.toNat?
      if rest.length < nn then none else
      let (l, r) ← parseEnv k (rest.drop nn)
      some ((name, .arr ((rest.take nn).map parseRat?)) :: l, r)
  | _, _ => none

/-- some sub-expression has an undefined element (Python's own scalar `**` raises there where numpy gives inf) -/
def anyUndefined (wl : List String) (env : Env) (e : Py) : Bool :=
  (subterms e).any fun t => match eval wl env t with
    | some (.sc none) => true
    | some (.arr l) => l.any Option.isNone
    | _ => false

/-- `expr-eval <nvars> {<name> s <v> | <name> a <len> <v…>}… <tree>` →
  `frag=<0|1> sub=<0|1> none` | `frag=<0|1> sub=<0|1> <sc v | arr n v…> | <bounds…>` (bound = rational, `amb`, or `nan`) -/
def handleEval : List String → Option String
  | n :: toks => do
      let nn ← n.toNat?
      let (bindings, rest) ← parseEnv nn toks
      let t ← parseTree rest
      let e ← t
      let env : Env := fun x => bindings.lookup x
      let frag := if inFragment e then "1" else "0"
      let sub := if anyUndefined wl env e then "1" else "0"
      match evalCurrent wl env e, evalB wl env (divTransform e) with
      | some v, some b => some s!"frag={frag} sub={sub} {showVal v} | {showValB b}"
      | _, _ => some s!"frag={frag} sub={sub} none"
  | _ => none

/-- `plotstr <str> <tree|syntaxerr>` → `pass` | `check g=<0|1> <acc|rej|syntax>` -/
def handlePlot : List String → Option String
  | s :: toks => do
      let str ← decodeStr s
      let t ← parseTree toks
      if !hasBracket str then some "pass" else
      let g := if guards str then "1" else "0"
      match t with
      | none => some s!"check g={g} syntax"
      | some e => some (s!"check g={g} " ++ (if plotAccepts e then "acc" else "rej"))
  | _ => none

def handle (kind : String) : List String → Option String :=
  if kind = "expr-accept" then handleAccept
  else if kind = "expr-eval" then handleEval
  else if kind = "plotstr" then handlePlot
  else fun _ => none

end Atomica.Expr
