/-
  AtomicaModel.Scenario — the pieces of atomica that decide *when* an intervention acts (C09).

    * `active`          — `Model.update_pars`: `do_program_overwrite = programs_active and start_year <= t[ti] <= stop_year`
    * `evalOne`/`evalFrom` — `Model.update_pars` for the parameters of one time index, in execution order:
                          function (unless inside the skip window) → program overwrite (when active and targeted,
                          with the units conversion) → limits.  Function values and program outcomes are *inputs*
                          (they come from the function parser and from `Covout.get_outcome`, which C12/C13 model).
    * `policy`          — the parameter values of index `i` as a function of the stocks at `i` (closes the loop of layer L1)
    * `runClosed`/`processClosed` — `Model.process` with the parameter values produced by a policy, built on the frozen
                          `Engine.step` / `Engine.flushAll`
    * `apply`           — `ParameterScenario.get_parset` for one (parameter, population): baseline values pinned on all
                          simulation times before the first overwrite `Y`, overwrites inserted, `Parameter.smooth` on the
                          times `≥ Y` (`remove_between` + re-insert), function skipped on `[Y, ∞)`.

  Numbers are exact rationals; NaN stored values are `none` (as in AtomicaModel.Series).
-/
import AtomicaModel.Series
import AtomicaModel.Engine
namespace Atomica.Scenario
open Atomica Atomica.Series Atomica.Engine

/-! ### program gating -/

/-- `start_year <= t <= stop_year`; `stop = none` is `inf` (`ProgramInstructions`: `stop_year if stop_year else inf`) -/
def active (start : Rat) (stop : Option Rat) (t : Rat) : Bool :=
  decide (start ≤ t) && (match stop with | none => true | some s => decide (t ≤ s))

/-! ### one parameter at one time index -/

/-- units that matter for the program overwrite: `number`, `rate`/`probability`, anything else -/
inductive PUnits | number | rate | other
  deriving DecidableEq, Repr

structure Limits where
  lo : Option Rat
  hi : Option Rat
deriving Repr

/-- `Parameter.constrain(ti)`: two successive `if`s -/
def constrain (lim : Limits) (v : Rat) : Rat :=
  let v1 := match lim.lo with
    | some l => if v < l then l else v
    | none => v
  match lim.hi with
  | some h => if v1 > h then h else v1
  | none => v1

/-- `Parameter.update(ti)` returns early when `skip[0] <= t <= skip[1]` (`skip[1] = none` is `inf`) -/
def skipped (w : Option (Rat × Option Rat)) (t : Rat) : Bool :=
  match w with
  | none => false
  | some (a, b) => decide (a ≤ t) && (match b with | none => true | some b => decide (t ≤ b))

/-- the program outcome is per person reached per step: `number` → `× source_popsize/dt`, `rate/probability` → `/dt`
    (`dt > 0` is asserted by `ProjectSettings`) -/
def progConv (u : PUnits) (dt popsize o : Rat) : Rat :=
  match u with
  | .number => o * (popsize / dt)
  | .rate => o / dt
  | .other => o

/-- value of one (non-aggregated, non-derivative) parameter after `update_pars` at a time `t`:
    `stored` is `par.vals[ti]` on entry (the parset value put there by `build`), `fn` the scaled function value on the
    current dependencies (if the parameter has a function), `prog` the program outcome (if the parameter is targeted) -/
def evalOne (act : Bool) (t dt popsize stored : Rat) (fn : Option Rat) (skip : Option (Rat × Option Rat))
    (u : PUnits) (lim : Limits) (prog : Option Rat) : Rat :=
  let v0 := match fn with
    | some f => if skipped skip t then stored else f
    | none => stored
  let v1 := if act then (match prog with | some o => progConv u dt popsize o | none => v0) else v0
  constrain lim v1

/-- a parameter as `update_pars` sees it -/
structure ParSpec where
  /-- parset value on the grid (× y-factors), what `build` wrote into `par.vals` -/
  stored : Nat → Rat
  /-- scaled function of (values of parameters updated earlier in this step, stocks, time index) -/
  fn : Option ((Nat → Rat) → Stock → Nat → Rat)
  skip : Option (Rat × Option Rat)
  units : PUnits
  lim : Limits
  /-- `Parameter.source_popsize(ti)` -/
  popsize : Stock → Rat

/-- the parameters of one time index in execution order; `env k` is the value of parameter `k` (already updated ones
    hold their new value) -/
def evalFrom (act : Bool) (t dt : Rat) (i : Nat) (x : Stock) (prog : Nat → Option Rat) :
    List ParSpec → Nat → (Nat → Rat) → (Nat → Rat)
  | [], _, env => env
  | s :: rest, k, env =>
      let v := evalOne act t dt (s.popsize x) (s.stored i) (s.fn.map (fun f => f env x i)) s.skip s.units s.lim (prog k)
      evalFrom act t dt i x prog rest (k + 1) (fun j => if j = k then v else env j)

/-- everything that produces the parameter values of an index -/
structure Setup where
  specs : List ParSpec
  /-- grid time of an index -/
  tg : Nat → Rat
  dt : Rat
  /-- program outcomes `(par → value)` at an index given the stocks (coverage depends on the stocks);
      `none`: the parameter is not targeted.  `fun _ _ _ => none` is "no program set". -/
  progs : Nat → Stock → Nat → Option Rat
  start : Rat
  stop : Option Rat

def noProgs : Nat → Stock → Nat → Option Rat := fun _ _ _ => none

/-- `par.vals[ti]` of every parameter on entry to `update_pars` (what `build` stored) -/
def initEnv (specs : List ParSpec) (i : Nat) : Nat → Rat :=
  fun k => match specs[k]? with
    | some s => s.stored i
    | none => 0

/-- parameter values of index `i` given the stocks at `i` -/
def policy (S : Setup) (i : Nat) (x : Stock) : Nat → Rat :=
  evalFrom (active S.start S.stop (S.tg i)) (S.tg i) S.dt i x (S.progs i x) S.specs 0 (initEnv S.specs i)

/-! ### the closed loop: `Model.process` with parameter values produced from the current stocks -/

variable (net : Net)

/-- `n` steps starting at index `i` from stocks `x`; entry `j` is (stocks at `i+j`, flows at `i+j`) -/
def runClosed (dt : Rat) (P : Nat → Stock → (Nat → Rat)) : Nat → Nat → Stock → Option (List (Stock × Flow))
  | _, 0, _ => some []
  | i, n + 1, x =>
      match step net dt (P i x) x with
      | none => none
      | some (fl, x') =>
          match runClosed dt P (i + 1) n x' with
          | none => none
          | some rest => some ((x, fl) :: rest)

/-- the parameter stream a closed-loop run used -/
def pvsOf (P : Nat → Stock → (Nat → Rat)) : Nat → List (Stock × Flow) → List (Nat → Rat)
  | _, [] => []
  | i, e :: rest => P i e.1 :: pvsOf P (i + 1) rest

/-- start-up of `Model.process`: parameters, junction flush, then the main loop -/
def processClosed (dt : Rat) (P : Nat → Stock → (Nat → Rat)) (n : Nat) (xinit : Stock) : Option (List (Stock × Flow)) :=
  (flushAll net (P 0 xinit) xinit net.jorder).bind (fun x0 => runClosed net dt P 0 n x0)

/-! ### `ParameterScenario.get_parset` for one (parameter, population) -/

inductive Method | linear | previous
  deriving DecidableEq, Repr

def interp (m : Method) (s : TS) (x : Rat) : Out :=
  match m with
  | .linear => interpLinear s x
  | .previous => interpPrevious s x

/-- what gets stored for time `t` from an interpolated value: NaN → `(t, NaN)`; `err` = the call raised -/
def outRaw (t : Rat) : Out → Option Raw
  | .val v => some (some t, some v)
  | .nan => some (some t, none)
  | .err => none

def insertAll (pts : List (Rat × Option Rat)) (raw : List Raw) : List Raw :=
  pts.foldl (fun acc p => insertRaw p.1 p.2 acc) raw

/-- `TimeSeries.remove_between((lo, hi))`: end points excluded -/
def removeBetween (lo hi : Rat) (raw : List Raw) : List Raw :=
  raw.filter (fun r => match r.1 with
    | some t => !(decide (lo < t) && decide (t < hi))
    | none => true)

def minL : List Rat → Option Rat
  | [] => none
  | a :: rest => match minL rest with
    | none => some a
    | some b => some (if b < a then b else a)

def maxL : List Rat → Option Rat
  | [] => none
  | a :: rest => match maxL rest with
    | none => some a
    | some b => some (if a < b then b else a)

/-- values of `s` (method `m`) at the times `ts`, as stored entries; `none` if the interpolation raised -/
def sample (m : Method) (s : TS) : List Rat → Option (List Raw)
  | [] => some []
  | t :: ts =>
      match outRaw t (interp m s t), sample m s ts with
      | some r, some rs => some (r :: rs)
      | _, _ => none

def rawPts (raw : List Raw) : List (Rat × Option Rat) :=
  raw.filterMap (fun r => r.1.map (fun t => (t, r.2)))

/-- `Parameter.smooth(tvec, method)` on a non-empty `tvec` (`lo`, `hi` its min and max):
    interpolate, `remove_between((lo, hi))`, insert the interpolated values -/
def smooth (m : Method) (s : TS) (post : List Rat) (lo hi : Rat) : Option (List Raw) :=
  match sample m s post with
  | none => none
  | some v2 => some (insertAll (rawPts v2) (removeBetween lo hi s.raw))

/-- `get_parset` for one overwrite, given `Y = min(overwrite t)` -/
def applyAt (s : TS) (tvec : List Rat) (ov : List (Rat × Rat)) (m : Method) (Y : Rat) : Option (List Raw) :=
  match sample .linear s (tvec.filter (fun t => decide (t < Y))) with       -- par.interpolate(tvec[tvec < Y]) (default method)
  | none => none
  | some pinned =>
      match minL (tvec.filter (fun t => !decide (t < Y))), maxL (tvec.filter (fun t => !decide (t < Y))) with
      | some lo, some hi =>
          smooth m { raw := insertAll (ov.map (fun p => (p.1, some p.2))) pinned, assumption := s.assumption }
            (tvec.filter (fun t => !decide (t < Y))) lo hi
      | _, _ => none                                        -- min() of an empty array raises

/-- `get_parset` for one overwrite `ov` (finite dated values, not empty): returns the new stored series and `Y`
    (the function is skipped on `[Y, ∞)` when the parameter has one).  `none`: the call raised (the baseline series holds
    only NaN values, or no simulation time is at or after `Y`) or there is nothing to overwrite. -/
def apply (s : TS) (tvec : List Rat) (ov : List (Rat × Rat)) (m : Method) : Option (List Raw × Rat) :=
  match minL (ov.map (·.1)) with
  | none => none
  | some Y => (applyAt s tvec ov m Y).map (fun r => (r, Y))

/-! ### driver -/

def pOptRat (s : String) : Option (Option Rat) := parseOptRat? s

def showBool (b : Bool) : String := if b then "1" else "0"

/-- `c09-gate <start> <stop|nan> <m> t1 … tm` → `b1 … bm` -/
def handleGate : List String → Option String
  | a :: b :: m :: ts => do
      let start ← parseRat? a
      let stop ← pOptRat b
      let m ← m.toNat?
      let ts ← parseRats? ts
      if ts.length ≠ m then none else
      some (" ".intercalate (ts.map (fun t => showBool (active start stop t))))
  | _ => none

def pUnits? : String → Option PUnits
  | "n" => some .number | "r" => some .rate | "o" => some .other | _ => none

/-- `c09-evalone <start> <stop|nan> <t> <dt> <popsize> <stored> <fn|nan> <skipA|nan> <skipB|nan> <units> <lo|nan> <hi|nan> <prog|nan>`
    → value -/
def handleEvalOne : List String → Option String
  | [a, b, t, dt, n, st, fn, sa, sb, u, lo, hi, pr] => do
      let start ← parseRat? a
      let stop ← pOptRat b
      let t ← parseRat? t
      let dt ← parseRat? dt
      let n ← parseRat? n
      let st ← parseRat? st
      let fn ← pOptRat fn
      let sa ← pOptRat sa
      let sb ← pOptRat sb
      let u ← pUnits? u
      let lo ← pOptRat lo
      let hi ← pOptRat hi
      let pr ← pOptRat pr
      if dt = 0 then some "err dt" else
      let skip := sa.map (fun a => (a, sb))
      some (showRat (evalOne (active start stop t) t dt n st fn skip u ⟨lo, hi⟩ pr))
  | _ => none

def pMethod? : String → Option Method
  | "linear" => some .linear | "previous" => some .previous | _ => none

def parseFinPairs? : Nat → List String → Option (List (Rat × Rat) × List String)
  | 0, rest => some ([], rest)
  | n + 1, a :: b :: rest => do
      let t ← parseRat? a
      let v ← parseRat? b
      let (ps, rest') ← parseFinPairs? n rest
      some ((t, v) :: ps, rest')
  | _, _ => none

/-- `c09-scen <method> <assumption|nan> <n> t1 v1 … <k> T1 … Tk <j> o1 y1 … oj yj`
    → `ok <Y> <n'> t1 v1 …` (the stored series after `get_parset`) or `raise` -/
def handleScen : List String → Option String
  | m :: a :: n :: rest => do
      let m ← pMethod? m
      let asm ← pOptRat a
      let n ← n.toNat?
      let (raw, rest1) ← parsePairs? n rest
      match rest1 with
      | k :: rest2 => do
          let k ← k.toNat?
          let tv ← parseRats? (rest2.take k)
          if tv.length ≠ k then none else
          match rest2.drop k with
          | j :: rest3 => do
              let j ← j.toNat?
              let (ov, rest4) ← parseFinPairs? j rest3
              if rest4 ≠ [] then none else
              match apply { raw := raw, assumption := asm } tv ov m with
              | none => some "raise"
              | some (r, Y) => some ("ok " ++ showRat Y ++ " " ++ showRaw r)
          | [] => none
      | [] => none
  | _ => none

end Atomica.Scenario
