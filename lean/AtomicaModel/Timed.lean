/-
  AtomicaModel.Timed — timed compartments ("keyring") of `atomica/model.py` (C05), core Lean only.

    * `nrows D dt`            — the number of keyring rows `TimedCompartment.preallocate` / `TimedLink.preallocate`
                                are specified to allocate: `max 1 ⌈D/dt⌉`, where a quotient within 1e-9 of an integer
                                counts as that integer ("n = k when D is k steps up to rounding error").
    * `nrowsCurrent D dt`     — what the code computes today on the same (exact) numbers: `max(1, math.ceil(D/dt))`
                                with no tolerance; the two differ on `D = 3*0.1, dt = 0.1` (witness in C05.lean).
    * `Keyring`               — the single-compartment abstraction used by the cohort theorems: rows `Nat → Rat`
                                (row 0 is flushed, arrivals enter row `n-1`), one step = "keep the fraction `σ r` of every
                                row, advance every row by one, put the arrivals `a` into the last row".
                                `AtomicaProofs/Properties/C05.lean` proves that `Engine.updateComps`/`Engine.resolveFlow`
                                restricted to one timed compartment *is* this step (`keyring_refines_engine`).
  Driver requests:
    trows <D> <dt>                                  → `<n>`            (or `err dt`)
    tkey  <n> <T> <init[n]> <a[T]> <σ[T*n]>          → `<flush[T]> | <rows at T [n]>`   (σ row-major: step t, row r)
-/
import AtomicaModel.Grid
namespace Atomica.Timed
open Atomica.Grid

/-- rows of the keyring of a timed compartment / timed link with duration `D` (in years) and step `dt` -/
def nrows (D dt : Rat) : Nat := max 1 (ceilTol (D / dt)).toNat

/-- faithful rendering of the present code: `max(1, math.ceil(duration/dt))`, no tolerance -/
def nrowsCurrent (D dt : Rat) : Nat := max 1 ((D / dt).ceil).toNat

/-! ### the abstract keyring -/

/-- one keyring step for a compartment of `n` rows: `σ r` = fraction of row `r` that is *not* removed by ordinary
    outflows this step, `a` = arrivals of this step (they restart the clock: last row).  Rows `≥ n` stay 0. -/
def kstep (n : Nat) (σ : Nat → Rat) (a : Rat) (rows : Nat → Rat) : Nat → Rat := fun r =>
  if r + 1 < n then σ (r + 1) * rows (r + 1) else if r + 1 = n then a else 0

/-- timed outflow of the step: what is left in row 0 after the ordinary outflows -/
def kflush (σ : Nat → Rat) (rows : Nat → Rat) : Rat := σ 0 * rows 0

/-- state after `t` steps from `init`, with arrivals `a u` and survival factors `σ u r` at step `u` -/
def krows (n : Nat) (σ : Nat → Nat → Rat) (a : Nat → Rat) (init : Nat → Rat) : Nat → Nat → Rat
  | 0 => init
  | t + 1 => kstep n (σ t) (a t) (krows n σ a init t)

/-- the timed outflow recorded at step `t` -/
def flushAt (n : Nat) (σ : Nat → Nat → Rat) (a : Nat → Rat) (init : Nat → Rat) (t : Nat) : Rat :=
  kflush (σ t) (krows n σ a init t)

/-- occupancy at step `t` -/
def total (n : Nat) (σ : Nat → Nat → Rat) (a : Nat → Rat) (init : Nat → Rat) (t : Nat) : Rat :=
  sumTo n (krows n σ a init t)

/-- `TimedCompartment.__setitem__` at index 0: `I` people spread uniformly over the `n` rows -/
def uniformInit (n : Nat) (I : Rat) : Nat → Rat := fun r => if r < n then I / (n : Rat) else 0

/-! ### driver -/

def handleRows : List String → Option String
  | [a, b] => do
      let D ← parseRat? a
      let dt ← parseRat? b
      if dt ≤ 0 then some "err dt" else some (toString (nrows D dt))
  | _ => none

def handleKey (args : List String) : Option String := do
  match args with
  | sn :: sT :: rest =>
      let n ← sn.toNat?
      let T ← sT.toNat?
      let vals ← parseRats? rest
      if vals.length ≠ n + T + T * n then none else
      let v := vals.toArray
      let init := fun r => if r < n then v.getD r 0 else 0
      let a := fun t => v.getD (n + t) 0
      let σ := fun t r => v.getD (n + T + t * n + r) 0
      -- `krows` uses the previous state once per entry, so direct evaluation is linear in `T` per entry
      let fl := (List.range T).map (flushAt n σ a init)
      let rows := (List.range n).map (krows n σ a init T)
      some (showRats fl ++ " | " ++ showRats rows)
  | _ => none

end Atomica.Timed
