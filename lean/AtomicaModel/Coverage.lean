/-
  AtomicaModel.Coverage — program capacity and fractional coverage (C11; inputs of C12/C13).

  Mirrors, value by value at one time point,
    * `TimeSeries.interpolate(t, method="previous")`            → `Series.at`
    * `Program.get_capacity`                                     → `capacity`
    * `Program.get_prop_covered`                                 → `propCovered`
    * `ProgramSet.get_alloc / get_capacities / get_prop_coverage`
      with the overwrites of a `ProgramInstructions`             → `allocAt`, `capacityAt`, `effective`
  Numbers are exact rationals; every Python division is `divQ` (NaN/inf ↦ `none`).
  `exp` is a parameter `E : Rat → Rat` (the proofs assume positivity, monotonicity, `E 0 = 1` and the
  Padé bound, all proved for `Real.exp` in AtomicaProofs/Properties/C11Real.lean); the driver is handed
  the double that numpy's `exp` returned for the argument and uses the constant function.
-/
import AtomicaModel.Basic
namespace Atomica.Coverage

/-- `np.minimum(a, b)` on non-NaN numbers -/
def minQ (a b : Rat) : Rat := if a ≤ b then a else b

/-! ### Stepped interpolation (`method="previous"`, constant extrapolation on both sides) -/

/-- scan of the points after the first one: keep the value of the last point with time `≤ t`
    (times strictly increasing, as `TimeSeries.insert` maintains them) -/
def stepPrev : List (Rat × Rat) → Rat → Rat → Rat
  | [], cur, _ => cur
  | (ti, vi) :: rest, cur, t => if ti ≤ t then stepPrev rest vi t else cur

/-- A `TimeSeries`: optional time-independent assumption, time points sorted by time. -/
structure Series where
  assump : Option Rat
  pts : List (Rat × Rat)
  deriving Repr

/-- `TimeSeries.has_data` -/
def Series.hasData (s : Series) : Bool := s.assump.isSome || !s.pts.isEmpty

/-- `TimeSeries.interpolate(t, method="previous")`; `none` = NaN (no data at all).
    Time-specific data, when present, hides the assumption. -/
def Series.at (s : Series) (t : Rat) : Option Rat :=
  match s.pts with
  | [] => s.assump
  | (_, v0) :: rest => some (stepPrev rest v0 t)

/-! ### Capacity (`Program.get_capacity`) -/

/-- Timestep capacity in people: `spending (·dt if one-off) / unit cost`, capped by the capacity
    constraint (`·dt` if the constraint is in people/year). -/
def capacity (spend unitCost dt : Rat) (oneOff : Bool) (capCon : Option Rat) (capPerYear : Bool) : Option Rat :=
  match divQ (if oneOff then spend * dt else spend) unitCost with
  | none => none
  | some c =>
    match capCon with
    | none => some c
    | some k => some (minQ (if capPerYear then k * dt else k) c)

/-! ### Fraction covered (`Program.get_prop_covered`) -/

/-- the saturation curve `2a/(1+e) - a` where `e = exp(-2x/a)` -/
def satCurve (s e : Rat) : Option Rat := (divQ (2 * s) (1 + e)).map (· - s)

/-- Fraction covered.  Without saturation: `cap/elig` where `elig > cap`, else 1 (so 0/0 ↦ 1).
    With saturation `s` (modelled for `s > 0` only): raw fraction `x = cap/elig` (`∞` when nobody is
    eligible, where `exp(-∞) = 0` gives the saturation level itself), curve, cap at 1. -/
def propCovered (E : Rat → Rat) (cap elig : Rat) (sat : Option Rat) : Option Rat :=
  match sat with
  | none => if elig > cap then divQ cap elig else some 1
  | some s =>
    if s ≤ 0 then none
    else if elig = 0 then some (minQ s 1)
    else (satCurve s (E (-2 * (cap / elig) / s))).map (minQ · 1)

/-! ### Overwrites (`ProgramSet.get_alloc / get_capacities / get_prop_coverage`) -/

/-- program-book values of one program at one time point -/
structure ProgAt where
  spend : Rat
  unitCost : Rat
  oneOff : Bool
  capCon : Option Rat
  capPerYear : Bool
  sat : Option Rat
  deriving Repr

/-- overwrites of the instructions for that program at that time point (`none` = not in the dict) -/
structure InstrAt where
  alloc : Option Rat
  capacity : Option Rat
  coverage : Option Rat
  deriving Repr

/-- `get_alloc`: spending overwrite replaces the program-book spending -/
def allocAt (i : InstrAt) (p : ProgAt) : Rat := i.alloc.getD p.spend

/-- `get_capacities`: a capacity overwrite (people/year; `·dt` for one-off programs) replaces the
    computed capacity, which itself uses the (possibly overwritten) spending -/
def capacityAt (i : InstrAt) (p : ProgAt) (dt : Rat) : Option Rat :=
  match i.capacity with
  | some c => some (if p.oneOff then c * dt else c)
  | none => capacity (allocAt i p) p.unitCost dt p.oneOff p.capCon p.capPerYear

/-- `get_prop_coverage`: a coverage overwrite (`·dt` for one-off programs) replaces the computed
    coverage; final `min(·, 1)`. -/
def effective (E : Rat → Rat) (i : InstrAt) (p : ProgAt) (dt elig : Rat) : Option Rat :=
  match i.coverage with
  | some c => some (minQ (if p.oneOff then c * dt else c) 1)
  | none =>
    match capacityAt i p dt with
    | none => none
    | some cap => (propCovered E cap elig p.sat).map (minQ · 1)

/-! ### Driver -/

def parseBool? : String → Option Bool
  | "0" => some false
  | "1" => some true
  | _ => none

def parseOptRat? (s : String) : Option (Option Rat) :=
  if s = "none" then some none else (parseRat? s).map some

def parsePts? : List String → Option (List (Rat × Rat))
  | [] => some []
  | a :: b :: rest => do
      let t ← parseRat? a
      let v ← parseRat? b
      let r ← parsePts? rest
      some ((t, v) :: r)
  | _ => none

/-- a series on the wire: `<assumption|none> t1 v1 … tn vn`; the token `absent` alone = not present -/
def parseSeries? : List String → Option (Option Series)
  | ["absent"] => some none
  | a :: rest => do
      let asm ← parseOptRat? a
      let pts ← parsePts? rest
      some (some ⟨asm, pts⟩)
  | [] => none

def splitBar (l : List String) : List (List String) :=
  l.foldr (fun tok acc =>
    if tok = "|" then [] :: acc
    else match acc with
      | [] => [[tok]]
      | h :: t => (tok :: h) :: t) [[]]

def evalOpt (s : Option Series) (t : Rat) : Option Rat := s.bind (·.at t)

/--
  `capacity <spend> <unitcost> <dt> <oneoff> <capcon|none> <peryear>` → capacity or `nan`
  `propcov <cap> <elig> <sat|none> <e>` → fraction covered or `nan` (`e` = the double `exp(-2·cap/elig/sat)`)
  `effcov <t> <dt> <elig> <e> <oneoff> <peryear> | spend | unitcost | capcon | sat | alloc | capacity | coverage`
      (seven series) → `<alloc> <capacity> <coverage>` at time `t`
-/
def handleCapacity : List String → Option String
  | [a, b, c, d, e, f] => do
      let spend ← parseRat? a
      let uc ← parseRat? b
      let dt ← parseRat? c
      let oneOff ← parseBool? d
      let capCon ← parseOptRat? e
      let perYear ← parseBool? f
      some (showOptRat (capacity spend uc dt oneOff capCon perYear))
  | _ => none

def handlePropcov : List String → Option String
  | [a, b, c, d] => do
      let cap ← parseRat? a
      let elig ← parseRat? b
      let sat ← parseOptRat? c
      let e ← parseRat? d
      if e < 0 then some "err e" else
      some (showOptRat (propCovered (fun _ => e) cap elig sat))
  | _ => none

def handleEffcov (args : List String) : Option String :=
  match splitBar args with
  | [[a, b, c, d, f, g], s1, s2, s3, s4, s5, s6, s7] => do
      let t ← parseRat? a
      let dt ← parseRat? b
      let elig ← parseRat? c
      let e ← parseRat? d
      let oneOff ← parseBool? f
      let perYear ← parseBool? g
      let spendS ← parseSeries? s1
      let ucS ← parseSeries? s2
      let capS ← parseSeries? s3
      let satS ← parseSeries? s4
      let allocS ← parseSeries? s5
      let capOvS ← parseSeries? s6
      let covOvS ← parseSeries? s7
      if e < 0 then some "err e" else
      match evalOpt spendS t, evalOpt ucS t with
      | some spend, some uc =>
        let p : ProgAt := ⟨spend, uc, oneOff, evalOpt capS t, perYear, evalOpt satS t⟩
        -- an overwrite entry that is present but evaluates to NaN is outside the modelled domain
        if (allocS.isSome && (evalOpt allocS t).isNone) || (capOvS.isSome && (evalOpt capOvS t).isNone)
            || (covOvS.isSome && (evalOpt covOvS t).isNone) then some "err overwrite-nan" else
        let i : InstrAt := ⟨evalOpt allocS t, evalOpt capOvS t, evalOpt covOvS t⟩
        some (showRat (allocAt i p) ++ " " ++ showOptRat (capacityAt i p dt) ++ " "
              ++ showOptRat (effective (fun _ => e) i p dt elig))
      | _, _ => some "err no-data"
  | _ => none

/-- all three request kinds (the dispatcher strips the kind, so `Driver.Main` registers the three
    handlers separately; this combined form is for `#eval`) -/
def handle : List String → Option String
  | "capacity" :: rest => handleCapacity rest
  | "propcov" :: rest => handlePropcov rest
  | "effcov" :: rest => handleEffcov rest
  | _ => none

end Atomica.Coverage
