/-
  AtomicaModel.ClosedProg — the closed loop of `AtomicaModel.Closed` WITH a program layer evaluated inside the loop
  (C13 "active programs set targeted parameters exactly", C09 "no effect before the start", C06 pipeline).

      simulate : PSpec → Option Trajectory          -- one entry (stock, flows) per time index, from the specification alone

  A `PSpec` is a `Closed.Spec` plus what `Model._update_program_cache` / `Model.update_pars` (program block) read:
    * per program: target compartments (target_pops × target_comps, flattened), spending / unit cost / capacity constraint series
      (stepped interpolation, `Coverage.Series.at`), one-off vs continuous, capacity constraint per year or absolute, and the
      overwrites of the `ProgramInstructions` for that program (alloc / capacity / coverage; `none` = not in the dict);
    * per (parameter, population): a `Params.CovoutSpec` (interaction, baseline, single-program outcomes in dict order,
      explicit interaction outcomes);
    * `start_year`, optional `stop_year`;
    * per parameter: the units as far as the program conversion cares (`Params.Units`), whether `update_pars` visits its name
      (`_exec_order['dynamic_pars']`) and whether it is an output-only ("postcompute") function parameter.

  NOT modelled: saturation (`exp` is not rational-closed): every program has `sat = none`; the harness excludes program sets
  with saturation data.  Everything else of the program block is in: constraints, one-off scaling, the three overwrites,
  coverage interactions (additive / nested / random) and explicit interaction outcomes.

  What one time index does (`evalParsP`, mirror of `update_pars` at `ti` with programs):
    1. characteristics (`Closed.evalCharacs`);
    2. if `start_year ≤ t ≤ stop_year`: for every program the number eligible `n = Σ comp[ti]` over its target compartments
       (state of THIS trajectory), capacity from the cached capacities (`Coverage.capacityAt`: spending overwrite → capacity,
       or the capacity overwrite), coverage (`Params.covUsed`: the coverage overwrite, or `Program.get_prop_covered`), and for
       every covout the outcome (`Params.outcomeFrom` = `Covout.get_outcome`);
    3. parameters in execution order; for a parameter the loop visits and that has a covout, while programs are active:
         value := `Params.evalOne` of the pipeline inputs the closed loop has computed itself
                = clip(convert(outcome))   (number: `· source_popsize/dt`; probability/rate: `/dt`; others unchanged)
                  — except that a population aggregation is written after the program stage and an output-only function
                    parameter is re-evaluated after the run (both as in `Params.evalOne`);
       every other parameter by the program-free rule `Closed.parVal` (so dependent function parameters, which come later in
       the execution order, are evaluated from the overwritten value).
  The loop itself (`simulateEv`) is `Closed`'s loop with the parameter policy as an argument (values of an index `ev`, Euler step
  of the derivative parameters `adv`; loop state = stocks and derivative values); `Closed.simulateN` is the instance
  `ev = Closed.evalPars`, `adv = Closed.nextD` (proved in C13Closed.lean).
  Skip windows and derivative parameters of the base specification are followed: inside its window a targeted parameter still
  takes the program value while programs are active (`Params.evalOne` with `skip`), an untargeted one the scenario value; the
  rate of a derivative parameter is evaluated on the values so far, overwritten ones included (`advStepP`).  A covout ON a
  derivative parameter (the code overwrites `_dx`) is refused by `wfPSpec`.

  Driver: `cpsim <budget bits> <pspec>` (memoised, bit budget as `csim`), `cpsimref <pspec>` (= `simulate` verbatim, tiny cases),
  `cpwf <pspec>`.
-/
import AtomicaModel.Closed
import AtomicaModel.Params
namespace Atomica.ClosedProg
open Atomica Atomica.Engine Atomica.Closed

abbrev Trajectory := List (Stock × Flow)

/-! ### the closed loop over an arbitrary parameter policy
    `ev : index → stocks → derivative values → values` and `adv : index → stocks → derivative values → next derivative values`
    (loop state: the stocks `x` and the current values `d` of the derivative parameters) -/

abbrev Policy := Nat → Stock → Vals → Vals

/-- `update_pars(); update_links()` at index `i`, `update_comps()` to index `i+1` -/
def stepEv (net : Net) (dt : Rat) (ev : Policy) (i : Nat) (x : Stock) (d : Vals) : Option (Flow × Stock) :=
  if linkParsDefined net (ev i x d) then Engine.step net dt (pvOf (ev i x d)) x else none

def runEv (net : Net) (dt : Rat) (ev adv : Policy) : Nat → Nat → Stock → Vals → Option Trajectory
  | _, 0, _, _ => some []
  | i, n + 1, x, d =>
      match stepEv net dt ev i x d with
      | none => none
      | some (fl, x') =>
          match runEv net dt ev adv (i + 1) n x' (adv i x d) with
          | none => none
          | some rest => some ((x, fl) :: rest)

/-- `update_pars(); flush_junctions()` on the initial stocks -/
def startEv (net : Net) (ev : Policy) (init : Stock) (d0 : Vals) : Option Stock :=
  if linkParsDefined net (ev 0 init d0) then flushAll net (pvOf (ev 0 init d0)) init net.jorder else none

def simulateEv (net : Net) (dt : Rat) (ev adv : Policy) (init : Stock) (d0 : Vals) (n : Nat) : Option Trajectory :=
  (startEv net ev init d0).bind (fun x0 => runEv net dt ev adv 0 n x0 d0)

/-! ### specification of the program layer -/

structure ProgSpec where
  targets : List Nat                      -- `_program_cache['comps'][prog]`: target_pops × target_comps (global compartment indices)
  oneOff : Bool                           -- `Program.is_one_off` ('/year' not in the unit cost units)
  capPerYear : Bool                       -- '/year' in the capacity constraint units
  spend : Coverage.Series                 -- `spend_data`
  unitCost : Coverage.Series              -- `unit_cost`
  capCon : Option Coverage.Series         -- `capacity_constraint` when `has_data`
  allocOv : Option Coverage.Series        -- `instructions.alloc[prog]`
  capOv : Option Coverage.Series          -- `instructions.capacity[prog]`
  covOv : Option Coverage.Series          -- `instructions.coverage[prog]`

structure CovoutP where
  par : Nat                               -- the (parameter, population) as a global parameter index
  spec : Params.CovoutSpec                -- programs by their index in `PSpec.progs`

structure PSpec where
  base : Spec
  progs : List ProgSpec
  covouts : List CovoutP
  start : Rat                             -- `program_instructions.start_year`
  stop : Option Rat                       -- `stop_year` (`none` = inf)
  punits : Nat → Params.Units             -- number / probability,rate / anything else
  inLoop : Nat → Bool                     -- the parameter's name is in `_exec_order['dynamic_pars']`
  post : Nat → Bool                       -- function parameter evaluated after the run only (neither dynamic nor precompute)

/-! ### what the program layer reads at time `t` (no state) -/

/-- an overwrite entry at time `t`: not in the dict ↦ `some none`; in the dict with a value ↦ `some (some v)`;
    in the dict without a value (NaN) ↦ `none` (outside the modelled domain) -/
def ovAt : Option Coverage.Series → Rat → Option (Option Rat)
  | none, _ => some none
  | some sr, t => (sr.at t).map some

/-- one program at one time point -/
structure ProgNow where
  book : Coverage.ProgAt
  instr : Coverage.InstrAt
  targets : List Nat

/-- program-book values and overwrites at `t` (stepped interpolation); `none` when spending or unit cost have no value -/
def progNow (p : ProgSpec) (t : Rat) : Option ProgNow :=
  match p.spend.at t, p.unitCost.at t, ovAt p.allocOv t, ovAt p.capOv t, ovAt p.covOv t with
  | some sp, some uc, some a, some c, some v =>
      some ⟨⟨sp, uc, p.oneOff, p.capCon.bind (fun sr => sr.at t), p.capPerYear, none⟩, ⟨a, c, v⟩, p.targets⟩
  | _, _, _, _, _ => none

/-- the program layer at time `t`: `do_program_overwrite` and the per-program inputs -/
structure LayerAt where
  active : Bool
  progs : List (Option ProgNow)

def activeAt (s : PSpec) (t : Rat) : Bool := (Params.Window.mk s.start s.stop).has t

def layerAt (s : PSpec) (t : Rat) : LayerAt := ⟨activeAt s t, s.progs.map (fun p => progNow p t)⟩

/-! ### coverage and outcomes on the current state -/

/-- a target compartment as `Params` sees it: current size = sum of its rows (`comp[ti]`) -/
def targetOf (net : Net) (x : Stock) (c : Nat) : Params.Target := ⟨isJunction net c, stockTotal net x c, 0⟩

def stepOf (net : Net) (x : Stock) (pn : ProgNow) : Params.ProgStep :=
  ⟨pn.book, pn.instr, pn.targets.map (targetOf net x)⟩

/-- the coverage handed to `get_outcomes` for one program (saturation is never present, so `exp` is never consulted) -/
def covOf (net : Net) (dt : Rat) (x : Stock) (pn : Option ProgNow) : Option Rat :=
  pn.bind (fun pn => Params.covUsed (fun _ => 1) dt (stepOf net x pn))

def coverages (net : Net) (dt : Rat) (L : LayerAt) (x : Stock) : List (Option Rat) := L.progs.map (covOf net dt x)

def findCovout (cs : List CovoutP) (p : Nat) : Option CovoutP := cs.find? (fun c => c.par == p)

/-- `prog_vals.get((par, pop))` as far as `update_pars` uses it at this index, given the coverages of the step:
    `none` = no overwrite (programs inactive / name not visited by the loop / no covout); `some none` = NaN outcome -/
def progOutC (s : PSpec) (active : Bool) (covs : List (Option Rat)) (p : Nat) : Option (Option Rat) :=
  if active && s.inLoop p then (findCovout s.covouts p).map (fun c => Params.outcomeFrom covs c.spec) else none

def progOut (s : PSpec) (L : LayerAt) (x : Stock) (p : Nat) : Option (Option Rat) :=
  progOutC s L.active (coverages s.base.net s.base.dt L x) p

/-! ### parameters -/

/-- `scale_factor · f(deps)` resp. `scale_factor · aggregation` on the values computed so far -/
def scaledRaw (s : Spec) (t : Rat) (x : Stock) (cv pv : Vals) (p : Nat) : Option Rat :=
  (rawVal (refVal s.net x cv pv t s.dt) t (s.pars p).kind).map (fun v => (s.pars p).scale * v)

def isAgg : ParKind → Bool
  | .agg _ _ => true
  | _ => false

/-- the inputs of `Params.evalOne` for parameter `p` at this index, as the closed loop has computed them -/
def inpOf (s : PSpec) (t : Rat) (x : Stock) (cv pv : Vals) (p : Nat) (o : Rat) : Params.Inp :=
  { t := t, dt := s.base.dt,
    -- the stored value before the visit: for a function / aggregation parameter the databook value inserted by `Model.build`
    -- (it is read only inside the skip window), for a data parameter the value so far
    data := if isData (s.base.pars p) then pv p else baseVal (s.base.pars p) t,
    hasFcn := !(isData (s.base.pars p)),
    fcn := scaledRaw s.base t x cv pv p,
    mode := if s.post p then .postcompute else .dynamic,
    agg := if isAgg (s.base.pars p).kind then some (scaledRaw s.base t x cv pv p) else none,
    skip := (s.base.pars p).skip,
    active := some ⟨s.start, s.stop⟩,
    inLoop := s.inLoop p,
    outcome := some o,
    units := s.punits p,
    popsize := Engine.popsize s.base.net x p,
    lim := ⟨(s.base.pars p).lo, (s.base.pars p).hi⟩ }

/-- new value of parameter `p`: the program-free rule, or the pipeline with the program outcome `o` -/
def parValO (s : PSpec) (t : Rat) (x : Stock) (cv pv : Vals) (ov : Option (Option Rat)) (p : Nat) : Option Rat :=
  match ov with
  | none => Closed.parVal s.base t x cv pv p
  | some none => none
  | some (some o) => Params.evalOne (inpOf s t x cv pv p o)

def parStepP (s : PSpec) (t : Rat) (x : Stock) (cv : Vals) (out : Nat → Option (Option Rat)) (pv : Vals) (p : Nat) : Vals :=
  setAt pv p (parValO s t x cv pv (out p) p)

/-- all parameter values of time index `i` on stock `x` with the derivative values `d`, programs included -/
def evalParsP (s : PSpec) (i : Nat) (x : Stock) (d : Vals) : Vals :=
  let t := Grid.point s.base.start s.base.dt i
  s.base.porder.foldl (parStepP s t x (evalCharacs s.base x) (progOut s (layerAt s t) x)) (basePars s.base t d)

/-- one visit with the Euler step of a derivative parameter (`Closed.advStep` with the program-aware rule for the values; the
    rate of a derivative parameter is its function on the values so far — overwritten ones included) -/
def advStepP (s : PSpec) (t : Rat) (x : Stock) (cv : Vals) (out : Nat → Option (Option Rat)) (st : Vals × Vals) (p : Nat) : Vals × Vals :=
  (parStepP s t x cv out st.1 p, if (s.base.pars p).deriv then setAt st.2 p (advVal s.base t x cv st.1 p) else st.2)

def evalParsPD (s : PSpec) (i : Nat) (x : Stock) (d : Vals) : Vals × Vals :=
  let t := Grid.point s.base.start s.base.dt i
  s.base.porder.foldl (advStepP s t x (evalCharacs s.base x) (progOut s (layerAt s t) x)) (basePars s.base t d, d)

/-- the values of the derivative parameters at index `i+1` -/
def nextDP (s : PSpec) (i : Nat) (x : Stock) (d : Vals) : Vals := (evalParsPD s i x d).2

/-- a whole simulation with `n` time points -/
def simulateN (s : PSpec) (n : Nat) : Option Trajectory :=
  simulateEv s.base.net s.base.dt (evalParsP s) (nextDP s) s.base.init (initD s.base) n

def simulate (s : PSpec) : Option Trajectory := simulateN s s.base.npts

/-! ### decidable well-formedness -/

def targeted (s : PSpec) (p : Nat) : Bool := (findCovout s.covouts p).isSome

/-- as `Closed.okOrder`, and a parameter that a function reads may be evaluated later only if it is a data (or derivative) parameter
    that no covout targets (a targeted data parameter changes when the loop visits it) -/
def okOrderP (s : PSpec) : List Nat → List Nat → Bool
  | _, [] => true
  | done, p :: rest =>
      !(done.contains p)
      && (parRefsOf (kindRefs (s.base.pars p).kind)).all
            (fun q => (isFixed (s.base.pars q) && !(targeted s q)) || done.contains q)
      && okOrderP s (p :: done) rest

def depsBeforeP (s : PSpec) : Bool := okOrderP s [] s.base.porder

def wfPSpec (s : PSpec) : Bool :=
  wfSpec s.base
  && depsBeforeP s
  && s.covouts.all (fun c => decide (c.par < s.base.net.nP) && s.base.porder.contains c.par
        && c.spec.progs.all (fun ko => decide (ko.1 < s.progs.length))
        -- a program that targets a derivative parameter overwrites `_dx`, not the value: not modelled
        && !(s.base.pars c.par).deriv)
  && s.progs.all (fun p => p.targets.all (fun c => decide (c < s.base.net.nC)))

/-! ### driver: wire format

  cpsim <budget bits> <closed spec as for csim> <start> <stop|-> <nProgs> {<prog>}… <nCovouts> {<covout>}… {<units n|f|o> <inLoop 0|1> <post 0|1>}×nP
  <prog>   = <oneOff 0|1> <capPerYear 0|1> <nTargets> c… <series spend> <series unitcost> <opt capcon> <opt alloc> <opt capacity> <opt coverage>
  <series> = <assumption|none> <n> t1 v1 … tn vn        <opt> = 0 | 1 <series>
  <covout> = <par> <additive|nested|random> <baseline> <n> (<prog index> <outcome>)… <k> (<bitset over dict positions> <value>)…
  reply    = `ok <m>` then per computed index ` | <stock…> ; <flows…> ; <pars…> ; <coverage per program…>`, then (if m < npts)
             ` | nan <flush|par|step|big>`; `err wf` when `wfPSpec` fails.
-/

def pSeries : P Coverage.Series := do
  let a ← tok
  let asm ← match Coverage.parseOptRat? a with
    | some v => pure v
    | none => failure
  let pts ← pList (do let t ← pRat; let v ← pRat; pure (t, v))
  pure ⟨asm, pts⟩

def pProg : P ProgSpec := do
  let oneOff ← pBool
  let capPerYear ← pBool
  let targets ← pList pNat
  let spend ← pSeries
  let unitCost ← pSeries
  let capCon ← pOpt pSeries
  let allocOv ← pOpt pSeries
  let capOv ← pOpt pSeries
  let covOv ← pOpt pSeries
  pure { targets, oneOff, capPerYear, spend, unitCost, capCon, allocOv, capOv, covOv }

def pCovout : P CovoutP := do
  let par ← pNat
  let it ← tok
  let inter ← match Covout.parseInter? it with
    | some v => pure v
    | none => failure
  let baseline ← pRat
  let progs ← pList (do let k ← pNat; let o ← pRat; pure (k, o))
  let ex ← pList (do let m ← pNat; let v ← pRat; pure (m, v))
  pure { par, spec := { inter, baseline, progs, ex } }

def pPUnits : P Params.Units := do
  match Params.parseUnits? (← tok) with
  | some u => pure u
  | none => failure

def pPSpec : P PSpec := do
  let base ← pSpec
  let start ← pRat
  let stop ← pOptRatDash
  let progs ← pList pProg
  let covouts ← pList pCovout
  let flags ← pMany base.net.nP (do let u ← pPUnits; let l ← pBool; let o ← pBool; pure (u, l, o))
  pure { base, progs, covouts, start, stop,
         punits := fun p => (flags.getD p (.other, false, false)).1,
         inLoop := fun p => (flags.getD p (.other, false, false)).2.1,
         post := fun p => (flags.getD p (.other, false, false)).2.2 }

/-- memoised `evalParsP`: coverages and outcomes of the index are computed once, parameters are tabulated (same values) -/
def evalParsPA (s : PSpec) (i : Nat) (x : Stock) (d : Vals) : Array (Option Rat) × List (Option Rat) × Array (Option Rat) :=
  let t := Grid.point s.base.start s.base.dt i
  let cv := ofArr (evalCharacsA s.base x)
  let L := layerAt s t
  let covs := if L.active then coverages s.base.net s.base.dt L x else []
  let outs := (Array.range s.base.net.nP).map (fun p => progOutC s L.active covs p)
  let r := s.base.porder.foldl (fun (st : Array (Option Rat) × Array (Option Rat)) p =>
      (st.1.setIfInBounds p (parValO s t x cv (ofArr st.1) (outs.getD p none) p),
       if (s.base.pars p).deriv then st.2.setIfInBounds p (advVal s.base t x cv (ofArr st.1) p) else st.2))
    ((Array.range s.base.net.nP).map (fun p => basePars s.base t d p), (Array.range s.base.net.nP).map d)
  (r.1, covs, r.2)

def showOpts (l : List (Option Rat)) : String := " ".intercalate (l.map showOptRat)

def loopPA (s : PSpec) (budget : Nat) : Nat → Nat → Array (Array Rat) → Array (Option Rat) → List String → List String × Option String
  | _, 0, _, _, acc => (acc.reverse, none)
  | i, n + 1, xa, da, acc =>
      if bitsOf xa > budget then (acc.reverse, some "big") else
      let x := ofTab xa
      let (va, covs, nda) := evalParsPA s i x (ofArr da)
      let v := ofArr va
      if !(linkParsDefined s.base.net v) then (acc.reverse, some "par") else
      match stepA s.base.net s.base.dt (pvOf v) x with
      | none => (acc.reverse, some "step")
      | some (fa, xa') =>
          let sec := showStock s.base.net x ++ " ; " ++ showFlow s.base.net (ofTab fa) ++ " ; " ++ showVals s.base.net.nP v
                     ++ " ; " ++ showOpts covs
          loopPA s budget (i + 1) n xa' nda (sec :: acc)

def handleSim (args : List String) : Option String :=
  runP (do
    let budget ← pNat
    let s ← pPSpec
    if !(wfPSpec s) then pure "err wf" else
    let d0 := (Array.range s.base.net.nP).map (initD s.base)
    let v0 := ofArr (evalParsPA s 0 s.base.init (ofArr d0)).1
    if !(linkParsDefined s.base.net v0) then pure (reply [] (some "flush")) else
    match flushA s.base.net (pvOf v0) s.base.init with
    | none => pure (reply [] (some "flush"))
    | some xa =>
        let (secs, stop) := loopPA s budget 0 s.base.npts xa d0 []
        pure (reply secs stop)) args

/-- reference path: `simulate` exactly as the theorems state it (no memoisation; tiny cases only) -/
def handleSimRef (args : List String) : Option String :=
  runP (do
    let s ← pPSpec
    if !(wfPSpec s) then pure "err wf" else
    match simulate s with
    | none => pure "nan"
    | some traj =>
        pure (reply (traj.map (fun e => showStock s.base.net e.1 ++ " ; " ++ showFlow s.base.net e.2)) none)) args

/-- `cpwf <pspec>` → the individual checks -/
def handleWf (args : List String) : Option String :=
  runP (do
    let s ← pPSpec
    pure ("base=" ++ toString (wfSpec s.base) ++ " depsBeforeP=" ++ toString (depsBeforeP s)
      ++ " props=" ++ toString (propsClipped s.base) ++ " all=" ++ toString (wfPSpec s))) args

/-- `cppars <index> <pspec>` → parameter values of that index on the initial stocks (reference path, `evalParsP` verbatim) -/
def handleParsRef (args : List String) : Option String :=
  runP (do
    let i ← pNat
    let s ← pPSpec
    if !(wfPSpec s) then pure "err wf" else
    pure (showVals s.base.net.nP (evalParsP s i s.base.init (initD s.base)))) args

end Atomica.ClosedProg
