/-
  AtomicaModel.EngineGroups — the decidable form of "G ∪ J is a closed duration group with junctions inside"
  (`Atomica.C05.ClosedGroupJ`, hypothesis of `group_step_junctions` / `engine_group_release_exact_junctions`;
  soundness and completeness: `Atomica.C05.closedGroupJCheck_iff`), so that the harness evaluates the theorem's own hypothesis
  on every net extracted from a real Model.
    egroupj <net> <n> <G[nC] as 0/1> <J[nC] as 0/1>   → `true` / `false`
-/
import AtomicaModel.Engine
import AtomicaModel.EngineIO
namespace Atomica.Engine

/-- members `G`: timed, `n` rows; junctions `J`: junctions of a duration group whose out-links have `n` rows and stay in
    `G ∪ J`; non-flush out-links of members are timed links into `G ∪ J`; timed links into members and all links into
    junctions of `J` come from `G ∪ J` -/
def closedGroupJCheck (net : Net) (G J : Nat → Bool) (n : Nat) : Bool :=
  allBelow net.nC (fun c => !(G c) || (net.kind c == .timed && net.nrows c == n))
  && allBelow net.nC (fun j => !(J j) || (isJunction net j && net.jgroup j))
  && allBelow net.nL (fun l =>
      (!(J (net.src l)) || (net.lrows l == n && (G (net.dst l) || J (net.dst l))))
      && (!(G (net.src l) && !(net.isFlush l)) || (net.tlink l && (G (net.dst l) || J (net.dst l))))
      && (!(G (net.dst l) && net.tlink l) || (G (net.src l) || J (net.src l)))
      && (!(J (net.dst l)) || (G (net.src l) || J (net.src l))))

def handleGroupJ (args : List String) : Option String :=
  runP (do
    let net ← pNet
    let n ← pNat
    let g ← pMany net.nC pBool
    let j ← pMany net.nC pBool
    pure (toString (closedGroupJCheck net (fun c => g.getD c false) (fun c => j.getD c false) n))) args

end Atomica.Engine
