/-
  AtomicaModel.Tables — spreadsheet tables of C16 (core Lean only).

  (i)  `TDVE`: the `TimeDependentValuesEntry` table (excel.py) as a grid of cells `blank | str | num`:
       `encode` mirrors `TimeDependentValuesEntry.write`, `decode` mirrors `from_rows` + `_parse_ts_header` +
       `cell_get_string` / `cell_get_number`.  Used for databook TDVE tables and the progbook "Spending data" tables.
  (ii) `YF`: the y-factor table of `ParameterSet.calibration_spreadsheet` / `load_calibration` (parameters.py):
       `save`, the specification-shaped `load` (unknown entries skipped, blank cells keep the value) and the
       faithful `loadCurrent` (UnboundLocalError on an unknown entry that precedes every known one, defect D6).

  Scope notes (what the model leaves out; all of it is exercised by mode E in harness/props/c16.py):
  * xlsxwriter number formatting (`%.16G`), formulas/hyperlinks (strings starting with `=`), dates in the header,
    comments and cell formats are runtime, not modelled; numbers are exact rationals here.
  * Python `str.strip/lower/title` are modelled on ASCII (`strip`: space, \t, \n, \r, \v, \f; `lower`: A–Z).  Every
    string the code lowers is compared against ASCII constants only, and no non-ASCII string lowers to one of them.
  * `tvec` is assumed free of duplicates and `TimeSeries.t` sorted and distinct (the invariant `TimeSeries.insert`
    keeps): `write` fills `content[where(tvec == t)[0]]`, which is `lookup` under that invariant.
-/
import AtomicaModel.Basic
deriving instance DecidableEq for Except

namespace Atomica.Tables

/-! ### strings -/

def isWs (c : Char) : Bool :=
  c == ' ' || c == '\t' || c == '\n' || c == '\r' || c == Char.ofNat 11 || c == Char.ofNat 12

def stripL (l : List Char) : List Char := ((l.dropWhile isWs).reverse.dropWhile isWs).reverse

/-- Python `str.strip()` (ASCII whitespace) -/
def strip (s : String) : String := String.ofList (stripL s.toList)

def lowerC (c : Char) : Char := if 'A' ≤ c ∧ c ≤ 'Z' then Char.ofNat (c.toNat + 32) else c
def upperC (c : Char) : Char := if 'a' ≤ c ∧ c ≤ 'z' then Char.ofNat (c.toNat - 32) else c

/-- Python `str.lower()` (ASCII) -/
def lower (s : String) : String := String.ofList (s.toList.map lowerC)

/-- `s.title()` for a single lower-case ASCII word (only ever applied to the six standard units) -/
def capitalize (s : String) : String :=
  match s.toList with
  | [] => ""
  | c :: cs => String.ofList (upperC c :: cs)

/-- `v.startswith("#ignore")` -/
def isIgnore (s : String) : Bool := s.toList.take 7 == "#ignore".toList

def allDashes (s : String) : Bool := s.toList.all (· == '-')

/-! ### cells -/

inductive Cell where
  | blank
  | str (s : String)
  | num (q : Rat)
  deriving DecidableEq, Repr, Inhabited

/-- `worksheet.write(r, c, s)` of a Python string: xlsxwriter writes an empty string as a blank cell -/
def mkStr (s : String) : Cell := if s = "" then .blank else .str s

/-- `worksheet.write(r, c, x)` of `None` or a float -/
def optNum : Option Rat → Cell
  | none => .blank
  | some q => .num q

/-- an attribute value (`None`, string or number) as written by `worksheet.write` -/
def normCell : Cell → Cell
  | .str s => mkStr s
  | c => c

inductive Err where
  | name        -- table name missing or not a string
  | dup         -- duplicate heading or year
  | noValues    -- neither an assumption ("constant") column nor a year column
  | rowName     -- series name is not a string
  | needString  -- units cell holds a number
  | needNumber  -- numeric cell holds a string that is not blank-like
  deriving DecidableEq, Repr

def Err.tag : Err → String
  | .name => "name" | .dup => "dup" | .noValues => "novalues" | .rowName => "rowname"
  | .needString => "needstring" | .needNumber => "neednumber"

/-- `cell_get_number` as the code is written: `None` → None; numeric → value; a string that is empty or only dashes
    after `lower().strip()` → None; any other string raises.  (The comparison `s == "N.A."` in the code is made
    *after* lowering, so it can never hold; see `cellGetNumberDoc`.) -/
def cellGetNumber : Cell → Except Err (Option Rat)
  | .blank => .ok none
  | .num q => .ok (some q)
  | .str s => if allDashes (strip (lower s)) then .ok none else .error .needNumber

/-- `cell_get_number` as its docstring describes it ("N.A." is treated as empty). -/
def cellGetNumberDoc : Cell → Except Err (Option Rat)
  | .blank => .ok none
  | .num q => .ok (some q)
  | .str s => if allDashes (strip (lower s)) || strip (lower s) == "n.a." then .ok none else .error .needNumber

def stdUnits : List String := ["probability", "duration", "number", "fraction", "proportion", "rate"]

/-- units as stored by `from_rows`: standard units lower-cased and stripped, others stripped only -/
def canonUnit (s : String) : String :=
  if stdUnits.contains (strip (lower s)) then strip (lower s) else strip s

/-- the units cell `write` produces (`N.A.` when the unit is falsy; Title case for standard units) -/
def unitCell : Option String → Cell
  | none => .str "N.A."
  | some u =>
      if u = "" then .str "N.A."
      else if stdUnits.contains (strip (lower u)) then mkStr (capitalize (strip (lower u)))
      else mkStr (strip u)

/-- `cell_get_string(cell, allow_empty=True)` followed by the standard-unit normalisation -/
def readUnit : Cell → Except Err (Option String)
  | .blank => .ok none
  | .num _ => .error .needString
  | .str s => .ok (some (canonUnit (strip s)))

/-! ### the TDVE object (visible data) -/

structure TS where
  pts : List (Rat × Rat)          -- (t, value), sorted by t, distinct
  units : Option String
  assumption : Option Rat
  sigma : Option Rat
  deriving DecidableEq, Repr, Inhabited

structure Row where
  name : String
  ts : TS
  attrs : List Cell               -- aligned with `TDVE.attrNames`; `blank` = no value
  deriving DecidableEq, Repr, Inhabited

inductive AHead where
  | constant | assumption
  deriving DecidableEq, Repr, Inhabited

def AHead.text : AHead → String
  | .constant => "Constant" | .assumption => "Assumption"

structure TDVE where
  name : String
  tvec : List Rat
  attrNames : List String         -- keys of `ts_attributes` ("Provenance" first for objects built by the constructor)
  rows : List Row
  writeUnits : Option Bool        -- `None` = decide from the data
  writeUnc : Option Bool
  writeAssump : Option Bool
  ahead : AHead
  deriving DecidableEq, Repr, Inhabited

def effUnits (e : TDVE) : Bool := e.writeUnits.getD (e.rows.any (·.ts.units.isSome))
def effUnc (e : TDVE) : Bool := e.writeUnc.getD (e.rows.any (·.ts.sigma.isSome))
def effAssump (e : TDVE) : Bool := e.writeAssump.getD (e.rows.any (·.ts.assumption.isSome))

/-! ### encode = `TimeDependentValuesEntry.write` -/

inductive Col where
  | skip
  | attr (n : String)
  | units | unc | const | assump
  | year (t : Rat)
  deriving DecidableEq, Repr, Inhabited

/-- the header cell written above a column -/
def headCell (a : AHead) : Col → Cell
  | .skip => .blank
  | .attr n => mkStr n
  | .units => .str "Units"
  | .unc => .str "Uncertainty"
  | .const => .str a.text
  | .assump => .str a.text
  | .year t => .num t

def aheadCol : AHead → Col
  | .constant => .const | .assumption => .assump

/-- columns after the name column, in the order `write` allocates them -/
def layout (e : TDVE) : List Col :=
  e.attrNames.map .attr
    ++ (if effUnits e then [.units] else [])
    ++ (if effUnc e then [.unc] else [])
    ++ (if effAssump e then [aheadCol e.ahead, .skip] else [])
    ++ e.tvec.map .year

def padTo (n : Nat) (cells : List Cell) : List Cell := cells ++ List.replicate (n - cells.length) .blank

/-- attribute cells: `ts_attributes[attribute].get(row_name)` for every attribute heading, `None` = blank -/
def attrPairs (e : TDVE) (r : Row) : List (Col × Cell) :=
  (e.attrNames.zip (padTo e.attrNames.length r.attrs)).map fun nc => (.attr nc.1, normCell nc.2)

/-- the cells of one series row, paired with the column they are written in -/
def rowPairs (e : TDVE) (r : Row) : List (Col × Cell) :=
  attrPairs e r
    ++ (if effUnits e then [(.units, unitCell r.ts.units)] else [])
    ++ (if effUnc e then [(.unc, optNum r.ts.sigma)] else [])
    ++ (if effAssump e then [(aheadCol e.ahead, optNum r.ts.assumption),
                             (.skip, if e.tvec.isEmpty then .blank else .str "OR")] else [])
    ++ e.tvec.map fun t => (.year t, optNum (r.ts.pts.lookup t))

def header (e : TDVE) : List Cell := mkStr e.name :: (layout e).map (headCell e.ahead)

def rowCells (e : TDVE) (r : Row) : List Cell := mkStr r.name :: (rowPairs e r).map (·.2)

def encode (e : TDVE) : List (List Cell) := header e :: e.rows.map (rowCells e)

/-! ### decode = `from_rows` -/

def isBreak : Cell → Bool
  | .str s => isIgnore (strip s)
  | _ => false

/-- classification of one header cell by `_parse_ts_header` (cells that end the scan are filtered before) -/
def classify : Cell → Col
  | .blank => .skip
  | .num q => .year q
  | .str s =>
      let v := strip s
      let l := lower v
      if l = "units" then .units
      else if l = "uncertainty" then .unc
      else if l = "constant" then .const
      else if l = "assumption" then .assump
      else .attr v

def parseCols (cells : List Cell) : List Col := (cells.takeWhile (fun c => !isBreak c)).map classify

def colYear? : Col → Option Rat
  | .year t => some t
  | _ => none

def colAttr? : Col → Option String
  | .attr n => some n
  | _ => none

/-- insertion into a sorted list (used for the table's year vector: `np.array(sorted(times))`) -/
def insSorted (x : Rat) : List Rat → List Rat
  | [] => [x]
  | y :: ys => if x ≤ y then x :: y :: ys else y :: insSorted x ys

def sortRat (l : List Rat) : List Rat := l.foldr insSorted []

/-- `TimeSeries.insert(t, v)` for a scalar `t` that is not `None` -/
def tsInsert (t v : Rat) : List (Rat × Rat) → List (Rat × Rat)
  | [] => [(t, v)]
  | (t', v') :: rest =>
      if t < t' then (t, v) :: (t', v') :: rest
      else if t = t' then (t, v) :: rest
      else (t', v') :: tsInsert t v rest

/-- the cell found in the (unique) column `c` of a row; `blank` when the column does not exist -/
def cellAt (c : Col) (zs : List (Col × Cell)) : Option Cell := (zs.find? (fun z => z.1 == c)).map (·.2)

def hasCol (c : Col) (cols : List Col) : Bool := cols.contains c

/-- the time points of a row: `for t, idx in times.items(): ts.insert(t, cell_get_number(row[idx]))` -/
def readPts : List (Col × Cell) → List (Rat × Rat) → Except Err (List (Rat × Rat))
  | [], acc => .ok acc
  | (.year t, c) :: zs, acc => do
      match ← cellGetNumber c with
      | none => readPts zs acc
      | some v => readPts zs (tsInsert t v acc)
  | _ :: zs, acc => readPts zs acc

def optCell (c : Option Cell) : Cell := c.getD .blank

/-- `ts.assumption`: the "constant" column if the table has one, else the "assumption" column -/
def readAssump (zs : List (Col × Cell)) : Except Err (Option Rat) :=
  match cellAt .const zs with
  | some c => cellGetNumber c
  | none => cellGetNumber (optCell (cellAt .assump zs))

/-- one series row: units, uncertainty, assumption, attributes, then the year columns (the order of the code) -/
def readRow (attrNames : List String) (zs : List (Col × Cell)) (name : String) : Except Err Row := do
  let units ← readUnit (optCell (cellAt .units zs))
  let sigma ← cellGetNumber (optCell (cellAt .unc zs))
  let assumption ← readAssump zs
  let attrs := attrNames.map fun n => optCell (cellAt (.attr n) zs)
  let pts ← readPts zs []
  return { name := name, ts := { pts := pts, units := units, assumption := assumption, sigma := sigma }, attrs := attrs }

/-- `ts_entries[series_name] = ts` on an ordered dict -/
def dictSet (r : Row) : List Row → List Row
  | [] => [r]
  | r' :: rest => if r'.name = r.name then r :: rest else r' :: dictSet r rest

def readRows (attrNames : List String) (cols : List Col) : List (List Cell) → List Row → Except Err (List Row)
  | [], acc => .ok acc
  | [] :: rest, acc => readRows attrNames cols rest acc
  | (.blank :: _) :: rest, acc => readRows attrNames cols rest acc
  | (.num _ :: _) :: _, _ => .error .rowName
  | (.str s :: cells) :: rest, acc => do
      let r ← readRow attrNames (cols.zip (padTo cols.length cells)) (strip s)
      readRows attrNames cols rest (dictSet r acc)

/-- `from_rows`.  `acceptAssump = true` is the specification-shaped reader: a table whose only value column is headed
    "Assumption" (what `ProgramSet._write_spending` writes when the program set has no data years) is accepted.
    `acceptAssump = false` is the code as written: `if not times and "constant" not in headings: raise`. -/
def decodeWith (acceptAssump : Bool) : List (List Cell) → Except Err TDVE
  | [] => .error .name
  | [] :: _ => .error .name
  | (.blank :: _) :: _ => .error .name
  | (.num _ :: _) :: _ => .error .name
  | (.str nm :: hcells) :: rest => do
      let cols := parseCols hcells
      if ¬ (cols.filter (· ≠ .skip)).Nodup then throw .dup
      let years := cols.filterMap colYear?
      if years.isEmpty && !hasCol .const cols && !(acceptAssump && hasCol .assump cols) then throw .noValues
      let attrNames := "Provenance" :: (cols.filterMap colAttr?).filter (· ≠ "Provenance")
      let rows ← readRows attrNames cols rest []
      return {
        name := strip nm
        tvec := sortRat years
        attrNames := attrNames
        rows := rows
        writeUnits := if hasCol .units cols then some true else none
        writeUnc := if hasCol .unc cols then some true else none
        writeAssump := if hasCol .const cols || hasCol .assump cols then some true else none
        ahead := if hasCol .assump cols then .assumption else .constant }

def decode : List (List Cell) → Except Err TDVE := decodeWith true

def decodeCurrent : List (List Cell) → Except Err TDVE := decodeWith false

/-- what a round trip does to the layout flags: they record which columns were present, nothing else changes -/
def canon (e : TDVE) : TDVE :=
  { e with
    writeUnits := if effUnits e then some true else none
    writeUnc := if effUnc e then some true else none
    writeAssump := if effAssump e then some true else none
    ahead := if effAssump e then e.ahead else .constant }

/-! ### well-formed entries (hypothesis of the round-trip theorem) -/

def NameOK (s : String) : Prop := s ≠ "" ∧ strip s = s

/-- an attribute heading that is read back as itself -/
def AttrOK (n : String) : Prop := n ≠ "" ∧ isBreak (.str n) = false ∧ classify (.str n) = .attr n

/-- a unit that is read back as itself ("units normalised") -/
def UnitOK (u : String) : Prop := u ≠ "" ∧ readUnit (unitCell (some u)) = .ok (some u)

instance (s : String) : Decidable (NameOK s) := by unfold NameOK; infer_instance
instance (s : String) : Decidable (AttrOK s) := by unfold AttrOK; infer_instance
instance (s : String) : Decidable (UnitOK s) := by unfold UnitOK; infer_instance

def unitOKOpt : Option String → Bool
  | none => false
  | some u => decide (UnitOK u)

def RowOK (e : TDVE) (r : Row) : Prop :=
  NameOK r.name
  ∧ r.attrs.length = e.attrNames.length
  ∧ (∀ c ∈ r.attrs, normCell c = c)
  ∧ r.ts.pts.Pairwise (fun a b => a.1 < b.1)
  ∧ (∀ p ∈ r.ts.pts, p.1 ∈ e.tvec)
  ∧ (if effUnits e then unitOKOpt r.ts.units = true else r.ts.units = none)
  ∧ (effUnc e = false → r.ts.sigma = none)
  ∧ (effAssump e = false → r.ts.assumption = none)

/-- Well-formed entry: names stripped and non-empty, "Provenance" first among distinct attribute headings that read
    back as themselves, strictly increasing year vector, every series dated inside the year vector (sorted, distinct),
    units normalised, no value hidden behind a column that is switched off, and at least one value column. -/
def WF (e : TDVE) : Prop :=
  NameOK e.name
  ∧ e.attrNames.head? = some "Provenance"
  ∧ e.attrNames.Nodup
  ∧ (∀ n ∈ e.attrNames, AttrOK n)
  ∧ e.tvec.Pairwise (· < ·)
  ∧ (e.tvec ≠ [] ∨ effAssump e = true)
  ∧ (e.rows.map (·.name)).Nodup
  ∧ (∀ r ∈ e.rows, RowOK e r)

instance (e : TDVE) (r : Row) : Decidable (RowOK e r) := by unfold RowOK; infer_instance
instance (e : TDVE) : Decidable (WF e) := by unfold WF; infer_instance

/-! ### y-factor table (`ParameterSet.calibration_spreadsheet` / `load_calibration`) -/

namespace YF

/-- One `Parameter` as the calibration table sees it.  `pop = none` for framework quantities (`parset.pars`),
    `some src` for the per-source-population parameters of a transfer or interaction. -/
structure Entry where
  par : String
  pop : Option String
  metaY : Rat
  y : List (String × Rat)          -- `Parameter.y_factor` (ordered dict)
  deriving DecidableEq, Repr, Inhabited

abbrev ParSet := List Entry

/-- one row of the "Y-factors" sheet; `none` = empty cell (NaN in pandas) -/
structure TRow where
  par : String
  pop : Option String
  cells : List (String × Option Rat)   -- column name ↦ value, columns in sheet order
  deriving DecidableEq, Repr, Inhabited

abbrev Table := List TRow

inductive LErr where
  | duplicate      -- the table has two rows with the same (par, pop)
  | assertion      -- pop given for a framework quantity, or missing for a transfer/interaction
  | unbound        -- `UnboundLocalError` (current code only)
  deriving DecidableEq, Repr

def LErr.tag : LErr → String
  | .duplicate => "duplicate" | .assertion => "assertion" | .unbound => "unbound"

def metaCol : String := "meta_y_factor"

/-- columns of the sheet: `meta_y_factor`, then population names in order of first appearance -/
def addNew (acc : List String) (ks : List String) : List String :=
  ks.foldl (fun a k => if a.contains k then a else a ++ [k]) acc

def columns (p : ParSet) : List String :=
  p.foldl (fun acc e => addNew acc (metaCol :: e.y.map (·.1))) []

/-- `sc.mergedicts({"meta_y_factor": m}, par.y_factor)`: a population called `meta_y_factor` would overwrite it -/
def entryDict (e : Entry) : List (String × Rat) :=
  match e.y.lookup metaCol with
  | some v => (metaCol, v) :: e.y.filter (·.1 ≠ metaCol)
  | none => (metaCol, e.metaY) :: e.y

def save (p : ParSet) : Table :=
  let cols := columns p
  p.map fun e => { par := e.par, pop := e.pop, cells := cols.map fun c => (c, (entryDict e).lookup c) }

inductive Found where
  | entry (i : Nat)
  | unknown
  | assertion

def isParName (p : ParSet) (n : String) : Bool := p.any fun e => e.par == n && e.pop.isNone
def isTdcName (p : ParSet) (n : String) : Bool := p.any fun e => e.par == n && e.pop.isSome

/-- `ParameterSet.get_par(name, pop)`: framework quantities must come without a population, transfers and
    interactions with one (AssertionError otherwise); an unknown name or source population is a KeyError. -/
def find (p : ParSet) (n : String) (pop : Option String) : Found :=
  if isParName p n then
    match pop with
    | none => match p.findIdx? (fun e => e.par == n && e.pop.isNone) with
              | some i => .entry i
              | none => .unknown
    | some _ => .assertion
  else if isTdcName p n then
    match pop with
    | none => .assertion
    | some s => match p.findIdx? (fun e => e.par == n && e.pop == some s) with
                | some i => .entry i
                | none => .unknown
  else .unknown

def setY (k : String) (v : Rat) : List (String × Rat) → List (String × Rat)
  | [] => []
  | (k', v') :: rest => if k' = k then (k', v) :: rest else (k', v') :: setY k v rest

/-- apply the cells of one row to one entry: NaN keeps the value, `meta_y_factor` sets the meta factor,
    a population the parameter does not have is skipped -/
def applyCells (e : Entry) : List (String × Option Rat) → Entry
  | [] => e
  | (_, none) :: rest => applyCells e rest
  | (k, some v) :: rest =>
      if k = metaCol then applyCells { e with metaY := v } rest
      else applyCells { e with y := setY k v e.y } rest

def keyOf (r : TRow) : String × Option String := (r.par, r.pop)

def hasDup (t : Table) : Bool := decide ¬ (t.map keyOf).Nodup

/-- specification: "If y-factors are present in the spreadsheet and not in the ParameterSet then they will be
    skipped; if y-factors are missing in the spreadsheet, the existing values will be maintained." -/
def loadRows : Table → ParSet → Except LErr ParSet
  | [], p => .ok p
  | r :: rest, p =>
      match find p r.par r.pop with
      | .entry i => loadRows rest (p.modify i (fun e => applyCells e r.cells))
      | .unknown => loadRows rest p
      | .assertion => .error .assertion

def load (t : Table) (p : ParSet) : Except LErr ParSet :=
  if hasDup t then .error .duplicate else loadRows t p

/-- the code as written: the `except KeyError` branch formats `par.name`, and `par` is unbound until some earlier
    row has been found (D6) -/
def loadRowsCurrent : Table → ParSet → Bool → Except LErr ParSet
  | [], p, _ => .ok p
  | r :: rest, p, bound =>
      match find p r.par r.pop with
      | .entry i => loadRowsCurrent rest (p.modify i (fun e => applyCells e r.cells)) true
      | .unknown => if bound then loadRowsCurrent rest p bound else .error .unbound
      | .assertion => .error .assertion

def loadCurrent (t : Table) (p : ParSet) : Except LErr ParSet :=
  if hasDup t then .error .duplicate else loadRowsCurrent t p false

end YF

/-! ### driver (`tdve …`, `yfac …`) -/

abbrev P := StateT (List String) Option

def tok : P String := fun s => match s with | [] => none | t :: r => some (t, r)

def pNat : P Nat := do let t ← tok; match t.toNat? with | some n => pure n | none => failure
def pRat : P Rat := do let t ← tok; match parseRat? t with | some q => pure q | none => failure

def pMany {α} (p : P α) : Nat → P (List α)
  | 0 => pure []
  | n + 1 => do let x ← p; let xs ← pMany p n; pure (x :: xs)

def pList {α} (p : P α) : P (List α) := do let n ← pNat; pMany p n

/-- strings on the wire: `s:` followed by decimal code points separated by `.` -/
def decStr (t : String) : Option String :=
  if t.toList.take 2 == "s:".toList then
    let body := String.ofList (t.toList.drop 2)
    if body = "" then some "" else
    ((body.splitOn ".").mapM (fun (d : String) => d.toNat?.map Char.ofNat)).map String.ofList
  else none

def encStr (s : String) : String := "s:" ++ ".".intercalate (s.toList.map fun c => toString c.toNat)

def pStr : P String := do let t ← tok; match decStr t with | some s => pure s | none => failure

def pOpt {α} (p : P α) : P (Option α) := fun s =>
  match s with
  | "-" :: r => some (none, r)
  | _ => (p.map some) s

def pCell : P Cell := do
  let t ← tok
  if t = "b" then pure .blank
  else if t.toList.take 2 == "n:".toList then
    match parseRat? (String.ofList (t.toList.drop 2)) with
    | some q => pure (.num q)
    | none => failure
  else match decStr t with
    | some s => pure (.str s)
    | none => failure

def showCell : Cell → String
  | .blank => "b"
  | .num q => "n:" ++ showRat q
  | .str s => encStr s

def showOptS : Option String → String
  | none => "-" | some s => encStr s
def showOptQ : Option Rat → String
  | none => "-" | some q => showRat q
def showOptB : Option Bool → String
  | none => "n" | some true => "1" | some false => "0"

def pOptB : P (Option Bool) := do
  let t ← tok
  if t = "n" then pure none else if t = "1" then pure (some true) else if t = "0" then pure (some false) else failure

def pRow : P Row := do
  let name ← pStr
  let units ← pOpt pStr
  let assumption ← pOpt pRat
  let sigma ← pOpt pRat
  let pts ← pList (do let t ← pRat; let v ← pRat; pure (t, v))
  let attrs ← pList pCell
  pure { name, ts := { pts, units, assumption, sigma }, attrs }

def pTDVE : P TDVE := do
  let name ← pStr
  let attrNames ← pList pStr
  let tvec ← pList pRat
  let writeUnits ← pOptB
  let writeUnc ← pOptB
  let writeAssump ← pOptB
  let a ← tok
  let ahead ← if a = "c" then pure AHead.constant else if a = "a" then pure AHead.assumption else failure
  let rows ← pList pRow
  pure { name, tvec, attrNames, rows, writeUnits, writeUnc, writeAssump, ahead }

def showList {α} (f : α → String) (l : List α) : String :=
  " ".intercalate (toString l.length :: l.map f)

def showRow (r : Row) : String :=
  " ".intercalate [encStr r.name, showOptS r.ts.units, showOptQ r.ts.assumption, showOptQ r.ts.sigma,
    showList (fun p => showRat p.1 ++ " " ++ showRat p.2) r.ts.pts, showList showCell r.attrs]

def showTDVE (e : TDVE) : String :=
  " ".intercalate [encStr e.name, showList encStr e.attrNames, showList showRat e.tvec,
    showOptB e.writeUnits, showOptB e.writeUnc, showOptB e.writeAssump,
    (match e.ahead with | .constant => "c" | .assumption => "a"), showList showRow e.rows]

def showGrid (g : List (List Cell)) : String := showList (showList showCell) g

def pGrid : P (List (List Cell)) := pList (pList pCell)

def showDecode : Except Err TDVE → String
  | .ok e => "ok " ++ showTDVE e
  | .error er => "err " ++ er.tag

def run {α} (p : P α) (args : List String) : Option α :=
  match p args with
  | some (x, []) => some x
  | _ => none

/-- `tdve enc <tdve>` → grid; `tdve dec <grid>` → `ok <tdve>` | `err <tag>`; `tdve rt <tdve>` → `<wf> <decode (encode e)>`;
    `tdve canon <tdve>` → tdve; `tdve num <cell>` → `cell_get_number` (code / docstring) -/
def handleTdve : List String → Option String
  | "enc" :: args => (run pTDVE args).map fun e => showGrid (encode e)
  | "dec" :: args => (run pGrid args).map fun g => showDecode (decode g) ++ " | " ++ showDecode (decodeCurrent g)
  | "rt" :: args => (run pTDVE args).map fun e =>
      (if decide (WF e) then "1 " else "0 ") ++ (if decode (encode e) = .ok (canon e) then "same " else "diff ")
        ++ showDecode (decode (encode e))
  | "canon" :: args => (run pTDVE args).map fun e => showTDVE (canon e)
  | "num" :: args => (run pCell args).map fun c =>
      let sh : Except Err (Option Rat) → String := fun r => match r with
        | .ok v => "ok " ++ showOptQ v
        | .error er => "err " ++ er.tag
      sh (cellGetNumber c) ++ " | " ++ sh (cellGetNumberDoc c)
  | _ => none

namespace YF

def pEntry : P Entry := do
  let par ← pStr
  let pop ← pOpt pStr
  let metaY ← pRat
  let y ← pList (do let k ← pStr; let v ← pRat; pure (k, v))
  pure { par, pop, metaY, y }

def pTRow : P TRow := do
  let par ← pStr
  let pop ← pOpt pStr
  let cells ← pList (do let k ← pStr; let v ← pOpt pRat; pure (k, v))
  pure { par, pop, cells }

def showEntry (e : Entry) : String :=
  " ".intercalate [encStr e.par, showOptS e.pop, showRat e.metaY,
    showList (fun kv => encStr kv.1 ++ " " ++ showRat kv.2) e.y]

def showTRow (r : TRow) : String :=
  " ".intercalate [encStr r.par, showOptS r.pop,
    showList (fun kv => encStr kv.1 ++ " " ++ showOptQ kv.2) r.cells]

def showLoad : Except LErr ParSet → String
  | .ok p => "ok " ++ showList showEntry p
  | .error e => "err " ++ e.tag

/-- `yfac save <parset>` → table; `yfac load <table> <parset>` → specification | current code -/
def handle : List String → Option String
  | "save" :: args => (run (pList pEntry) args).map fun p => showList showTRow (save p)
  | "load" :: args =>
      (run (do let t ← pList pTRow; let p ← pList pEntry; pure (t, p)) args).map fun (t, p) =>
        showLoad (load t p) ++ " | " ++ showLoad (loadCurrent t p)
  | _ => none

end YF

end Atomica.Tables
