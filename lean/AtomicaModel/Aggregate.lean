/-
  AtomicaModel.Aggregate — reported aggregates (C20).

  Models `atomica/plotting.py` `PlotData.__init__` (output aggregation, then population aggregation, with
  the default method chosen from the units), `Series.interpolate` / `PlotData.interpolate`,
  `PlotData.time_aggregate` (linear interpolation on a refined grid + trapezoid, integrate or average) and
  `atomica/cascade.py` `validate_cascade` (set-based nesting), `get_cascade_vals`, `get_cascade_data`.

  Everything `PlotData.__init__` does is pointwise in time, so the aggregation model is for ONE time point;
  a series is the map of it over the time index.  NaN is `none`.

  Two shapes, per CONVENTIONS:
  * specification shaped (`plotData`, `aggregateO`, `Cascade.data`): a *map* of `seriesValue` over the requested
    population groups and outputs — `seriesValue` does not see the request lists at all;
  * code shaped (`plotDataCurrent`, `aggregatePopCurrent`, `Cascade.dataCurrent`): the default method is a
    variable assigned inside the loops and carried over to later outputs (D8), weighted population averages
    are NaN where the numerator is 0, and `get_cascade_data` aliases the first constituent's array (`+=`).
-/
import AtomicaModel.Basic
namespace Atomica.Aggregate

inductive Method | sum | average | weighted
  deriving DecidableEq, Repr, Inhabited

/-- Unit codes used on the wire: 0 `""`, 1 fraction, 2 proportion, 3 probability, 4 rate (the list in
`PlotData.__init__` that selects "average"), 5 number, 6 duration, 7 "Number of people", 8 "unknown", ≥ 9 other. -/
def dimless (u : Nat) : Bool := u ≤ 4
def unknownUnits : Nat := 8

/-- default: average for dimensionless / fraction / proportion / probability / rate, sum otherwise -/
def defaultMethod (u : Nat) : Method := if dimless u then .average else .sum

/-- explicit method if given, else the default for these units -/
def method (explicit : Option Method) (u : Nat) : Method := explicit.getD (defaultMethod u)

/-- Aggregate parts `(value, weight)`: sum, unweighted average, weighted average (`none` = 0/0). -/
def aggregate (m : Method) (parts : List (Rat × Rat)) : Option Rat :=
  match m with
  | .sum => some (parts.map (·.1)).sum
  | .average => divQ (parts.map (·.1)).sum (parts.length : Rat)
  | .weighted => divQ (parts.map (fun p => p.1 * p.2)).sum (parts.map (·.2)).sum

/-- all values present, or `none` (a NaN part makes every aggregate NaN) -/
def allSome : List (Option Rat × Rat) → Option (List (Rat × Rat))
  | [] => some []
  | (none, _) :: _ => none
  | (some v, w) :: rest => (allSome rest).map ((v, w) :: ·)

/-- aggregate of parts that may be NaN -/
def aggregateO (m : Method) (parts : List (Option Rat × Rat)) : Option Rat :=
  (allSome parts).bind (aggregate m)

/-- The code's population aggregation: as `aggregateO`, except that the weighted branch is
`np.divide(num, den, where=num != 0, out=nan)` — NaN wherever the numerator is 0. -/
def aggregatePopCurrent (m : Method) (parts : List (Option Rat × Rat)) : Option Rat :=
  match m with
  | .weighted =>
      (allSome parts).bind fun ps =>
        if (ps.map (fun p => p.1 * p.2)).sum = 0 then none else aggregate .weighted ps
  | _ => aggregateO m parts

/-- The raw table at one time point: units per raw label; value, weight (`compsize`) per population and
label; population sizes. -/
structure Data where
  units : List Nat
  vals : List (List Rat)
  wts : List (List Rat)
  popsize : List Rat

inductive OutSpec
  | plain (l : Nat)
  | agg (ls : List Nat)
  | formula (vs : List (Option Rat))   -- oracle: the formula's value in each population
  deriving DecidableEq, Repr

inductive PopSpec
  | single (p : Nat)
  | agg (ps : List Nat)
  deriving DecidableEq, Repr

def cell (d : Data) (p l : Nat) : Rat := (d.vals.getD p []).getD l 0
def wt (d : Data) (p l : Nat) : Rat := (d.wts.getD p []).getD l 0
def unitOf (d : Data) (l : Nat) : Nat := d.units.getD l unknownUnits

/-- units that decide the default *output* aggregation of a named aggregation (first label's units; the
code takes element 0 of a `set`, which is the same whenever the labels' units agree) -/
def aggUnits (d : Data) (ls : List Nat) : Nat :=
  match ls with
  | [] => unknownUnits
  | l :: _ => unitOf d l

/-- `aggregated_units`: units of the output after output aggregation ("unknown" for formulas and mixed units) -/
def outUnits (d : Data) : OutSpec → Nat
  | .plain l => unitOf d l
  | .agg [] => unknownUnits
  | .agg (l :: rest) => if rest.all (fun l' => unitOf d l' == unitOf d l) then unitOf d l else unknownUnits
  | .formula _ => unknownUnits

def outParts (d : Data) (p : Nat) (ls : List Nat) : List (Rat × Rat) := ls.map fun l => (cell d p l, wt d p l)

/-- value of one requested output in one population, given the output-aggregation method to use for a list -/
def outValueWith (d : Data) (m : Method) (o : OutSpec) (p : Nat) : Option Rat :=
  match o with
  | .plain l => some (cell d p l)
  | .agg ls => aggregate m (outParts d p ls)
  | .formula vs => vs.getD p none

/-- value of one requested output in one population -/
def outValue (d : Data) (oa : Option Method) (o : OutSpec) (p : Nat) : Option Rat :=
  match o with
  | .agg ls => outValueWith d (method oa (aggUnits d ls)) o p
  | _ => outValueWith d .sum o p

def popParts (d : Data) (f : Nat → Option Rat) (ps : List Nat) : List (Option Rat × Rat) :=
  ps.map fun p => (f p, d.popsize.getD p 0)

/-- THE SPECIFICATION: the reported value for (output, population group) — a function of the output, the
populations and the aggregation options only. -/
def seriesValue (d : Data) (oa pa : Option Method) (o : OutSpec) (g : PopSpec) : Option Rat :=
  match g with
  | .single p => outValue d oa o p
  | .agg ps => aggregateO (method pa (outUnits d o)) (popParts d (outValue d oa o) ps)

/-- one call: a map over requested population groups, then outputs (the order `self.series` is filled in) -/
def plotData (d : Data) (oa pa : Option Method) (outs : List OutSpec) (pops : List PopSpec) : List (Option Rat) :=
  pops.flatMap fun g => outs.map fun o => seriesValue d oa pa o g

/-! ### The code as it is: the chosen default is a loop-carried variable -/

/-- third pass for one population: threads `output_aggregation` through the requested outputs -/
def thirdPass (d : Data) (p : Nat) : Option Method → List OutSpec → Option Method × List (Option Rat)
  | oa, [] => (oa, [])
  | oa, o :: rest =>
      match o with
      | .agg ls =>
          let m := method oa (aggUnits d ls)
          let r := thirdPass d p (some m) rest
          (r.1, outValueWith d m o p :: r.2)
      | _ =>
          let r := thirdPass d p oa rest
          (r.1, outValueWith d .sum o p :: r.2)

/-- loop over `pops_required`, threading `output_aggregation`; result: `aggregated_outputs[pop]` (in request order) -/
def allPasses (d : Data) (outs : List OutSpec) : Option Method → List Nat → List (Nat × List (Option Rat))
  | _, [] => []
  | oa, p :: rest =>
      let r := thirdPass d p oa outs
      (p, r.2) :: allPasses d outs r.1 rest

def lookupOut (tbl : List (Nat × List (Option Rat))) (p j : Nat) : Option Rat :=
  match tbl.lookup p with
  | some row => row.getD j none
  | none => none

/-- inner loop of the population aggregation (over the outputs), threading `pop_aggregation` -/
def popLoopOuts (d : Data) (tbl : List (Nat × List (Option Rat))) (g : PopSpec) :
    Option Method → List (Nat × OutSpec) → Option Method × List (Option Rat)
  | pa, [] => (pa, [])
  | pa, (j, o) :: rest =>
      match g with
      | .single p =>
          let r := popLoopOuts d tbl g pa rest
          (r.1, lookupOut tbl p j :: r.2)
      | .agg ps =>
          let m := method pa (outUnits d o)
          let r := popLoopOuts d tbl g (some m) rest
          (r.1, aggregatePopCurrent m (popParts d (fun p => lookupOut tbl p j) ps) :: r.2)

def popLoop (d : Data) (tbl : List (Nat × List (Option Rat))) (outs : List (Nat × OutSpec)) :
    Option Method → List PopSpec → List (Option Rat)
  | _, [] => []
  | pa, g :: rest =>
      let r := popLoopOuts d tbl g pa outs
      r.2 ++ popLoop d tbl outs r.1 rest

/-- `PlotData.__init__` as written; `req` = `pops_required` in the order the set is iterated -/
def plotDataCurrent (d : Data) (oa pa : Option Method) (outs : List OutSpec) (pops : List PopSpec)
    (req : List Nat) : List (Option Rat) :=
  popLoop d (allPasses d outs oa req) (List.zipIdx outs |>.map fun x => (x.2, x.1)) pa pops

/-! ### Interpolation and time aggregation -/

/-- `np.interp(t, tvec, vals, left=nan, right=nan)` on a strictly increasing `tvec` -/
def interp : List (Rat × Rat) → Rat → Option Rat
  | [], _ => none
  | [(t0, v0)], t => if t = t0 then some v0 else none
  | (t0, v0) :: (t1, v1) :: rest, t =>
      if t < t0 then none
      else if t ≤ t1 then some (v0 + (v1 - v0) * (t - t0) / (t1 - t0))
      else interp ((t1, v1) :: rest) t

/-- trapezoid rule over points `(t, v)` -/
def trapz : List (Rat × Rat) → Rat
  | (t0, v0) :: (t1, v1) :: rest => (t1 - t0) * (v0 + v1) / 2 + trapz ((t1, v1) :: rest)
  | _ => 0

def minDiff : List Rat → Option Rat
  | t0 :: t1 :: rest =>
      match minDiff (t1 :: rest) with
      | none => some (t1 - t0)
      | some m => some (if t1 - t0 < m then t1 - t0 else m)
  | _ => none

/-- number of refinement points for a bin: `ceil((u - l) / (0.5 * min(diff(tvec)))) + 1` -/
def refine (ts : List Rat) (l u : Rat) : Nat :=
  match minDiff ts with
  | none => 0
  | some m => (((u - l) / (m / 2)).ceil + 1).toNat

/-- `np.linspace(l, u, n)` -/
def linspace (l u : Rat) (n : Nat) : List Rat :=
  if n = 1 then [l] else (List.range n).map fun (k : Nat) => l + (k : Rat) * (u - l) / ((n : Rat) - 1)

def sampleAll (pts : List (Rat × Rat)) (xs : List Rat) : Option (List (Rat × Rat)) :=
  xs.mapM fun x => (interp pts x).map fun v => (x, v)

/-- one bin of `time_aggregate` (interpolation_method = "linear"): integral of `vals/scale` over the bin -/
def binIntegral (pts : List (Rat × Rat)) (scale l u : Rat) : Option Rat :=
  (sampleAll pts (linspace l u (refine (pts.map (·.1)) l u))).map fun s =>
    trapz (s.map fun x => (x.1, x.2 / scale))

/-- default time aggregation method of `time_aggregate`: "average" for duration / probability / rate /
proportion / fraction (note: NOT for the dimensionless `""`), "integrate" otherwise -/
def defaultTimeAverage (u : Nat) : Bool := u == 1 || u == 2 || u == 3 || u == 4 || u == 6

/-- integrate: the integral; average: divided by the bin width in units of the timescale -/
def timeAggregate (average : Bool) (pts : List (Rat × Rat)) (scale l u : Rat) : Option Rat :=
  if average then (binIntegral pts scale l u).bind fun v => divQ v ((u - l) / scale)
  else binIntegral pts scale l u

end Atomica.Aggregate

namespace Atomica.Cascade

/-- NaN-propagating addition and sum -/
def oadd (a b : Option Rat) : Option Rat :=
  match a, b with
  | some x, some y => some (x + y)
  | _, _ => none

def osum : List (Option Rat) → Option Rat
  | [] => some 0
  | x :: xs => oadd x (osum xs)

/-- A stage is a list of constituents; each constituent is given by its expansion into compartment indices
(a compartment is `[i]`; a characteristic is its `get_charac_includes` list). -/
abbrev Stage := List (List Nat)

def expand (s : Stage) : List Nat := s.flatten

/-- value of a stage at one time in one population: Σ over constituents of the constituent's value, a
characteristic being the sum of its included compartments -/
def stageVal (x : Nat → Rat) (s : Stage) : Rat := (s.map fun c => (c.map x).sum).sum

/-- `get_cascade_vals` at one time: summed over the selected populations (`x p i` = compartment `i` in pop `p`) -/
def vals (x : Nat → Nat → Rat) (pops : List Nat) (stages : List Stage) : List Rat :=
  stages.map fun s => (pops.map fun p => stageVal (x p) s).sum

/-- `validate_cascade`: every stage's expansion is, as a *set*, contained in the previous stage's -/
def nested : List Stage → Bool
  | s0 :: s1 :: rest => (expand s1).all (fun i => (expand s0).contains i) && nested (s1 :: rest)
  | _ => true

/-- what the set-based test does not see: repeated compartments after expansion -/
def nodupStages (stages : List Stage) : Bool := stages.all fun s => (expand s).eraseDups.length == (expand s).length

def nonincreasing : List Rat → Bool
  | a :: b :: rest => decide (b ≤ a) && nonincreasing (b :: rest)
  | _ => true

/-- SPECIFICATION of `get_cascade_data` at one year: `entry c` = Σ over the selected populations of the databook
entry of constituent `c` (NaN if any is missing); a stage is the sum of its constituents' entries -/
def data (entry : List (Option Rat)) (stages : List (List Nat)) : List (Option Rat) :=
  stages.map fun s => osum (s.map fun c => entry.getD c none)

/-- one stage of the code: `cascade_data[stage] = data_values[c0]` (no copy), then `+= data_values[c]` in place -/
def dataCurrentStage (store : List (Option Rat)) (c0 : Nat) (rest : List Nat) : List (Option Rat) :=
  rest.foldl (fun st c => st.set c0 (oadd (st.getD c0 none) (st.getD c none))) store

def dataCurrentStore (store : List (Option Rat)) (stages : List (List Nat)) : List (Option Rat) :=
  stages.foldl (fun st s => match s with
    | [] => st
    | c0 :: rest => dataCurrentStage st c0 rest) store

/-- `get_cascade_data` as written: every stage is an alias of its first constituent's array, read at the end -/
def dataCurrent (entry : List (Option Rat)) (stages : List (List Nat)) : List (Option Rat) :=
  let final := dataCurrentStore entry stages
  stages.map fun s => match s with
    | [] => none
    | c0 :: _ => final.getD c0 none

end Atomica.Cascade

/-! ### Driver -/
namespace Atomica.Aggregate

abbrev P := StateT (List String) Option

def tok : P String := fun s => match s with | [] => none | x :: xs => some (x, xs)
def pNat : P Nat := do let t ← tok; t.toNat?
def pRat : P Rat := do let t ← tok; parseRat? t
def pORat : P (Option Rat) := do
  let t ← tok
  if t == "nan" then pure none else (parseRat? t).map some
def many {α} (p : P α) : Nat → P (List α)
  | 0 => pure []
  | n + 1 => do let a ← p; let r ← many p n; pure (a :: r)
def counted {α} (p : P α) : P (List α) := do let n ← pNat; many p n

def pMethod : P (Option Method) := do
  let t ← tok
  match t with
  | "-" => pure none
  | "sum" => pure (some .sum)
  | "average" => pure (some .average)
  | "weighted" => pure (some .weighted)
  | _ => failure

def pOut (np : Nat) : P OutSpec := do
  let t ← tok
  match t with
  | "p" => do let l ← pNat; pure (.plain l)
  | "a" => do let ls ← counted pNat; pure (.agg ls)
  | "f" => do let vs ← many pORat np; pure (.formula vs)
  | _ => failure

def pPop : P PopSpec := do
  let t ← tok
  match t with
  | "s" => do let p ← pNat; pure (.single p)
  | "a" => do let ps ← counted pNat; pure (.agg ps)
  | _ => failure

def showORats (l : List (Option Rat)) : String := " ".intercalate (l.map showOptRat)

/-- `agg plot CUR OA PA NL NP units[NL] popsize[NP] (vals[NL] wts[NL])×NP  NO out*  NG pop*  NR req*` -/
def pPlot : P String := do
  let cur ← pNat
  let oa ← pMethod
  let pa ← pMethod
  let nl ← pNat
  let np ← pNat
  let units ← many pNat nl
  let popsize ← many pRat np
  let rows ← many (do let v ← many pRat nl; let w ← many pRat nl; pure (v, w)) np
  let outs ← counted (pOut np)
  let pops ← counted pPop
  let req ← counted pNat
  let d : Data := { units := units, vals := rows.map (·.1), wts := rows.map (·.2), popsize := popsize }
  if cur = 1 then pure (showORats (plotDataCurrent d oa pa outs pops req))
  else pure (showORats (plotData d oa pa outs pops))

def pPts : P (List (Rat × Rat)) := counted (do let t ← pRat; let v ← pRat; pure (t, v))

def strictlyIncreasing : List Rat → Bool
  | a :: b :: rest => decide (a < b) && strictlyIncreasing (b :: rest)
  | _ => true

/-- `agg interp N (t v)* M x*` -/
def pInterp : P String := do
  let pts ← pPts
  let xs ← counted pRat
  if !strictlyIncreasing (pts.map (·.1)) then pure "err tvec" else
  pure (showORats (xs.map (interp pts)))

/-- `agg tagg METHOD UNITS SCALE N (t v)* B edge*` (METHOD `integrate`|`average`|`-` = default from UNITS) → per bin: `n value` -/
def pTagg : P String := do
  let mt ← tok
  let u ← pNat
  let avg := if mt == "average" then 1 else if mt == "integrate" then 0 else if defaultTimeAverage u then 1 else 0
  let scale ← pRat
  let pts ← pPts
  let edges ← counted pRat
  if !strictlyIncreasing (pts.map (·.1)) || scale = 0 || pts.length < 2 then pure "err tvec" else
  let bins := edges.zip edges.tail
  pure (" ".intercalate (bins.map fun (l, u) =>
    toString (refine (pts.map (·.1)) l u) ++ " " ++ showOptRat (timeAggregate (avg = 1) pts scale l u)))

def handle : List String → Option String
  | "plot" :: rest => (pPlot.run rest).map (·.1)
  | "interp" :: rest => (pInterp.run rest).map (·.1)
  | "tagg" :: rest => (pTagg.run rest).map (·.1)
  | _ => none

end Atomica.Aggregate

namespace Atomica.Cascade
open Atomica.Aggregate (P tok pNat pRat pORat many counted showORats)

def pStage : P Stage := counted (counted pNat)

def showB (b : Bool) : String := if b then "1" else "0"

/-- `cascade vals NC NP x[NP][NC]  NSEL sel*  NS stage*` → `nested nodup monotone v*` -/
def pVals : P String := do
  let nc ← pNat
  let np ← pNat
  let x ← many (many pRat nc) np
  let sel ← counted pNat
  let stages ← counted pStage
  let xf : Nat → Nat → Rat := fun p i => (x.getD p []).getD i 0
  let v := vals xf sel stages
  pure (showB (nested stages) ++ " " ++ showB (nodupStages stages) ++ " " ++ showB (nonincreasing v) ++ " " ++ showRats v)

/-- `cascade data CUR NK entry[NK] NS (k id*)*` -/
def pData : P String := do
  let cur ← pNat
  let entry ← counted pORat
  let stages ← counted (counted pNat)
  if cur = 1 then pure (showORats (dataCurrent entry stages)) else pure (showORats (data entry stages))

/-- `cascade entry NP e*` → Σ over pops (NaN-propagating; NaN when no population is selected) -/
def pEntry : P String := do
  let es ← counted pORat
  pure (showOptRat (if es.isEmpty then none else osum es))

def handle : List String → Option String
  | "vals" :: rest => (pVals.run rest).map (·.1)
  | "data" :: rest => (pData.run rest).map (·.1)
  | "entry" :: rest => (pEntry.run rest).map (·.1)
  | _ => none

end Atomica.Cascade
