/-
  AtomicaModel.Series — `atomica.utils.TimeSeries.interpolate` for `method='linear'` and
  `method='previous'`, and `TimeSeries.insert` for a dated value (C06 series half, used by C09).

  What the Python code does (utils.py, `TimeSeries.interpolate`):

    if not has_data (assumption is None and len(t)==0)     -> NaN for every requested time
    elif not has_time_data (len(t)==0)                     -> the assumption for every requested time
    t1, v1 = arrays of self.t / self.vals; drop every index where t or v is NaN
    if nothing remains                                     -> raise Exception
    if one point remains                                   -> its value for every requested time
    'linear'   -> np.interp(t2, t1, v1, left=v1[0], right=v1[-1])
    'previous' -> scipy interp1d(kind='previous', bounds_error=False, fill_value=(v1[0], v1[-1]))

  Numbers are exact rationals.  A stored NaN (time or value) is `none`.  The assumption is `none`
  when it is Python `None` *or* NaN: both give NaN output when there is no dated point and both are
  ignored when there is one, so the two are indistinguishable through `interpolate`.
  Requested times are finite (simulation times); NaN/inf requests and inf values are not modelled.
-/
import AtomicaModel.Basic
namespace Atomica.Series

/-- a dated point with finite time and value -/
abbrev Pt := Rat × Rat

/-- a stored entry `(self.t[i], self.vals[i])`; `none` = NaN -/
abbrev Raw := Option Rat × Option Rat

/-- the part of a `TimeSeries` that `interpolate` reads -/
structure TS where
  raw : List Raw               -- zip(self.t, self.vals)
  assumption : Option Rat      -- self.assumption (None / NaN → none)
deriving Repr

/-- result of one interpolated value -/
inductive Out where
  | val (r : Rat)
  | nan              -- NaN (no data at all, or a non-finite intermediate)
  | err              -- the call raised ("No time points remained after removing NaNs")
deriving DecidableEq, Repr

def Out.ofOpt : Option Rat → Out
  | some r => .val r
  | none => .nan

/-- `idx = ~isnan(t1) & ~isnan(v1); t1, v1 = t1[idx], v1[idx]` -/
def keep : Raw → Option Pt
  | (some t, some v) => some (t, v)
  | _ => none

def clean (raw : List Raw) : List Pt := raw.filterMap keep

/-! ### linear: `np.interp(x, xp, fp, left=fp[0], right=fp[-1])` -/

/-- numpy's interior formula `slope*(x - xp[j]) + fp[j]`, `slope = (fp[j+1]-fp[j])/(xp[j+1]-xp[j])`;
    `none` if the interval has zero width (numpy: non-finite slope) -/
def chord (p0 p1 : Pt) (x : Rat) : Option Rat :=
  (divQ (p1.2 - p0.2) (p1.1 - p0.1)).map (fun slope => slope * (x - p0.1) + p0.2)

/-- walk to the interval `xp[j] ≤ x < xp[j+1]` (numpy: binary search; same `j` on increasing `xp`),
    called with `xp[j] = p0.1 ≤ x`.  At or beyond the last point: its value (`right`).
    `x = xp[j]` returns `fp[j]` without arithmetic, as numpy does. -/
def linFrom : Pt → List Pt → Rat → Option Rat
  | p0, [], _ => some p0.2
  | p0, p1 :: rest, x =>
      if x < p1.1 then (if x = p0.1 then some p0.2 else chord p0 p1 x)
      else linFrom p1 rest x

/-- `interpolate(..., method='linear')` after the NaN filter -/
def linClean : List Pt → Rat → Out
  | [], _ => .err
  | [p], _ => .val p.2
  | p0 :: p1 :: rest, x =>
      if x < p0.1 then .val p0.2                       -- left = v1[0]
      else Out.ofOpt (linFrom p0 (p1 :: rest) x)

/-! ### previous: stepped, value of the last point at or before `x` -/

/-- `v` is the value in force; move on while the next point is at or before `x` -/
def prevFrom : Rat → List Pt → Rat → Rat
  | v, [], _ => v
  | v, p1 :: rest, x => if x < p1.1 then v else prevFrom p1.2 rest x

/-- `interpolate(..., method='previous')` after the NaN filter -/
def prevClean : List Pt → Rat → Out
  | [], _ => .err
  | [p], _ => .val p.2
  | p0 :: p1 :: rest, x =>
      if x < p0.1 then .val p0.2                       -- fill_value[0] = v1[0]
      else .val (prevFrom p0.2 (p1 :: rest) x)

/-! ### the two public entry points -/

def interpWith (f : List Pt → Rat → Out) (s : TS) (x : Rat) : Out :=
  match s.raw with
  | [] =>                                  -- not has_time_data
      match s.assumption with
      | none => .nan                       -- not has_data
      | some a => .val a
  | _ :: _ => f (clean s.raw) x

def interpLinear (s : TS) (x : Rat) : Out := interpWith linClean s x
def interpPrevious (s : TS) (x : Rat) : Out := interpWith prevClean s x

/-! ### `TimeSeries.insert(t, v)` for a dated value

  `idx = bisect_left(self.t, t)`; overwrite if `self.t[idx] == t`, else insert at `idx`.
  On an increasing NaN-free time list `bisect_left` is the first index whose time is not `< t`,
  which is what this linear scan finds (a NaN time compares `False` and stops the scan; the
  theorems only use `insertRaw` on NaN-free time lists). `w = none` is a NaN value (`float(v)`). -/
def insertRaw (t : Rat) (w : Option Rat) : List Raw → List Raw
  | [] => [(some t, w)]
  | (some t', w') :: rest =>
      if t' < t then (some t', w') :: insertRaw t w rest
      else if t' = t then (some t, w) :: rest
      else (some t, w) :: (some t', w') :: rest
  | (none, w') :: rest => (some t, w) :: (none, w') :: rest

def TS.insertAt (s : TS) (t : Rat) (w : Option Rat) : TS := { s with raw := insertRaw t w s.raw }

/-- `insert(None, v)` -/
def TS.setAssumption (s : TS) (a : Option Rat) : TS := { s with assumption := a }

/-! ### driver -/

def showOut : Out → String
  | .val r => showRat r
  | .nan => "nan"
  | .err => "err"

def parseOptRat? (s : String) : Option (Option Rat) :=
  if s = "nan" then some none else (parseRat? s).map some

/-- `k a1 b1 … ak bk rest…` → (pairs, rest) -/
def parsePairs? : Nat → List String → Option (List Raw × List String)
  | 0, rest => some ([], rest)
  | n + 1, a :: b :: rest => do
      let t ← parseOptRat? a
      let v ← parseOptRat? b
      let (ps, rest') ← parsePairs? n rest
      some ((t, v) :: ps, rest')
  | _, _ => none

def showRaw (raw : List Raw) : String :=
  " ".intercalate (toString raw.length :: raw.flatMap (fun p => [showOptRat p.1, showOptRat p.2]))

/-- `interp-* <assumption|nan> <n> t1 v1 … tn vn <m> x1 … xm` → `out1 … outm` or `err nopoints` -/
def handleWith (f : TS → Rat → Out) : List String → Option String
  | a :: n :: rest => do
      let asm ← parseOptRat? a
      let n ← n.toNat?
      let (raw, rest') ← parsePairs? n rest
      match rest' with
      | m :: xs => do
          let m ← m.toNat?
          let xs ← parseRats? xs
          if xs.length ≠ m then none else
          let s : TS := { raw := raw, assumption := asm }
          let outs := xs.map (f s)
          if outs.any (· == Out.err) then some "err nopoints"
          else some (" ".intercalate (outs.map showOut))
      | [] => none
  | _ => none

def handleLinear : List String → Option String := handleWith interpLinear
def handlePrevious : List String → Option String := handleWith interpPrevious

/-- `series-insert <n> t1 v1 … tn vn <t> <w>` → `<n'> t1 v1 …` -/
def handleInsert : List String → Option String
  | n :: rest => do
      let n ← n.toNat?
      let (raw, rest') ← parsePairs? n rest
      match rest' with
      | [t, w] => do
          let t ← parseRat? t
          let w ← parseOptRat? w
          some (showRaw (insertRaw t w raw))
      | _ => none
  | _ => none

end Atomica.Series
