/-
  AtomicaModel.Alloc — constrained allocations (C14).

  Models, over exact rationals,
    * `constrain_sum_bounded`                      (`constrainWith`, `constrain`, `constrainCurrent`)
    * `TotalSpendConstraint.get_hard_constraint`   (`hardConstraint`, `checkYear`)
    * `TotalSpendConstraint.constrain_instructions`(`constrainYear`, one constrained year; years are independent)
    * `SpendingPackageAdjustment.update_instructions / set_total_spend` (`packageUpdate`, `setTotalSpend`)
    * the order of events of `optimize` around the feasibility pre-check (`optimizeTrace`)
  of atomica/optimization.py.

  SLSQP (`scipy.optimize.minimize`) is an ORACLE: every function that reaches it takes the solver's answer as a
  parameter, and every theorem is stated for an arbitrary answer.

  Specification-shaped vs. current.  Where the code departs from property C14 the file has both:
    * `closeSpec` (|a-b| ≤ 1e-6·|b|, the property's tolerance)  vs `closeNp` (numpy.isclose: 1e-8 + 1e-5·|b|, what the code uses)
    * `constrain` (s = 0: the all-zero allocation when every bound admits it, else rejected) vs `constrainCurrent` (s = 0: NaN, AssertionError)
    * `setTotalSpend` (zero current package total: split the new total by fallback proportions) vs `setTotalSpendCurrent` (stays all zero)
    * `relHi` (relative bound with infinite multiplier is infinite) vs `relHiCurrent` (0·inf = NaN)
  Upper bounds are `Option Rat` with `none` = +∞; lower bounds are finite rationals (spending lower bounds).
  Vectors are index functions `Nat → Rat` over `0..n-1` (as `sumTo` in Basic).
-/
import AtomicaModel.Basic
namespace Atomica.Alloc

/-- upper bound: `none` = +∞ -/
abbrev UB := Option Rat

def leUB (v : Rat) : UB → Bool
  | none => true
  | some u => decide (v ≤ u)

/-- `np.maximum(v, l)` -/
def clipLB (l v : Rat) : Rat := if v < l then l else v
/-- `np.minimum(v, u)` -/
def clipUB (u : UB) (v : Rat) : Rat :=
  match u with
  | none => v
  | some u => if u < v then u else v
/-- `np.minimum(np.maximum(v, l), u)` -/
def clip (l : Rat) (u : UB) (v : Rat) : Rat := clipUB u (clipLB l v)

/-- `ub / s` for `s > 0` (`inf / s = inf`) -/
def divUB (u : UB) (s : Rat) : UB := u.map (· / s)
def mulUB (u : UB) (s : Rat) : UB := u.map (· * s)
def addUB : UB → UB → UB
  | some a, some b => some (a + b)
  | _, _ => none

def absQ (a : Rat) : Rat := if a < 0 then -a else a

/-- the property's tolerance: 1e-6 relative -/
def tolSpec : Rat := 1 / 1000000
def closeSpec (a b : Rat) : Bool := decide (absQ (a - b) ≤ tolSpec * absQ b)
/-- `numpy.isclose(a, b)` with default `rtol=1e-5, atol=1e-8` (what the code calls) -/
def closeNp (a b : Rat) : Bool := decide (absQ (a - b) ≤ 1 / 100000000 + 1 / 100000 * absQ b)

/-- `∀ i < n, p i` -/
def allTo : Nat → (Nat → Bool) → Bool
  | 0, _ => true
  | n + 1, p => allTo n p && p n

inductive Branch | early | solver | zero
  deriving DecidableEq, Repr

inductive Result
  | ok (b : Branch) (y : Nat → Rat)
  | failed        -- FailedConstraint: the designated "cannot be satisfied" signal
  | assertFail    -- the final assertion (AssertionError)

/-- what `scipy.optimize.minimize` returned: `res["success"]`, `res["x"]` -/
structure SolverAns where
  success : Bool
  x : Nat → Rat

/-- the solver is called with the normalised proposal and the scaled bounds -/
abbrev Solver := (Nat → Rat) → (Nat → Rat) → (Nat → UB) → SolverAns

/-- `x / (x.sum() or 1)` -/
def normalise (n : Nat) (x : Nat → Rat) : Nat → Rat :=
  fun i => x i / (if sumTo n x = 0 then 1 else sumTo n x)

/-- the early-return test: normalised proposal inside the scaled bounds and summing to 1 -/
def earlyOK (close : Rat → Rat → Bool) (n : Nat) (x0 lbs : Nat → Rat) (ubs : Nat → UB) : Bool :=
  allTo n (fun i => decide (lbs i ≤ x0 i) && leUB (x0 i) (ubs i)) && close (sumTo n x0) 1

/-- after the solver: reject on failure, clip into the scaled bounds, scale back, final sum check -/
def finish (close : Rat → Rat → Bool) (n : Nat) (s : Rat) (lbs : Nat → Rat) (ubs : Nat → UB) (a : SolverAns) : Result :=
  if !a.success then .failed
  else
    let sol := fun i => clip (lbs i) (ubs i) (a.x i) * s
    if close (sumTo n sol) s then .ok .solver sol else .assertFail

/-- body of `constrain_sum_bounded` for `s ≠ 0`, parametrised by the closeness test -/
def constrainWith (close : Rat → Rat → Bool) (n : Nat) (x : Nat → Rat) (s : Rat)
    (lb : Nat → Rat) (ub : Nat → UB) (solver : Solver) : Result :=
  let x0 := normalise n x
  let lbs := fun i => lb i / s
  let ubs := fun i => divUB (ub i) s
  if earlyOK close n x0 lbs ubs then .ok .early (fun i => x0 i * s)
  else finish close n s lbs ubs (solver x0 lbs ubs)

/-- specification-shaped `constrain_sum_bounded`: tolerance of the property; `s = 0` handled without dividing -/
def constrain (n : Nat) (x : Nat → Rat) (s : Rat) (lb : Nat → Rat) (ub : Nat → UB) (solver : Solver) : Result :=
  if s = 0 then
    if allTo n (fun i => decide (lb i ≤ 0) && leUB 0 (ub i)) then .ok .zero (fun _ => 0) else .failed
  else constrainWith closeSpec n x s lb ub solver

/-- the code as it is: numpy.isclose; `s = 0` divides by zero (NaN everywhere, the final assertion fails) -/
def constrainCurrent (n : Nat) (x : Nat → Rat) (s : Rat) (lb : Nat → Rat) (ub : Nat → UB) (solver : Solver) : Result :=
  if s = 0 then .assertFail else constrainWith closeNp n x s lb ub solver

/-! ### Feasibility pre-check (`TotalSpendConstraint.get_hard_constraint`) -/

/-- one (adjustment, year, program-or-package) reach -/
structure Entry where
  year : Nat
  item : Nat
  rel : Bool      -- limit_type == "rel"
  lo : Rat
  hi : UB
  cur : Rat       -- spending on the item in that year in the initial instructions (package: initial total)

def relLo (e : Entry) : Rat := if e.rel then e.cur * e.lo else e.lo
/-- specification: a relative bound with an infinite multiplier is infinite -/
def relHi (e : Entry) : UB := if e.rel then mulUB e.hi e.cur else e.hi
/-- current: `x0 * np.inf` is NaN when `x0 = 0` (outer `none` = NaN) -/
def relHiCurrent (e : Entry) : Option UB :=
  if e.rel then
    match e.hi with
    | none => if e.cur = 0 then none else some none
    | some h => some (some (e.cur * h))
  else some e.hi

structure ConSpec where
  years : List Nat            -- `TotalSpendConstraint.t` ([] = every year with an adjustment)
  totals : List (Option Rat)  -- `total_spend` ([] = from the instructions)
  bf : List Rat               -- `budget_factor` (length 1, or one per year)

structure YearCon where
  year : Nat
  total : Rat
  bounds : List (Nat × Rat × UB)   -- dict item -> (lo, hi): last write wins
  minSpend : Rat                   -- accumulators (every reach is added, as in the code)
  maxSpend : UB

inductive HardErr
  | missingTimes
  | unresolvableMin (year : Nat)
  | unresolvableMax (year : Nat)
  | badSpec
  deriving DecidableEq, Repr

def yearsOf (es : List Entry) : List Nat := (es.map (·.year)).eraseDups

/-- first reach of every item (the `set` of program names of a year) -/
def dedupItems : List Entry → List Nat → List Entry
  | [], _ => []
  | e :: es, seen => if seen.contains e.item then dedupItems es seen else e :: dedupItems es (e.item :: seen)

def sumLo (b : List (Nat × Rat × UB)) : Rat := listSum (b.map (·.2.1))
def sumHi : List (Nat × Rat × UB) → UB
  | [] => some 0
  | b :: bs => addUB b.2.2 (sumHi bs)

/-- dict assignment `d[k] = v` keeping first-insertion order -/
def dictSet (d : List (Nat × Rat × UB)) (k : Nat) (v : Rat × UB) : List (Nat × Rat × UB) :=
  if d.any (·.1 = k) then d.map (fun p => if p.1 = k then (k, v) else p) else d ++ [(k, v)]

def boundsOf (es : List Entry) : List (Nat × Rat × UB) :=
  es.foldl (fun d e => dictSet d e.item (relLo e, relHi e)) []

/-- `minimum_spend > total` / `maximum_spend < total` -/
def checkYear (t : Nat) (total minS : Rat) (maxS : UB) : Option HardErr :=
  if total < minS then some (.unresolvableMin t)
  else if !(leUB total maxS) then some (.unresolvableMax t)
  else none

def totalFor (cs : ConSpec) (es : List Entry) (t : Nat) : Option Rat :=
  let at_t := es.filter (·.year = t)
  let fromAlloc := listSum ((dedupItems at_t []).map (·.cur))
  if cs.years = [] then
    match cs.bf with
    | [f] => some (fromAlloc * f)
    | _ => none
  else
    let idx := cs.years.idxOf t
    let explicit : Option Rat := if cs.totals = [] then none else (cs.totals.getD idx none)
    let base := explicit.getD fromAlloc
    match cs.bf with
    | [f] => some (base * f)
    | fs => (fs[idx]?).map (base * ·)

def hardYears (cs : ConSpec) (es : List Entry) : List Nat → Except HardErr (List YearCon)
  | [] => .ok []
  | t :: ts =>
    if cs.years ≠ [] ∧ ¬ cs.years.contains t then hardYears cs es ts
    else
      match totalFor cs es t with
      | none => .error .badSpec
      | some total =>
        let at_t := es.filter (·.year = t)
        let minS := listSum (at_t.map relLo)
        let maxS := at_t.foldr (fun e acc => addUB (relHi e) acc) (some 0)
        match checkYear t total minS maxS with
        | some err => .error err
        | none =>
          match hardYears cs es ts with
          | .error err => .error err
          | .ok rest => .ok ({ year := t, total := total, bounds := boundsOf at_t, minSpend := minS, maxSpend := maxS } :: rest)

def hardConstraint (cs : ConSpec) (es : List Entry) : Except HardErr (List YearCon) :=
  let ys := yearsOf es
  if cs.years.any (fun t => !ys.contains t) then .error .missingTimes
  else hardYears cs es ys

/-! ### Packages -/

/-- `set_total_spend`: rescale every member by a common factor; with no current spending fall back on proportions `w` -/
def setTotalSpend (m : Nat) (mem : Nat → Rat) (w : Nat → Rat) (val : Rat) : Nat → Rat :=
  let c := sumTo m mem
  if 0 < c then fun i => mem i * (val / c) else fun i => w i * val

/-- the code as it is: `spend_factor = 0.0` when there is no current spending -/
def setTotalSpendCurrent (m : Nat) (mem : Nat → Rat) (val : Rat) : Nat → Rat :=
  let c := sumTo m mem
  if 0 < c then fun i => mem i * (val / c) else fun i => mem i * 0

/-- `SpendingPackageAdjustment.update_instructions`: fractions constrained to sum 1 within [min, max], spend = frac·total -/
def packageUpdateWith (close : Rat → Rat → Bool) (m : Nat) (fracs : Nat → Rat) (minP : Nat → Rat) (maxP : Nat → Rat)
    (total : Rat) (solver : Solver) : Result :=
  match constrainWith close m fracs 1 minP (fun i => some (maxP i)) solver with
  | .ok b f => .ok b (fun i => f i * total)
  | r => r

def packageUpdate := packageUpdateWith closeSpec
def packageUpdateCurrent := packageUpdateWith closeNp

/-! ### One constrained year of `TotalSpendConstraint.constrain_instructions` -/

/-- an item of a constrained year: a program (`m = 1`) or a package with `m` members -/
structure Item where
  m : Nat
  mem : Nat → Rat     -- current spending of the members in that year
  w : Nat → Rat       -- fallback proportions (specification only)
  lo : Rat
  hi : UB
  isPkg : Bool

def Item.total (it : Item) : Rat := sumTo it.m it.mem

def getItem (items : List Item) (i : Nat) : Item :=
  items.getD i { m := 0, mem := fun _ => 0, w := fun _ => 0, lo := 0, hi := none, isPkg := false }

/-- write-back: programs are overwritten, packages rescaled -/
def writeBack (spec : Bool) (it : Item) (val : Rat) : Item :=
  if it.isPkg then
    { it with mem := if spec then setTotalSpend it.m it.mem it.w val else setTotalSpendCurrent it.m it.mem val }
  else { it with m := 1, mem := fun _ => val }

inductive YearResult
  | ok (b : Branch) (items : List Item)
  | failed
  | assertFail

def constrainYearWith (spec : Bool) (items : List Item) (total : Rat) (solver : Solver) : YearResult :=
  let n := items.length
  let x := fun i => (getItem items i).total
  let lb := fun i => (getItem items i).lo
  let ub := fun i => (getItem items i).hi
  match (if spec then constrain n x total lb ub solver else constrainCurrent n x total lb ub solver) with
  | .ok b y => .ok b ((List.range n).map (fun i => writeBack spec (getItem items i) (y i)))
  | .failed => .failed
  | .assertFail => .assertFail

def constrainYear := constrainYearWith true
def constrainYearCurrent := constrainYearWith false

def yearTotal (items : List Item) : Rat := listSum (items.map Item.total)

/-! ### Order of events in `optimize` -/

inductive Ev | initialization | hardConstraint | baselines | objective | search | finalConstrain
  deriving DecidableEq, Repr

/-- `optimize`: initialisation, then the feasibility pre-check (may raise), then baselines, the initial objective
    evaluation (may be non-finite → InvalidInitialConditions), the search (`k` objective evaluations), the final constrain -/
def optimizeTrace (hardOk : Bool) (initFinite : Bool) (k : Nat) : List Ev :=
  [.initialization, .hardConstraint] ++
    (if !hardOk then [] else
      [.baselines, .objective] ++
        (if !initFinite then [] else [.search] ++ List.replicate k .objective ++ [.finalConstrain]))

/-! ### Driver -/

def getQ (a : Array Rat) : Nat → Rat := fun i => a.getD i 0
def getU (a : Array UB) : Nat → UB := fun i => a.getD i none

def parseUB? (s : String) : Option UB :=
  if s = "inf" then some none else (parseRat? s).map some

def showUB : UB → String
  | none => "inf"
  | some r => showRat r

def showVec (n : Nat) (y : Nat → Rat) : String := showRats ((List.range n).map y)

def showBranch : Branch → String
  | .early => "early" | .solver => "solver" | .zero => "zero"

/-- the recorded solver answer (or none when the implementation did not reach the solver) -/
def constSolver (a : SolverAns) : Solver := fun _ _ _ => a

/-- `take k` tokens as rationals -/
def takeRats (k : Nat) (l : List String) : Option (Array Rat × List String) := do
  if l.length < k then none else
  let xs ← parseRats? (l.take k)
  some (xs.toArray, l.drop k)

def takeUBs (k : Nat) (l : List String) : Option (Array UB × List String) := do
  if l.length < k then none else
  let xs ← (l.take k).mapM parseUB?
  some (xs.toArray, l.drop k)

/-- `<have 0|1> [<success 0|1> v1..vn]` -/
def takeSolver (n : Nat) (l : List String) : Option (Option SolverAns × List String) :=
  match l with
  | "0" :: rest => some (none, rest)
  | "1" :: succ :: rest => do
      let (v, rest) ← takeRats n rest
      some (some { success := succ = "1", x := getQ v }, rest)
  | _ => none

def replyResult (n : Nat) (ans : Option SolverAns) (run : Solver → Result) : String :=
  match ans with
  | some a =>
      match run (constSolver a) with
      | .ok b y => "ok " ++ showBranch b ++ " " ++ showVec n y
      | .failed => "failed"
      | .assertFail => "assert"
  | none =>
      -- probe with a failing answer: `.failed` means the solver was reached
      match run (constSolver { success := false, x := fun _ => 0 }) with
      | .ok b y => "ok " ++ showBranch b ++ " " ++ showVec n y
      | .failed => "need-solver"
      | .assertFail => "assert"

/-- `constrain <spec|cur> <n> <s> x.. lb.. ub.. <solver>` -/
def handleConstrain : List String → Option String
  | variant :: ns :: ss :: rest => do
      let n ← ns.toNat?
      let s ← parseRat? ss
      let (x, rest) ← takeRats n rest
      let (lb, rest) ← takeRats n rest
      let (ub, rest) ← takeUBs n rest
      let (ans, rest) ← takeSolver n rest
      if rest ≠ [] then none else
      let f := if variant = "spec" then constrain else constrainCurrent
      some (replyResult n ans (f n (getQ x) s (getQ lb) (getU ub)))
  | _ => none

/-- `package <spec|cur> <m> <total> fracs.. min.. max.. <solver>` -/
def handlePackage : List String → Option String
  | variant :: ms :: ts :: rest => do
      let m ← ms.toNat?
      let total ← parseRat? ts
      let (fr, rest) ← takeRats m rest
      let (mn, rest) ← takeRats m rest
      let (mx, rest) ← takeRats m rest
      let (ans, rest) ← takeSolver m rest
      if rest ≠ [] then none else
      let f := if variant = "spec" then packageUpdate else packageUpdateCurrent
      some (replyResult m ans (f m (getQ fr) (getQ mn) (getQ mx) total))
  | _ => none

/-- `settotal <spec|cur> <m> <val> mem.. w..` -/
def handleSetTotal : List String → Option String
  | variant :: ms :: vs :: rest => do
      let m ← ms.toNat?
      let val ← parseRat? vs
      let (mem, rest) ← takeRats m rest
      let (w, rest) ← takeRats m rest
      if rest ≠ [] then none else
      let y := if variant = "spec" then setTotalSpend m (getQ mem) (getQ w) val else setTotalSpendCurrent m (getQ mem) val
      some (showVec m y)
  | _ => none

/-- items: `<k>` then per item `<isPkg 0|1> <m> <lo> <hi> mem.. w..` -/
def takeItems : Nat → List String → Option (List Item × List String)
  | 0, l => some ([], l)
  | k + 1, pk :: ms :: los :: his :: rest => do
      let m ← ms.toNat?
      let lo ← parseRat? los
      let hi ← parseUB? his
      let (mem, rest) ← takeRats m rest
      let (w, rest) ← takeRats m rest
      let (its, rest) ← takeItems k rest
      some ({ m := m, mem := getQ mem, w := getQ w, lo := lo, hi := hi, isPkg := pk = "1" } :: its, rest)
  | _, _ => none

def showItems (items : List Item) : String :=
  " ".intercalate (items.map (fun it => toString it.m ++ " " ++ showVec it.m it.mem))

/-- `cyear <spec|cur> <total> <k> items.. <solver>` → `ok <branch> <m mem..>…` -/
def handleYear : List String → Option String
  | variant :: ts :: ks :: rest => do
      let total ← parseRat? ts
      let k ← ks.toNat?
      let (items, rest) ← takeItems k rest
      let (ans, rest) ← takeSolver k rest
      if rest ≠ [] then none else
      let run := fun (sv : Solver) => constrainYearWith (variant = "spec") items total sv
      let show_ := fun (r : YearResult) (probe : Bool) =>
        match r with
        | .ok b its => "ok " ++ showBranch b ++ " " ++ showItems its
        | .failed => if probe then "need-solver" else "failed"
        | .assertFail => "assert"
      match ans with
      | some a => some (show_ (run (constSolver a)) false)
      | none => some (show_ (run (constSolver { success := false, x := fun _ => 0 })) true)
  | _ => none

/-- entries: `<k>` then per entry `<year> <item> <rel 0|1> <lo> <hi> <cur>` -/
def takeEntries : Nat → List String → Option (List Entry × List String)
  | 0, l => some ([], l)
  | k + 1, ys :: is :: rs :: los :: his :: cs :: rest => do
      let y ← ys.toNat?
      let i ← is.toNat?
      let lo ← parseRat? los
      let hi ← parseUB? his
      let c ← parseRat? cs
      let (es, rest) ← takeEntries k rest
      some ({ year := y, item := i, rel := rs = "1", lo := lo, hi := hi, cur := c } :: es, rest)
  | _, _ => none

def parseOptRat? (s : String) : Option (Option Rat) :=
  if s = "none" then some none else (parseRat? s).map some

def showYearCon (yc : YearCon) : String :=
  "year " ++ toString yc.year ++ " " ++ showRat yc.total ++ " " ++ toString yc.bounds.length ++ " " ++
    " ".intercalate (yc.bounds.map (fun b => toString b.1 ++ " " ++ showRat b.2.1 ++ " " ++ showUB b.2.2))

/-- `hardcon <ny> years.. <nt> totals.. <nb> bf.. <k> entries..` → `ok year t total k item lo hi … | err …` -/
def handleHard : List String → Option String
  | nys :: rest => do
      let ny ← nys.toNat?
      if rest.length < ny then none else
      let years ← (rest.take ny).mapM String.toNat?
      let rest := rest.drop ny
      match rest with
      | nts :: rest => do
        let nt ← nts.toNat?
        if rest.length < nt then none else
        let totals ← (rest.take nt).mapM parseOptRat?
        let rest := rest.drop nt
        match rest with
        | nbs :: rest => do
          let nb ← nbs.toNat?
          let (bf, rest) ← takeRats nb rest
          match rest with
          | ks :: rest => do
            let k ← ks.toNat?
            let (es, rest) ← takeEntries k rest
            if rest ≠ [] then none else
            match hardConstraint { years := years, totals := totals, bf := bf.toList } es with
            | .ok ycs => some ("ok " ++ toString ycs.length ++ " " ++ " ".intercalate (ycs.map showYearCon))
            | .error .missingTimes => some "err missing-times"
            | .error (.unresolvableMin t) => some ("err unresolvable min " ++ toString t)
            | .error (.unresolvableMax t) => some ("err unresolvable max " ++ toString t)
            | .error .badSpec => some "err bad-spec"
          | _ => none
        | _ => none
      | _ => none
  | _ => none

def showEv : Ev → String
  | .initialization => "init" | .hardConstraint => "hard" | .baselines => "baselines"
  | .objective => "objective" | .search => "search" | .finalConstrain => "final"

/-- `opttrace <hardOk 0|1> <initFinite 0|1> <k>` -/
def handleTrace : List String → Option String
  | [a, b, ks] => do
      let k ← ks.toNat?
      some (" ".intercalate ((optimizeTrace (a = "1") (b = "1") k).map showEv))
  | _ => none

/-- request kind `constrain`: `constrain <spec|cur> …` (one call) or `constrain year <spec|cur> …` (one constrained year) -/
def handle : List String → Option String
  | "year" :: rest => handleYear rest
  | rest => handleConstrain rest

/-- request kind `hardcon`: `hardcon trace …` or `hardcon <ny> …` -/
def handleHardcon : List String → Option String
  | "trace" :: rest => handleTrace rest
  | rest => handleHard rest

/-- request kind `package`: `package update <spec|cur> …` or `package settotal <spec|cur> …` -/
def handlePackageKind : List String → Option String
  | "update" :: rest => handlePackage rest
  | "settotal" :: rest => handleSetTotal rest
  | _ => none

end Atomica.Alloc
