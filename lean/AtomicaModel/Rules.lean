/-
  AtomicaModel.Rules — the framework rule checker (C18).

  `FrameworkAbs` is the content of a framework file *after sanitation* (`_sanitize_*`: defaults filled, flags are
  booleans, "has a databook page" is a boolean, setup weights defaulted).  `validate` follows
  `ProjectFramework._validate_compartments`, `_validate_characteristics`, `_validate_interactions`,
  `_process_transitions`, `_validate_parameters`, `_validate_names`, `_validate_cascades` + `cascade.validate_cascade`
  rule by rule.  It is the *specification-shaped* checker: where the code that exists is weaker than the documented
  rule, `validate` implements the rule and a faithful `…Current` definition is given next to it
  (`checkTimedCurrent`: the duration-group bookkeeping of `_process_transitions` depends on the order of the rows).
  Rules that the code does not check at all but that the engine relies on (`WF`) are marked "spec only".

  Core Lean only (compiled into the driver).
-/
import AtomicaModel.Basic
namespace Atomica.Rules

/-! ### Checker combinators: `none` = passed, `some e` = first violated rule -/

def req {ε : Type} (ok : Bool) (e : ε) : Option ε := if ok then none else some e

def andThen {ε : Type} (a b : Option ε) : Option ε :=
  match a with
  | none => b
  | some e => some e

/-- first violated rule of a list of checks (evaluated left to right) -/
def seqC {ε : Type} : List (Option ε) → Option ε
  | [] => none
  | c :: cs => andThen c (seqC cs)

/-- first violated rule over the elements of a list (a `for` loop with `raise`) -/
def allC {α ε : Type} (f : α → Option ε) : List α → Option ε
  | [] => none
  | x :: xs => andThen (f x) (allC f xs)

/-! ### Rule identifiers -/

inductive RuleId
  -- compartments
  | compFlags | compSwSourceSink | compSwNoData | compDefaultNoPage | compSourceSinkPage | compCalibrate | compPopType
  -- characteristics
  | characSwNoData | characDefaultNoPage | denomPopType | denomNoPage | denomHasDenom | denomUndefined
  | characCalibrate | characPopType | componentPopType | componentDenominator | componentUndefined
  | characCyclic          -- spec only: the code recurses for ever (RecursionError)
  | initSourceSink        -- spec only: the code fails with ValueError in `_validate_initialization`
  -- interactions
  | interPopType
  -- transitions
  | matPopType | matCompUndefined | matCompPopType | linkParUndefined | linkParPopType
  | residualNotJunction | residualIntoSource | residualTwo   -- spec only
  | timedTwo | timedFromSpecial | timedSameGroup
  | junctionCycle         -- spec only: the model build fails with AssertionError
  -- parameters
  | parPopType | derivNoFunction | derivNoPage | tsProportion | tsNonPositive
  | tsNoUnits             -- spec only: `ProjectData.new` fails in `get_databook_units`
  | timedFormat | timedDerivative | timedTargetable
  | noFunctionNoPage | functionNotString
  | functionInvalid       -- unsupported call / syntax error / double underscore (the code: AssertionError, SyntaxError)
  | depFlowAgg | depFlowTransition | depFlowParUndefined | depCrossPop | depFlowNotTransition | depFlowCompUndefined
  | depInteractionNoAgg | depInteractionTo | depInteractionFrom | depInteractionDirected
  | depSelfRef | depUndefined | aggFirstArg
  | transFormat | parTwiceFromComp | outflowFromSink | sourceNotNumber | junctionNotProportion | proportionNotJunction
  | multiSource | sourceShared | inflowToSource | numberTargetable
  | timedVarying          -- a timed (duration) parameter reaches something that varies during the simulation
  | cyclic
  -- names
  | nameSymbol | nameKeyword | nameDuplicate | displayDuplicate
  -- cascades
  | cascadeDuplicate | cascadeKeyword | cascadeNameCode | cascadeNameDisplay | stageKeyword | cascadeEmpty | cascadeUndefined
  | cascadeStageDenominator | cascadeStageDuplicate | cascadePopTypes | cascadeNotNested
  deriving DecidableEq, Repr, Inhabited

/-- The exception class a rule is reported with. -/
inductive ErrClass | invalidFramework | invalidCascade | internal
  deriving DecidableEq, Repr

/-- Specification: every rule is reported with a dedicated class (`InvalidCascade` for the two rules of `validate_cascade`). -/
def RuleId.cls : RuleId → ErrClass
  | .cascadeStageDenominator | .cascadeStageDuplicate | .cascadePopTypes | .cascadeNotNested => .invalidCascade
  | _ => .invalidFramework

/-- The code that exists (unchanged tree): format-string bugs, un-wrapped parser assertions, missing checks. -/
def RuleId.clsCurrent : RuleId → ErrClass
  | .cascadeStageDenominator | .cascadeStageDuplicate | .cascadeNotNested => .invalidCascade
  | .cascadePopTypes => .internal            -- bare `Exception`
  | .outflowFromSink | .inflowToSource => .internal      -- `'..%s..%s' % a, b` → TypeError
  | .aggFirstArg => .internal                -- `par.name` on a dict → AttributeError
  | .functionInvalid => .internal            -- AssertionError / SyntaxError from parse_function
  | .characCyclic | .initSourceSink => .internal         -- RecursionError / ValueError
  | _ => .invalidFramework

/-! ### The abstract framework -/

inductive Fmt | number | probability | rate | duration | proportion | other
  deriving DecidableEq, Repr

structure Comp where
  name : String
  display : String
  isSink : Bool
  isSource : Bool
  isJunction : Bool
  pop : String
  hasPage : Bool
  default : Option Rat
  sw : Rat
  calibrate : Bool

structure Charac where
  name : String
  display : String
  pop : String
  components : List String
  denom : Option String
  hasPage : Bool
  default : Option Rat
  sw : Rat
  calibrate : Bool

structure Inter where
  name : String
  display : String
  fromPop : String
  toPop : String

inductive Agg | none | srcAvg | srcSum | tgtAvg | tgtSum
  deriving DecidableEq, Repr

inductive Dep
  | var (n : String)
  | parFlow (p : String)
  | compFlow (src dst : Option String)
  deriving DecidableEq

structure Fn where
  agg : Agg
  first : String
  deps : List Dep

inductive FnCell
  | none
  | notString
  | invalid
  | fn (f : Fn)

structure Par where
  name : String
  display : String
  pop : String
  format : Option Fmt
  timescale : Option Rat
  timed : Bool
  deriv : Bool
  targetable : Bool
  hasPage : Bool
  fn : FnCell

/-- one non-empty cell of a transition matrix; `none` in `pars` is the residual marker `>` -/
structure Link where
  src : String
  dst : String
  pars : List (Option String)

structure Matrix where
  pop : String
  comps : List String
  links : List Link

structure Stage where
  name : String
  constituents : List String

structure Cascade where
  name : String
  stages : List Stage

structure FrameworkAbs where
  popTypes : List String
  comps : List Comp
  characs : List Charac
  inters : List Inter
  pars : List Par
  matrices : List Matrix
  cascades : List Cascade

/-! ### Lookups -/

def findComp (fw : FrameworkAbs) (n : String) : Option Comp := fw.comps.find? (fun c => c.name == n)
def findCharac (fw : FrameworkAbs) (n : String) : Option Charac := fw.characs.find? (fun c => c.name == n)
def findInter (fw : FrameworkAbs) (n : String) : Option Inter := fw.inters.find? (fun c => c.name == n)
def findPar (fw : FrameworkAbs) (n : String) : Option Par := fw.pars.find? (fun c => c.name == n)

def isSinkC (fw : FrameworkAbs) (n : String) : Bool := match findComp fw n with | some c => c.isSink | none => false
def isSourceC (fw : FrameworkAbs) (n : String) : Bool := match findComp fw n with | some c => c.isSource | none => false
def isJunctionC (fw : FrameworkAbs) (n : String) : Bool := match findComp fw n with | some c => c.isJunction | none => false
def isTimedP (fw : FrameworkAbs) (n : String) : Bool := match findPar fw n with | some p => p.timed | none => false

def allLinks (fw : FrameworkAbs) : List Link := fw.matrices.flatMap (fun m => m.links)

/-- source compartments of the links carrying parameter `p`, with multiplicity (`self.transitions[p]`) -/
def fromComps (fw : FrameworkAbs) (p : String) : List String :=
  (allLinks fw).flatMap (fun l => (l.pars.filter (fun x => x == some p)).map (fun _ => l.src))

def toComps (fw : FrameworkAbs) (p : String) : List String :=
  (allLinks fw).flatMap (fun l => (l.pars.filter (fun x => x == some p)).map (fun _ => l.dst))

def isTransition (fw : FrameworkAbs) (p : String) : Bool := !(fromComps fw p).isEmpty

/-! ### Compartments (`_validate_compartments`) -/

def flagCount (c : Comp) : Nat := c.isSink.toNat + c.isSource.toNat + c.isJunction.toNat

def checkComp (fw : FrameworkAbs) (c : Comp) : Option RuleId :=
  seqC [ req (decide (flagCount c ≤ 1)) .compFlags,
         req (!(decide (c.sw > 0) && (c.isSource || c.isSink))) .compSwSourceSink,
         req (!(decide (c.sw > 0) && !c.hasPage && c.default.isNone)) .compSwNoData,
         req (!(!c.hasPage && (match c.default with | some d => decide (d ≠ 0) | none => false))) .compDefaultNoPage,
         req (!(c.hasPage && (c.isSource || c.isSink))) .compSourceSinkPage,
         req (!(!c.hasPage && c.calibrate)) .compCalibrate,
         req (fw.popTypes.contains c.pop) .compPopType ]

/-! ### Characteristics (`_validate_characteristics`, `get_charac_includes`) -/

def optConcat {α : Type} : List (Option (List α)) → Option (List α)
  | [] => some []
  | none :: _ => none
  | some a :: rest => match optConcat rest with
      | none => none
      | some b => some (a ++ b)

/-- `get_charac_includes` with fuel: `none` when the includes do not bottom out (a characteristic that includes itself) -/
def expandName (fw : FrameworkAbs) : Nat → String → Option (List String)
  | 0, _ => none
  | fuel + 1, n =>
      match findCharac fw n with
      | some h => optConcat (h.components.map (expandName fw fuel))
      | none => some [n]

def fuel (fw : FrameworkAbs) : Nat := fw.characs.length + 1

/-- compartments of a list of comps/characs (the expansion used by cascades and by initialization) -/
def expandList (fw : FrameworkAbs) (l : List String) : Option (List String) :=
  optConcat (l.map (expandName fw (fuel fw)))

def checkDenom (fw : FrameworkAbs) (h : Charac) : Option RuleId :=
  match h.denom with
  | none => none
  | some d =>
      match findComp fw d with
      | some c => seqC [ req (h.pop == c.pop) .denomPopType, req (!(decide (h.sw > 0) && !c.hasPage)) .denomNoPage ]
      | none =>
          match findCharac fw d with
          | some g => seqC [ req (h.pop == g.pop) .denomPopType, req g.denom.isNone .denomHasDenom,
                              req (!(decide (h.sw > 0) && !g.hasPage)) .denomNoPage ]
          | none => some .denomUndefined

def checkComponent (fw : FrameworkAbs) (h : Charac) (n : String) : Option RuleId :=
  match findComp fw n with
  | some c => req (h.pop == c.pop) .componentPopType
  | none =>
      match findCharac fw n with
      | some g => seqC [ req (h.pop == g.pop) .componentPopType, req g.denom.isNone .componentDenominator ]
      | none => some .componentUndefined

def checkCharac (fw : FrameworkAbs) (h : Charac) : Option RuleId :=
  seqC [ req (!(decide (h.sw > 0) && !h.hasPage && h.default.isNone)) .characSwNoData,
         req (!(!h.hasPage && (match h.default with | some d => decide (d ≠ 0) | none => false))) .characDefaultNoPage,
         checkDenom fw h,
         req (!(!h.hasPage && h.calibrate)) .characCalibrate,
         req (fw.popTypes.contains h.pop) .characPopType,
         allC (checkComponent fw h) h.components ]

/-- spec only: the includes of every characteristic bottom out -/
def checkCharacAcyclic (fw : FrameworkAbs) (h : Charac) : Option RuleId :=
  req (expandName fw (fuel fw) h.name).isSome .characCyclic

/-- spec only: a quantity used for initialization (databook page, non-zero setup weight) expands to compartments that can be
    initialized (`_validate_initialization` builds a matrix over the non-source, non-sink compartments) -/
def checkInit (fw : FrameworkAbs) (h : Charac) : Option RuleId :=
  if h.hasPage && decide (h.sw ≠ 0) then
    match expandName fw (fuel fw) h.name with
    | some l => req (l.all (fun c => !(isSinkC fw c) && !(isSourceC fw c))) .initSourceSink
    | none => none
  else none

/-! ### Interactions -/

def checkInter (fw : FrameworkAbs) (i : Inter) : Option RuleId :=
  seqC [ req (fw.popTypes.contains i.fromPop) .interPopType, req (fw.popTypes.contains i.toPop) .interPopType ]

/-! ### Transition matrices (`_process_transitions`) -/

def checkMatComp (fw : FrameworkAbs) (m : Matrix) (n : String) : Option RuleId :=
  match findComp fw n with
  | none => some .matCompUndefined
  | some c => req (c.pop == m.pop) .matCompPopType

def checkLinkPar (fw : FrameworkAbs) (m : Matrix) (l : Link) (p : Option String) : Option RuleId :=
  match p with
  | none => seqC [ req (isJunctionC fw l.src) .residualNotJunction, req (!(isSourceC fw l.dst)) .residualIntoSource ]
  | some n =>
      match findPar fw n with
      | none => some .linkParUndefined
      | some par => req (par.pop == m.pop) .linkParPopType

def checkLink (fw : FrameworkAbs) (m : Matrix) (l : Link) : Option RuleId := allC (checkLinkPar fw m l) l.pars

def checkMatrix (fw : FrameworkAbs) (m : Matrix) : Option RuleId :=
  seqC [ req (fw.popTypes.contains m.pop) .matPopType,
         allC (checkMatComp fw m) m.comps,
         allC (checkLink fw m) m.links ]

/-- number of residual links out of compartment `c` -/
def residualCount (fw : FrameworkAbs) (c : String) : Nat :=
  ((allLinks fw).filter (fun l => l.src == c && l.pars.contains none)).length

/-- spec only: a junction has at most one residual link -/
def checkResidualOne (fw : FrameworkAbs) (l : Link) : Option RuleId :=
  req (!(l.pars.contains none) || decide (residualCount fw l.src ≤ 1)) .residualTwo

/-- every link's end points are listed in its matrix (representation invariant of the abstract matrix; by construction of the
    spreadsheet the row and column labels of a cell are labels of the matrix) -/
def matricesWF (fw : FrameworkAbs) : Bool :=
  fw.matrices.all (fun m => m.links.all (fun l => m.comps.contains l.src && m.comps.contains l.dst))

def isSpecial (fw : FrameworkAbs) (c : String) : Bool := isSourceC fw c || isSinkC fw c || isJunctionC fw c

/-- one timed outflow: (source compartment, destination compartment, timed parameter) -/
structure TimedLink where
  src : String
  dst : String
  par : String
  deriving DecidableEq

def linkPars (fw : FrameworkAbs) : List (Link × Option String) := (allLinks fw).flatMap (fun l => l.pars.map (fun p => (l, p)))

/-- the timed outflows in the order in which `_process_transitions` meets them (row by row, left to right) -/
def timedLinks (fw : FrameworkAbs) : List TimedLink :=
  (linkPars fw).filterMap (fun lp => match lp.2 with
    | some n => if isTimedP fw n then some ⟨lp.1.src, lp.1.dst, n⟩ else none
    | none => none)

/-- The documented timed-transition rules: at most one timed outflow per compartment; not from a source, sink or junction;
    a compartment does not flush into a member of its own duration group. -/
def timedSpec (special : String → Bool) (tl : List TimedLink) : Option RuleId :=
  allC (fun (t : TimedLink) =>
    seqC [ req (decide (tl.countP (fun u => u.src == t.src) ≤ 1)) .timedTwo,
           req (!(special t.src)) .timedFromSpecial,
           req (!(tl.any (fun u => u.src == t.dst && u.par == t.par))) .timedSameGroup ]) tl

def checkTimed (fw : FrameworkAbs) : Option RuleId := timedSpec (isSpecial fw) (timedLinks fw)

/-- `_process_transitions` as written: the duration group of a compartment is recorded while the rows are read (`st`), and
    "flushes into the same group" only looks at the groups recorded *so far*. -/
def timedCur (special : String → Bool) : List TimedLink → List (String × String) → Option RuleId
  | [], _ => none
  | t :: rest, st =>
      match st.lookup t.src with
      | some _ => some .timedTwo
      | none =>
          if special t.src then some .timedFromSpecial
          else if ((t.src, t.par) :: st).lookup t.dst == some t.par then some .timedSameGroup
          else timedCur special rest ((t.src, t.par) :: st)

def checkTimedCurrent (fw : FrameworkAbs) : Option RuleId := timedCur (isSpecial fw) (timedLinks fw) []

/-! ### Acyclicity of a finite graph (parameter dependencies; junction-to-junction flows) -/

/-- nodes of `nodes` with no incoming edge from another node of `nodes` are removed -/
def peelStep (edges : List (String × String)) (nodes : List String) : List String :=
  nodes.filter (fun v => edges.any (fun e => e.2 == v && nodes.contains e.1))

def peel (edges : List (String × String)) : Nat → List String → List String
  | 0, nodes => nodes
  | k + 1, nodes => peel edges k (peelStep edges nodes)

/-- the graph restricted to `nodes` has no cycle -/
def acyclicB (nodes : List String) (edges : List (String × String)) : Bool :=
  (peel edges nodes.length nodes).isEmpty

/-! ### Parameters (`_validate_parameters`) -/

def Agg.isAgg (a : Agg) : Bool := a != .none
def Agg.isCross (a : Agg) : Bool := a == .srcAvg || a == .srcSum
def Agg.isTgt (a : Agg) : Bool := a == .tgtAvg || a == .tgtSum

/-- population type of a comp / charac / par name (`get_variable(...)["population type"]`) -/
def popOf (fw : FrameworkAbs) (n : String) : Option String :=
  match findComp fw n with
  | some c => some c.pop
  | none => match findCharac fw n with
    | some h => some h.pop
    | none => match findPar fw n with
      | some p => some p.pop
      | none => none

def depName : Dep → Option String
  | .var n => some n
  | _ => none

def checkFlowComp (fw : FrameworkAbs) (par : Par) (f : Fn) (c : Option String) : Option RuleId :=
  match c with
  | none => none
  | some n =>
      match findComp fw n with
      | none => some .depFlowCompUndefined
      | some comp => req (f.agg.isCross || comp.pop == par.pop) .depCrossPop

def checkDep (fw : FrameworkAbs) (par : Par) (f : Fn) (d : Dep) : Option RuleId :=
  match d with
  | .parFlow q =>
      seqC [ req (!f.agg.isAgg) .depFlowAgg,
             req (!(isTransition fw par.name)) .depFlowTransition,
             (match findPar fw q with
              | none => some .depFlowParUndefined
              | some qp => seqC [ req (f.agg.isCross || qp.pop == par.pop) .depCrossPop,
                                  req (isTransition fw q) .depFlowNotTransition ]) ]
  | .compFlow a b =>
      seqC [ req (!f.agg.isAgg) .depFlowAgg,
             req (!(isTransition fw par.name)) .depFlowTransition,
             checkFlowComp fw par f a,
             checkFlowComp fw par f b ]
  | .var n =>
      if n == "t" || n == "dt" then none else
      match findComp fw n with
      | some c => req (f.agg.isCross || c.pop == par.pop) .depCrossPop
      | none =>
        match findCharac fw n with
        | some h => req (f.agg.isCross || h.pop == par.pop) .depCrossPop
        | none =>
          match findInter fw n with
          | some i =>
              seqC [ req f.agg.isAgg .depInteractionNoAgg,
                     req (i.toPop == par.pop) .depInteractionTo,
                     allC (fun d2 => match depName d2 with
                              | none => some .depUndefined
                              | some n2 => if n2 == n then none else
                                  match popOf fw n2 with
                                  | none => some .depUndefined
                                  | some pt => req (pt == i.fromPop) .depInteractionFrom) f.deps,
                     req (!(i.toPop != i.fromPop && f.agg.isTgt)) .depInteractionDirected ]
          | none =>
            match findPar fw n with
            | some q => seqC [ req (q.deriv || n != par.name) .depSelfRef,
                               req (f.agg.isAgg || q.pop == par.pop) .depCrossPop ]
            | none => some .depUndefined

/-- names that can be aggregated: parameters, compartments, characteristics -/
def isQuantity (fw : FrameworkAbs) (n : String) : Bool :=
  (findPar fw n).isSome || (findComp fw n).isSome || (findCharac fw n).isSome

def checkFn (fw : FrameworkAbs) (par : Par) : Option RuleId :=
  match par.fn with
  | .none => req par.hasPage .noFunctionNoPage
  | .notString => some .functionNotString
  | .invalid => some .functionInvalid
  | .fn f => allC (fun d => seqC [ checkDep fw par f d, req (!f.agg.isAgg || isQuantity fw f.first) .aggFirstArg ]) f.deps

def isTransFmt : Option Fmt → Bool
  | some .other => false
  | none => false
  | _ => true

def checkFromComp (fw : FrameworkAbs) (par : Par) (c : String) : Option RuleId :=
  seqC [ req (!(isSinkC fw c)) .outflowFromSink,
         req (!(isSourceC fw c) || par.format == some .number) .sourceNotNumber,
         req (!(isJunctionC fw c) || isSinkC fw c || isSourceC fw c || par.format == some .proportion) .junctionNotProportion,
         req (!(par.format == some .proportion) || isJunctionC fw c) .proportionNotJunction ]

def nSourceOut (fw : FrameworkAbs) (l : List String) : Nat := (l.filter (fun c => isSourceC fw c && !(isSinkC fw c))).length

def nodupB : List String → Bool
  | [] => true
  | x :: xs => !(xs.contains x) && nodupB xs

def checkTransPar (fw : FrameworkAbs) (par : Par) : Option RuleId :=
  let fc := fromComps fw par.name
  if fc.isEmpty then
    req (!(par.format == some .number && par.targetable)) .numberTargetable
  else
    seqC [ req (isTransFmt par.format) .transFormat,
           req (nodupB fc) .parTwiceFromComp,
           allC (checkFromComp fw par) fc,
           req (decide (nSourceOut fw fc ≤ 1)) .multiSource,
           req (!(decide (nSourceOut fw fc > 0) && decide (fc.length > 1))) .sourceShared,
           allC (fun c => req (!(isSourceC fw c)) .inflowToSource) (toComps fw par.name) ]

def checkTimescale (par : Par) : Option RuleId :=
  match par.timescale with
  | none => none
  | some ts => seqC [ req (!(par.format == some .proportion)) .tsProportion, req (decide (ts > 0)) .tsNonPositive,
                      req par.format.isSome .tsNoUnits ]

def fnIsNone : FnCell → Bool
  | .none => true
  | _ => false

def checkPar (fw : FrameworkAbs) (par : Par) : Option RuleId :=
  seqC [ req (fw.popTypes.contains par.pop) .parPopType,
         req (!(par.deriv && fnIsNone par.fn)) .derivNoFunction,
         req (!(par.deriv && !par.hasPage)) .derivNoPage,
         checkTimescale par,
         req (!(par.timed && !(par.format == some .duration))) .timedFormat,
         req (!(par.timed && par.deriv)) .timedDerivative,
         req (!(par.timed && par.targetable)) .timedTargetable,
         checkFn fw par,
         checkTransPar fw par ]

/-- dependency edges `dep → par` between non-derivative parameters (the graph of `_validate_parameters`) -/
def parEdgesOf (fw : FrameworkAbs) (par : Par) : List (String × String) :=
  match par.fn with
  | .fn f => f.deps.filterMap (fun d => match d with
      | .var n =>
          if n == "t" || n == "dt" then none
          else if (findComp fw n).isSome || (findCharac fw n).isSome || (findInter fw n).isSome then none
          else match findPar fw n with
            | some q => if !q.deriv && n != par.name then some (n, par.name) else none
            | none => none
      | _ => none)
  | _ => []

def parEdges (fw : FrameworkAbs) : List (String × String) := fw.pars.flatMap (parEdgesOf fw)

/-! ### A timed parameter cannot vary (`_validate_parameters`, after the per-row loop and the flow-rate block)

  The duration of a timed compartment is fixed when the model is built.  The code builds the graph `D` (`par → dep` for every
  *parameter* named in the function of `par`, other than `par` itself -- derivative parameters included), the set
  `varying_pars` (parameters whose function names something that is neither a flow, nor a parameter, nor an interaction: after
  the dependency checks that is a compartment, a characteristic, `t` or `dt`), and rejects a timed parameter when
  `{par} ∪ descendants(D, par)` contains a parameter of `varying_pars` or a derivative parameter. -/

/-- the parameters named in the function of `par` (other than `par`): the out-edges of `par` in graph `D` -/
def parDepsOf (fw : FrameworkAbs) (par : Par) : List String :=
  match par.fn with
  | .fn f => f.deps.filterMap (fun d => match d with
      | .var n => if (findPar fw n).isSome && n != par.name then some n else none
      | _ => none)
  | _ => []

/-- the edges of graph `D` -/
def varEdges (fw : FrameworkAbs) : List (String × String) :=
  fw.pars.flatMap (fun p => (parDepsOf fw p).map (fun d => (p.name, d)))

/-- `dep not in self.pars.index and dep not in self.interactions.index` -/
def isVaryingName (fw : FrameworkAbs) (n : String) : Bool := (findPar fw n).isNone && (findInter fw n).isNone

/-- `par_name in varying_pars` -/
def mentionsVarying (fw : FrameworkAbs) (par : Par) : Bool :=
  match par.fn with
  | .fn f => f.deps.any (fun d => match d with
      | .var n => isVaryingName fw n
      | _ => false)
  | _ => false

/-- `dep in varying_pars or self.pars.at[dep, "is derivative"] == "y"` -/
def variesPar (fw : FrameworkAbs) (q : Par) : Bool := q.deriv || mentionsVarying fw q

/-- `U` is the list of parameters not (yet) known to be reachable; a parameter leaves `U` when a parameter outside `U` names it -/
def growStep (edges : List (String × String)) (U : List String) : List String :=
  U.filter (fun v => !(edges.any (fun e => e.2 == v && !(U.contains e.1))))

/-- iterate `growStep` until nothing changes (at most `k` times; `k = U.length` is always enough) -/
def grow (edges : List (String × String)) : Nat → List String → List String
  | 0, U => U
  | k + 1, U =>
      let U' := growStep edges U
      if U'.length == U.length then U else grow edges k U'

/-- the parameters that are NOT in `{start} ∪ descendants(D, start)` -/
def unreached (fw : FrameworkAbs) (start : String) : List String :=
  let U0 := (fw.pars.map (·.name)).filter (fun n => n != start)
  grow (varEdges fw) U0.length U0

def checkTimedVaryingPar (fw : FrameworkAbs) (p : Par) : Option RuleId :=
  if p.timed then
    let U := unreached fw p.name
    req (fw.pars.all (fun q => U.contains q.name || !(variesPar fw q))) .timedVarying
  else none

def checkTimedVarying (fw : FrameworkAbs) : Option RuleId := allC (checkTimedVaryingPar fw) fw.pars

/-- spec only: flows from a junction into a junction must not form a cycle (`Model.build` asserts this) -/
def junctionEdges (fw : FrameworkAbs) : List (String × String) :=
  (allLinks fw).filterMap (fun l => if isJunctionC fw l.src && isJunctionC fw l.dst then some (l.src, l.dst) else none)

def junctionNames (fw : FrameworkAbs) : List String := (fw.comps.filter (fun c => c.isJunction)).map (fun c => c.name)

/-! ### Names (`_validate_names`) -/

def reservedSymbols : List Char := [':', ',', ';', '/', '+', '-', '*', '\'', '"', ' ', '@']

def reservedKeywords : List String :=
  ["t", "flow", "all", "dt", "total", "max", "min", "exp", "floor", "SRC_POP_AVG", "TGT_POP_AVG", "SRC_POP_SUM", "TGT_POP_SUM",
   "STITCH_AVG", "STITCH_SUM", "pi", "cos", "sin", "sqrt", "ln", "rand", "randn", "sdiv"]

def hasReservedSymbol (n : String) : Bool := n.toList.any (fun ch => reservedSymbols.contains ch)

def codeNames (fw : FrameworkAbs) : List String :=
  fw.comps.map (·.name) ++ fw.characs.map (·.name) ++ fw.pars.map (·.name) ++ fw.inters.map (·.name) ++ fw.popTypes

def displayNames (fw : FrameworkAbs) : List String :=
  fw.comps.map (·.display) ++ fw.characs.map (·.display) ++ fw.pars.map (·.display) ++ fw.inters.map (·.display)

/-- the loop of `_validate_names`: `seen` is the set `tmp` -/
def checkCodeNames : List String → List String → Option RuleId
  | [], _ => none
  | n :: rest, seen =>
      seqC [ req (!(hasReservedSymbol n)) .nameSymbol,
             req (!(reservedKeywords.contains n)) .nameKeyword,
             req (!(seen.contains n)) .nameDuplicate,
             checkCodeNames rest (n :: seen) ]

def checkDisplayNames : List String → List String → Option RuleId
  | [], _ => none
  | n :: rest, seen => seqC [ req (!(seen.contains n)) .displayDuplicate, checkDisplayNames rest (n :: seen) ]

/-! ### Cascades (`_validate_cascades`, `cascade.validate_cascade`) -/

def checkCascadeName (fw : FrameworkAbs) (c : Cascade) : Option RuleId :=
  seqC [ req (!(reservedKeywords.contains c.name)) .cascadeKeyword,
         req (!((codeNames fw).contains c.name)) .cascadeNameCode,
         req (!((displayNames fw).contains c.name)) .cascadeNameDisplay,
         allC (fun (s : Stage) => req (!(reservedKeywords.contains s.name)) .stageKeyword) c.stages ]

def checkStageDefined (fw : FrameworkAbs) (s : Stage) : Option RuleId :=
  seqC [ req (!s.constituents.isEmpty) .cascadeEmpty,
         allC (fun n => req ((findComp fw n).isSome || (findCharac fw n).isSome) .cascadeUndefined) s.constituents ]

def subsetB (a b : List String) : Bool := a.all (fun x => b.contains x)

/-- each stage is contained in the previous one -/
def nestedB : List (List String) → Bool
  | [] => true
  | [_] => true
  | a :: b :: rest => subsetB b a && nestedB (b :: rest)

def popTypesOf (fw : FrameworkAbs) (l : List String) : List String :=
  l.filterMap (fun n => (findComp fw n).map (·.pop))

def allSame : List String → Bool
  | [] => true
  | x :: xs => xs.all (fun y => y == x)

def stageSets (fw : FrameworkAbs) (c : Cascade) : Option (List (List String)) :=
  c.stages.mapM (fun s => expandList fw s.constituents)

/-- one stage in `validate_cascade`: it expands, it is a number of people (no constituent has a denominator), and no
    compartment is counted twice -/
def checkStageSet (fw : FrameworkAbs) (s : Stage) : Option RuleId :=
  match expandList fw s.constituents with
  | none => some .characCyclic
  | some l =>
      seqC [ req (s.constituents.all (fun n => match findCharac fw n with | some h => h.denom.isNone | none => true)) .cascadeStageDenominator,
             req (nodupB l) .cascadeStageDuplicate ]

def checkCascadeNested (fw : FrameworkAbs) (c : Cascade) : Option RuleId :=
  seqC [ allC (checkStageSet fw) c.stages,
         (match stageSets fw c with
          | none => some .characCyclic
          | some sets =>
              seqC [ req (allSame (popTypesOf fw sets.flatten)) .cascadePopTypes,
                     req (nestedB sets) .cascadeNotNested ]) ]

/-! ### The validator -/

/-- the checks that come before the timed-parameter closure check, in the implementation's order -/
def earlierRules (fw : FrameworkAbs) : List (Option RuleId) :=
  [ allC (checkComp fw) fw.comps,
    allC (checkCharac fw) fw.characs,
    allC (checkCharacAcyclic fw) fw.characs,
    allC (checkInit fw) fw.characs,
    allC (checkInter fw) fw.inters,
    allC (checkMatrix fw) fw.matrices,
    allC (checkResidualOne fw) (allLinks fw),
    checkTimed fw,
    req (acyclicB (junctionNames fw) (junctionEdges fw)) .junctionCycle,
    allC (checkPar fw) fw.pars ]

/-- the checks that come after it -/
def laterRules (fw : FrameworkAbs) : List (Option RuleId) :=
  [ req (acyclicB (fw.pars.map (·.name)) (parEdges fw)) .cyclic,
    checkCodeNames (codeNames fw) [],
    checkDisplayNames (displayNames fw) [],
    req (nodupB (fw.cascades.map (·.name))) .cascadeDuplicate,
    allC (checkCascadeName fw) fw.cascades,
    allC (fun (c : Cascade) => allC (checkStageDefined fw) c.stages) fw.cascades,
    allC (checkCascadeNested fw) fw.cascades ]

/-- the first violated rule, in the implementation's order: … per-row parameter checks, [flow-rate closure: not modelled],
    `timedVarying`, `cyclic`, names, cascades -/
def firstError (fw : FrameworkAbs) : Option RuleId :=
  seqC (earlierRules fw ++ checkTimedVarying fw :: laterRules fw)

def validate (fw : FrameworkAbs) : Except RuleId Unit :=
  match firstError fw with
  | none => .ok ()
  | some e => .error e

/-! ### Instantiation of an accepted framework with populations: the net the engine runs on -/

inductive CKind | normal | source | sink | junction
  deriving DecidableEq, Repr

structure NComp where
  pop : String
  name : String
  kind : CKind
  deriving DecidableEq

structure NLink where
  pop : String
  src : String
  dst : String
  par : Option String
  deriving DecidableEq

structure Net where
  comps : List NComp
  links : List NLink

def kindOf (c : Comp) : CKind :=
  if c.isSink then .sink else if c.isSource then .source else if c.isJunction then .junction else .normal

/-- populations are (code name, population type) -/
def instantiate (fw : FrameworkAbs) (pops : List (String × String)) : Net :=
  { comps := pops.flatMap (fun p => (fw.comps.filter (fun c => c.pop == p.2)).map (fun c => ⟨p.1, c.name, kindOf c⟩)),
    links := pops.flatMap (fun p => (fw.matrices.filter (fun m => m.pop == p.2)).flatMap (fun m =>
               m.links.flatMap (fun l => l.pars.map (fun q => ⟨p.1, l.src, l.dst, q⟩)))) }

/-! ### Wire format -/

def hexVal (c : Char) : Nat :=
  if c.isDigit then c.toNat - '0'.toNat
  else if 'A' ≤ c ∧ c ≤ 'F' then c.toNat - 'A'.toNat + 10
  else if 'a' ≤ c ∧ c ≤ 'f' then c.toNat - 'a'.toNat + 10
  else 0

def decChars : List Char → List Char
  | '%' :: a :: b :: rest => Char.ofNat (hexVal a * 16 + hexVal b) :: decChars rest
  | '%' :: _ => []
  | c :: rest => c :: decChars rest
  | [] => []

/-- percent-decoding of one wire token (`%` alone is the empty string) -/
def dec (s : String) : String := String.ofList (decChars s.toList)

abbrev P := StateT (List String) Option

def tok : P String := fun s => match s with
  | [] => none
  | t :: rest => some (t, rest)

def pName : P String := do return dec (← tok)
def pOptName : P (Option String) := do
  let t ← tok
  return if t == "-" then none else some (dec t)
def pNat : P Nat := do
  let t ← tok
  match t.toNat? with
  | some n => return n
  | none => failure
def pBool : P Bool := do return (← tok) == "1"
def pOptRat : P (Option Rat) := do
  let t ← tok
  if t == "-" then return none
  match parseRat? t with
  | some r => return some r
  | none => failure
def pRat : P Rat := do
  match parseRat? (← tok) with
  | some r => return r
  | none => failure

def pMany {α : Type} (p : P α) : Nat → P (List α)
  | 0 => pure []
  | n + 1 => do
      let x ← p
      let xs ← pMany p n
      return x :: xs

def pList {α : Type} (p : P α) : P (List α) := do
  let n ← pNat
  pMany p n

def pComp : P Comp := do
  let name ← pName; let display ← pName; let isSink ← pBool; let isSource ← pBool; let isJunction ← pBool
  let pop ← pName; let hasPage ← pBool; let default ← pOptRat; let sw ← pRat; let calibrate ← pBool
  return { name, display, isSink, isSource, isJunction, pop, hasPage, default, sw, calibrate }

def pCharac : P Charac := do
  let name ← pName; let display ← pName; let pop ← pName
  let components ← pList pName
  let denom ← pOptName; let hasPage ← pBool; let default ← pOptRat; let sw ← pRat; let calibrate ← pBool
  return { name, display, pop, components, denom, hasPage, default, sw, calibrate }

def pInter : P Inter := do
  let name ← pName; let display ← pName; let fromPop ← pName; let toPop ← pName
  return { name, display, fromPop, toPop }

def parseFmt (t : String) : Option Fmt :=
  if t == "-" then none
  else if t == "number" then some .number
  else if t == "probability" then some .probability
  else if t == "rate" then some .rate
  else if t == "duration" then some .duration
  else if t == "proportion" then some .proportion
  else some .other

def parseAgg (t : String) : Agg :=
  if t == "SRC_POP_AVG" then .srcAvg
  else if t == "SRC_POP_SUM" then .srcSum
  else if t == "TGT_POP_AVG" then .tgtAvg
  else if t == "TGT_POP_SUM" then .tgtSum
  else .none

def parseOpt (t : String) : Option String := if t == "-" then none else some (dec t)

def pDep : P Dep := do
  let t ← tok
  match t.splitOn ":" with
  | ["v", n] => return .var (dec n)
  | ["pf", n] => return .parFlow (dec n)
  | ["cf", a, b] => return .compFlow (parseOpt a) (parseOpt b)
  | _ => failure

def pFn : P FnCell := do
  let t ← tok
  if t == "-" then return .none
  if t == "N" then return .notString
  if t == "X" then return .invalid
  if t == "F" then
    let agg := parseAgg (← tok)
    let first ← pName
    let deps ← pList pDep
    return .fn { agg, first, deps }
  failure

def pPar : P Par := do
  let name ← pName; let display ← pName
  let format := parseFmt (← tok)
  let timescale ← pOptRat; let timed ← pBool; let deriv ← pBool; let targetable ← pBool; let hasPage ← pBool
  let pop ← pName
  let fn ← pFn
  return { name, display, pop, format, timescale, timed, deriv, targetable, hasPage, fn }

def pLinkPar : P (Option String) := do
  let t ← tok
  return if t == ">" then none else some (dec t)

def pLink : P Link := do
  let src ← pName; let dst ← pName
  let pars ← pList pLinkPar
  return { src, dst, pars }

def pMatrix : P Matrix := do
  let pop ← pName
  let comps ← pList pName
  let links ← pList pLink
  return { pop, comps, links }

def pStage : P Stage := do
  let name ← pName
  let constituents ← pList pName
  return { name, constituents := constituents.map (fun s => s.trimAscii.toString) }

def pCascade : P Cascade := do
  let name ← pName
  let stages ← pList pStage
  return { name, stages }

def pFramework : P FrameworkAbs := do
  let popTypes ← pList pName
  let comps ← pList pComp
  let characs ← pList pCharac
  let inters ← pList pInter
  let pars ← pList pPar
  let matrices ← pList pMatrix
  let cascades ← pList pCascade
  return { popTypes, comps, characs, inters, pars, matrices, cascades }

def ruleName (r : RuleId) : String :=
  let s := toString (repr r)
  (s.splitOn ".").getLast!

def showChk : Option RuleId → String
  | none => "ok"
  | some r => "err:" ++ ruleName r

def clsName : ErrClass → String
  | .invalidFramework => "InvalidFramework"
  | .invalidCascade => "InvalidCascade"
  | .internal => "internal"

/-- driver: `rules <framework>` → `<ok|err:rule> cls=<class> timedCurrent=<ok|err:rule> wf=<0|1>` -/
def handle (args : List String) : Option String :=
  match (pFramework.run args) with
  | some (fw, []) =>
      let v := firstError fw
      let cls := match v with | none => "-" | some r => clsName r.cls
      some (showChk v ++ " cls=" ++ cls ++ " timedCurrent=" ++ showChk (checkTimedCurrent fw) ++ " wf=" ++ (if matricesWF fw then "1" else "0"))
  | _ => none

end Atomica.Rules
