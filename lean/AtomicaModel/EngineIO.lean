/-
  AtomicaModel.EngineIO — wire format of the engine requests (driver only; no theorem depends on this file).
    estep  <net> <dt> <pv…> <stock…>   → `ok <flows…> | <stock'…>`  or `nan`  or `err …`
    eflush <net> <pv…> <stock…>        → `ok <stock'…>` or `nan`
    ewf    <net>                       → `true` / `false`
  <net> = nC nL nP kinds[nC] nrows[nC] src[nL] dst[nL] par[nL] tlink[nL] lrows[nL] isFlush[nL] jgroup[nC] units[nP] tscale[nP] nJ jorder[nJ]
-/
import AtomicaModel.Engine
namespace Atomica.Engine

abbrev P := StateT (List String) Option

def tok : P String := do
  match (← get) with
  | [] => failure
  | t :: ts => set ts; pure t

def pNat : P Nat := do let t ← tok; match t.toNat? with | some n => pure n | none => failure
def pInt : P Int := do let t ← tok; match t.toInt? with | some n => pure n | none => failure
def pRat : P Rat := do let t ← tok; match parseRat? t with | some n => pure n | none => failure
def pBool : P Bool := do let t ← tok; pure (t == "1")

def pMany {α} (n : Nat) (p : P α) : P (Array α) := do
  let mut a : Array α := Array.mkEmpty n
  for _ in [0:n] do
    a := a.push (← p)
  pure a

def pKind : P CKind := do
  match (← tok) with
  | "n" => pure .normal | "s" => pure .source | "k" => pure .sink
  | "j" => pure .junction | "r" => pure .resjunction | "t" => pure .timed
  | _ => failure

def pUnits : P Units := do
  match (← tok) with
  | "f" => pure .frac | "d" => pure .dur | "n" => pure .num | "p" => pure .prop
  | _ => failure

def pNet : P Net := do
  let nC ← pNat; let nL ← pNat; let nP ← pNat
  let kinds ← pMany nC pKind
  let nrows ← pMany nC pNat
  let src ← pMany nL pNat
  let dst ← pMany nL pNat
  let par ← pMany nL pInt
  let tlink ← pMany nL pBool
  let lrows ← pMany nL pNat
  let isFlush ← pMany nL pBool
  let jgroup ← pMany nC pBool
  let units ← pMany nP pUnits
  let tscale ← pMany nP pRat
  let nJ ← pNat
  let jorder ← pMany nJ pNat
  pure { nC, nL, nP,
         kind := fun c => kinds.getD c .normal,
         nrows := fun c => nrows.getD c 1,
         src := fun l => src.getD l 0,
         dst := fun l => dst.getD l 0,
         par := fun l => match par.getD l (-1) with | .ofNat p => some p | _ => none,
         tlink := fun l => tlink.getD l false,
         lrows := fun l => lrows.getD l 1,
         isFlush := fun l => isFlush.getD l false,
         jgroup := fun c => jgroup.getD c false,
         units := fun p => units.getD p .frac,
         tscale := fun p => tscale.getD p 1,
         jorder := jorder.toList }

def pStock (net : Net) : P Stock := do
  let mut rows : Array (Array Rat) := Array.mkEmpty net.nC
  for c in [0:net.nC] do
    rows := rows.push (← pMany (net.nrows c) pRat)
  pure (fun c r => (rows.getD c #[]).getD r 0)

def showStock (net : Net) (x : Stock) : String :=
  " ".intercalate ((List.range net.nC).flatMap (fun c => (List.range (net.nrows c)).map (fun r => showRat (x c r))))

def showFlow (net : Net) (fl : Flow) : String :=
  " ".intercalate ((List.range net.nL).flatMap (fun l => (List.range (net.lrows l)).map (fun r => showRat (fl l r))))

/-- tabulate a stock/flow into arrays (strict data), and read a table back as a function: pure memoisation -/
def tabStock (net : Net) (x : Stock) : Array (Array Rat) :=
  (Array.range net.nC).map (fun c => (Array.range (net.nrows c)).map (fun r => x c r))

def tabFlow (net : Net) (fl : Flow) : Array (Array Rat) :=
  (Array.range net.nL).map (fun l => (Array.range (net.lrows l)).map (fun r => fl l r))

def ofTab (a : Array (Array Rat)) : Nat → Nat → Rat := fun i r => (a.getD i #[]).getD r 0

def runP {α} (p : P α) (args : List String) : Option α :=
  match p.run args with
  | some (a, []) => some a
  | _ => none

def handleStep (args : List String) : Option String :=
  runP (do
    let net ← pNet
    let dt ← pRat
    let pv ← pMany net.nP pRat
    let x ← pStock net
    if !(wfCheck net && wfGroupRows net && resCheck net) then pure "err wf" else
    let pvf := fun p => pv.getD p 0
    -- evaluate stage by stage, freezing intermediate functions (pure memoisation, same values)
    let cacheA := (Array.range net.nL).map (fun l => convert net dt pvf x l)
    let cache := fun l => cacheA.getD l 0
    let fl0 := tabFlow net (resolveFlow net cache x)
    let rec bal (a : Array (Array Rat)) : List Nat → Option (Array (Array Rat))
      | [] => some a
      | j :: js => match balanceOne net pvf (ofTab a) j with
          | none => none
          | some fl' => bal (tabFlow net fl') js
    match bal fl0 net.jorder with
    | none => pure "nan"
    | some a =>
      let fl := ofTab a
      let x' := updateComps net x fl
      pure ("ok " ++ showFlow net fl ++ " | " ++ showStock net x')) args

def handleFlush (args : List String) : Option String :=
  runP (do
    let net ← pNet
    let pv ← pMany net.nP pRat
    let x ← pStock net
    if !(wfCheck net && wfGroupRows net && resCheck net) then pure "err wf" else
    let pvf := fun p => pv.getD p 0
    let rec go (a : Array (Array Rat)) : List Nat → Option (Array (Array Rat))
      | [] => some a
      | j :: js => match flushOne net pvf (ofTab a) j with
          | none => none
          | some x' => go (tabStock net x') js
    match go (tabStock net x) net.jorder with
    | none => pure "nan"
    | some a => pure ("ok " ++ showStock net (ofTab a))) args

/-- reference path: calls `step` exactly as the theorems state it (no memoisation; small nets only).
    The harness cross-checks `estep` against `estepref` on every run. -/
def handleStepRef (args : List String) : Option String :=
  runP (do
    let net ← pNet
    let dt ← pRat
    let pv ← pMany net.nP pRat
    let x ← pStock net
    if !(wfCheck net && wfGroupRows net && resCheck net) then pure "err wf" else
    match step net dt (fun p => pv.getD p 0) x with
    | none => pure "nan"
    | some (fl, x') => pure ("ok " ++ showFlow net fl ++ " | " ++ showStock net x')) args

def handleFlushRef (args : List String) : Option String :=
  runP (do
    let net ← pNet
    let pv ← pMany net.nP pRat
    let x ← pStock net
    if !(wfCheck net && wfGroupRows net && resCheck net) then pure "err wf" else
    match flushAll net (fun p => pv.getD p 0) x net.jorder with
    | none => pure "nan"
    | some x' => pure ("ok " ++ showStock net x')) args

def handleWf (args : List String) : Option String :=
  runP (do let net ← pNet; pure (toString (wfCheck net && wfGroupRows net && resCheck net))) args

end Atomica.Engine
