/-
  AtomicaModel.InitTable — saved initializations (`atomica/parameters.py`, class `Initialization`) and restarted runs.

  Mirrors
    * `Initialization.from_result`                         → `fromResult`   (scalar size per compartment, row vector for a
                                                                              `TimedCompartment`: `comp._vals[:, idx]`)
    * `Initialization.apply` / `Population.initialize_compartments` (initialization branch) → `applyInit`
                                                                             (missing entry → 0; numpy broadcasting rules)
    * `Initialization.to_excel`                            → `toTable`      (3 metadata rows, a blank row, one row per
                                                                              compartment: two key cells, values padded
                                                                              with blanks to the longest vector)
      `toTableCurrent` is what pandas writes today (`merge_cells=True`: a repeated first key is left blank)
    * `atomica.excel.read_dataframes` + `Initialization.from_excel` → `fromTable`   (split at blank rows; per row
                                                                              `dropna`; one value → scalar)
    * `Model.process` with the parameter pipeline closed over the state → `runEv`, `processEv`
      (`ev t x` = the parameter values `update_pars` produces at absolute time index `t` in state `x`; a model with
       derivative parameters has no such `ev`, its parameters carry state of their own)

  Keys stand for `(compartment code name, population code name)`; a key part is `none` where pandas reads NaN.
-/
import AtomicaModel.Engine
import AtomicaModel.EngineIO
namespace Atomica.InitTable
open Atomica Atomica.Engine

inductive Val
  | scalar (v : Rat)
  | vec (vs : List Rat)
  deriving DecidableEq, Repr

abbrev KeyPart := Option Nat
abbrev Key := KeyPart × KeyPart
abbrev Init := List (Key × Val)

def lookup (init : Init) (k : Key) : Option Val := (init.find? (fun e => e.1 == k)).map (·.2)

/-! ### from_result / apply -/

def rowsOf (x : Stock) (c n : Nat) : List Rat := (List.range n).map (x c)

/-- `Initialization.from_result(res, year=t[k])` on the state `x` of index `k` -/
def fromResult (net : Net) (key : Nat → Key) (x : Stock) : Init :=
  (List.range net.nC).map (fun c =>
    (key c, if net.kind c = .timed then Val.vec (rowsOf x c (net.nrows c)) else Val.scalar (x c 0)))

/-- one compartment of `Initialization.apply`; `none` = numpy refuses the assignment (shape mismatch) -/
def applyVal (timed : Bool) (n : Nat) : Option Val → Option (Nat → Rat)
  | none => some (fun _ => 0)
  | some (.scalar v) => some (fun r => if timed then (if r < n then v else 0) else (if r = 0 then v else 0))
  | some (.vec vs) =>
      if timed then
        if vs.length = n then some (fun r => vs.getD r 0)
        else if vs.length = 1 then some (fun r => if r < n then vs.getD 0 0 else 0)
        else none
      else if vs.length = 1 then some (fun r => if r = 0 then vs.getD 0 0 else 0)
      else none

def applyOne (net : Net) (key : Nat → Key) (init : Init) (c : Nat) : Option (Nat → Rat) :=
  applyVal (net.kind c == .timed) (net.nrows c) (lookup init (key c))

/-- `Initialization.apply` over all populations: the stock at index 0 of the new run (before the junction flush) -/
def applyInit (net : Net) (key : Nat → Key) (init : Init) : Option Stock :=
  if (List.range net.nC).all (fun c => (applyOne net key init c).isSome) then
    some (fun c r => if c < net.nC then ((applyOne net key init c).getD (fun _ => 0)) r else 0)
  else none

/-- what would be saved if only compartment *sizes* were kept (and re-entered through the `[0]` setter, which spreads a
    timed compartment uniformly over its rows) — used to show that the rows are a necessary part of the state -/
def applyTotals (net : Net) (x : Stock) : Stock := fun c r =>
  if c < net.nC then
    (if net.kind c = .timed then (if r < net.nrows c then stockTotal net x c / (net.nrows c : Rat) else 0)
     else (if r = 0 then x c 0 else 0))
  else 0

/-! ### spreadsheet layout -/

inductive Cell
  | blank
  | num (q : Rat)
  | key (n : Nat)
  | lab (i : Nat)      -- metadata labels: 0 "year", 1 "init_y_factor_hash", 2 "dt"
  | hash (h : Nat)
  deriving DecidableEq, Repr

abbrev Row := List Cell

structure Meta where
  year : Option Rat
  hash : Option Nat
  dt : Option Rat
  deriving DecidableEq, Repr

def isBlankRow (r : Row) : Bool := r.all (· == Cell.blank)

def valList : Val → List Rat
  | .scalar v => [v]
  | .vec vs => vs

def maxLen (init : Init) : Nat := init.foldr (fun e m => max (valList e.2).length m) 0

def pad (n : Nat) (vs : List Rat) : Row := vs.map Cell.num ++ List.replicate (n - vs.length) Cell.blank

def keyCell : KeyPart → Cell
  | some n => .key n
  | none => .blank

def optNum : Option Rat → Cell
  | some q => .num q
  | none => .blank

def optHash : Option Nat → Cell
  | some h => .hash h
  | none => .blank

def metaRows (m : Meta) : List Row := [[.lab 0, optNum m.year], [.lab 1, optHash m.hash], [.lab 2, optNum m.dt]]

def valueRow (n : Nat) (e : Key × Val) : Row := keyCell e.1.1 :: keyCell e.1.2 :: pad n (valList e.2)

def valueRows (init : Init) : List Row := init.map (valueRow (maxLen init))

/-- the sheet `Initialization.to_excel` is meant to write: every row carries both key cells -/
def toTable (m : Meta) (init : Init) : List Row := metaRows m ++ [] :: valueRows init

/-- pandas `to_excel` with a MultiIndex and the default `merge_cells=True`: a first-level key equal to the one of the row
    above is part of a merged range and its cell is empty -/
def mergeKeys : Option KeyPart → List (Key × Val) → Nat → List Row
  | _, [], _ => []
  | prev, e :: es, n =>
      (if prev = some e.1.1 then Cell.blank :: keyCell e.1.2 :: pad n (valList e.2) else valueRow n e)
        :: mergeKeys (some e.1.1) es n

def toTableCurrent (m : Meta) (init : Init) : List Row := metaRows m ++ [] :: mergeKeys none init (maxLen init)

/-- `read_dataframes`: consecutive non-blank rows form a table -/
def splitBlocks : List Row → List (List Row)
  | [] => []
  | r :: rs =>
      if isBlankRow r then splitBlocks rs
      else match rs with
        | [] => [[r]]
        | r' :: _ =>
            if isBlankRow r' then [r] :: splitBlocks rs
            else match splitBlocks rs with
              | b :: bs => (r :: b) :: bs
              | [] => [[r]]

def numOf : Cell → Option Rat
  | .num q => some q
  | _ => none

def parseKey : Cell → Option KeyPart
  | .key n => some (some n)
  | .blank => some none
  | _ => none

def mkVal (vs : List Rat) : Val :=
  match vs with
  | [v] => .scalar v
  | _ => .vec vs

/-- one row of the value table: two index cells, then `dropna().values`; a single value becomes a scalar -/
def parseRow : Row → Option (Key × Val)
  | a :: b :: rest => do
      let ka ← parseKey a
      let kb ← parseKey b
      some ((ka, kb), mkVal (rest.filterMap numOf))
  | _ => none

def parseMeta : List Row → Option Meta
  | [r0, r1, r2] =>
      if r0.head? = some (Cell.lab 0) ∧ r1.head? = some (Cell.lab 1) ∧ r2.head? = some (Cell.lab 2) then
        some { year := numOf (r0.getD 1 .blank),
               hash := (match r1.getD 1 .blank with | .hash n => some n | _ => none),
               dt := numOf (r2.getD 1 .blank) }
      else none
  | _ => none

/-- `Initialization.from_excel`: exactly two tables (metadata, values) -/
def fromTable (t : List Row) : Option (Meta × Init) :=
  match splitBlocks t with
  | [mb, vb] => do
      let m ← parseMeta mb
      let init ← vb.mapM parseRow
      some (m, init)
  | _ => none

/-- what a round trip does to a value: a one-element vector comes back as a scalar -/
def normVal : Val → Val
  | .vec [v] => .scalar v
  | v => v

def normInit (init : Init) : Init := init.map (fun e => (e.1, normVal e.2))

/-! ### the run with the parameter pipeline closed over the state -/

/-- `n` time indices from absolute index `t`, parameters evaluated on the current state -/
def runEv (net : Net) (dt : Rat) (ev : Nat → Stock → Nat → Rat) : Nat → Nat → Stock → Option (List (Stock × Flow))
  | 0, _, _ => some []
  | n + 1, t, x =>
      match step net dt (ev t x) x with
      | none => none
      | some (fl, x') =>
          match runEv net dt ev n (t + 1) x' with
          | none => none
          | some rest => some ((x, fl) :: rest)

/-- `Model.process` for a run whose index 0 is absolute index `t`: parameters, flush, parameters again, links, loop -/
def processEv (net : Net) (dt : Rat) (ev : Nat → Stock → Nat → Rat) (n t : Nat) (xinit : Stock) : Option (List (Stock × Flow)) :=
  (flushAll net (ev t xinit) xinit net.jorder).bind (fun x0 => runEv net dt ev n t x0)

/-! ### `Model.process` as it is today: the source-size cache of index 0 is filled before the junction flush

`Parameter.source_popsize(ti)` caches its value by time index.  At index 0 the first `update_pars` (program overwrite of a
number-unit parameter) fills the cache from the *pre-flush* state; `flush_junctions` then moves people; the second `update_pars`
and `update_links` of index 0 read the cached value.  `ev2 t xc x` = parameter values at index `t` in state `x` when the cache
holds the source sizes of state `xc`. -/

/-- one step whose number-unit conversion reads source sizes from `xc` -/
def stepCached (net : Net) (dt : Rat) (pv : Nat → Rat) (xc x : Stock) : Option (Flow × Stock) :=
  (balanceAll net pv (resolveFlow net (convert net dt pv xc) x) net.jorder).map (fun fl => (fl, updateComps net x fl))

def processEvCurrent (net : Net) (dt : Rat) (ev2 : Nat → Stock → Stock → Nat → Rat) (n t : Nat) (xinit : Stock) :
    Option (List (Stock × Flow)) :=
  (flushAll net (ev2 t xinit xinit) xinit net.jorder).bind (fun x0 =>
    match n with
    | 0 => some []
    | n + 1 =>
        match stepCached net dt (ev2 t xinit x0) xinit x0 with
        | none => none
        | some (fl, x') => (runEv net dt (fun t x => ev2 t x x) n (t + 1) x').map (fun rest => (x0, fl) :: rest))

/-! ### driver requests
    init-table   <merge 0|1> <meta: y h d (each `_` or value)> <n> { <k1> <k2> <s|v> <len> <vals…> }   → rows joined by ` | `
    init-untable <cells… with `|` between rows>                                                       → `ok <meta> <n> {entries}` / `err`
    init-apply   <net> <keys: 2 per compartment> <n> {entries} → `ok <stock…>` / `err shape`
    init-save    <net> <keys> <stock…>  → `<n> {entries}`
-/
open Atomica.Engine in
def pOpt {α} (p : P α) : P (Option α) := do
  match (← get) with
  | "_" :: ts => set ts; pure none
  | _ => do let a ← p; pure (some a)

def pEntry : P (Key × Val) := do
  let k1 ← pOpt pNat
  let k2 ← pOpt pNat
  let kind ← tok
  let n ← pNat
  let vs ← pMany n pRat
  match kind with
  | "s" => match vs.toList with
           | [v] => pure ((k1, k2), Val.scalar v)
           | _ => failure
  | "v" => pure ((k1, k2), Val.vec vs.toList)
  | _ => failure

def pInit : P Init := do
  let n ← pNat
  let es ← pMany n pEntry
  pure es.toList

def showOptNat : Option Nat → String
  | some n => toString n
  | none => "_"

def showEntry (e : Key × Val) : String :=
  showOptNat e.1.1 ++ " " ++ showOptNat e.1.2 ++ " " ++
    (match e.2 with
     | .scalar v => "s 1 " ++ showRat v
     | .vec vs => "v " ++ toString vs.length ++ (if vs.isEmpty then "" else " " ++ showRats vs))

def showInit (init : Init) : String :=
  toString init.length ++ (if init.isEmpty then "" else " " ++ " ".intercalate (init.map showEntry))

def showCell : Cell → String
  | .blank => "_"
  | .num q => showRat q
  | .key n => "#" ++ toString n
  | .lab i => "L" ++ toString i
  | .hash h => "H" ++ toString h

/-- trailing blanks are not significant (the sheet is rectangular) -/
def trimRow (r : Row) : Row := (r.reverse.dropWhile (· == Cell.blank)).reverse

def showTable (t : List Row) : String :=
  " | ".intercalate (t.map (fun r => " ".intercalate ((trimRow r).map showCell)))

def parseCell (s : String) : Option Cell :=
  if s == "_" then some .blank
  else if s.startsWith "#" then (s.drop 1).toNat?.map Cell.key
  else if s.startsWith "L" then (s.drop 1).toNat?.map Cell.lab
  else if s.startsWith "H" then (s.drop 1).toNat?.map Cell.hash
  else (parseRat? s).map Cell.num

def showMeta (m : Meta) : String :=
  showOptRat' m.year ++ " " ++ showOptNat m.hash ++ " " ++ showOptRat' m.dt
where showOptRat' : Option Rat → String
  | some q => showRat q
  | none => "_"

def handleTable (args : List String) : Option String :=
  runP (do
    let merge ← pBool
    let y ← pOpt pRat
    let h ← pOpt pNat
    let d ← pOpt pRat
    let init ← pInit
    let m : Meta := { year := y, hash := h, dt := d }
    pure (showTable (if merge then toTableCurrent m init else toTable m init))) args

def handleUntable (args : List String) : Option String := do
  let rows := (args.splitOn "|")
  let cells ← rows.mapM (fun r => r.mapM parseCell)
  match fromTable cells with
  | some (m, init) => some ("ok " ++ showMeta m ++ " " ++ showInit init)
  | none => some "err"

def pKeys (n : Nat) : P (Array Key) := pMany n (do let a ← pOpt pNat; let b ← pOpt pNat; pure (a, b))

def handleApply (args : List String) : Option String :=
  runP (do
    let net ← pNet
    let keys ← pKeys net.nC
    let init ← pInit
    let key := fun c => keys.getD c (none, none)
    match applyInit net key init with
    | some x => pure ("ok " ++ showStock net x)
    | none => pure "err shape") args

def handleSave (args : List String) : Option String :=
  runP (do
    let net ← pNet
    let keys ← pKeys net.nC
    let x ← pStock net
    let key := fun c => keys.getD c (none, none)
    pure (showInit (fromResult net key x))) args

def handle (kind : String) : List String → Option String :=
  match kind with
  | "init-table" => handleTable
  | "init-untable" => handleUntable
  | "init-apply" => handleApply
  | "init-save" => handleSave
  | _ => fun _ => none

end Atomica.InitTable
