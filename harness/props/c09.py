"""
C09 -- Interventions have no effect before they start.

Theorems: lean/AtomicaProofs/Properties/C09.lean (about Engine.runFrom, Scenario.runClosed/policy/apply, Series.interpPrevious).

Correspondence and oracles (all on the real atomica code):
  E. paired runs (the substance): baseline run vs intervention run on generated models (vlib.genfw + a generated ProgramSet) and
     small library demos, for every kind of intervention; every output (compartments incl. keyring rows, flows incl. per-row
     timed links, parameters, characteristics, interaction matrices) at every index with t < Y must be IDENTICAL;
     after a program stop year data-driven targeted parameters equal their no-program values; end-year extension to 1e-12.
  A. ParameterScenario.get_parset vs Atomica.Scenario.apply (stored series + skip window), ProgramSet.get_alloc /
     get_capacities / get_prop_coverage with stepped overwrites vs Series.interpPrevious.
  C. program gating: the indices at which Model.update_pars asks the program set for outcomes vs Scenario.active, and the value of
     data-driven targeted parameters vs Scenario.evalOne.
  B. a few of the paired runs are also replayed step by step through Engine.step (vlib.engine_corr), which ties the runs the
     causality theorems talk about to the runs compared here.
"""
import copy
import math
import os
import random as _random
import sys
import types
from fractions import Fraction

import numpy as np

from vlib import core, engine_corr, genfw
from vlib.core import q, unq

PROPERTY = "C09"
LEAN_MODS = ["AtomicaProofs.Properties.C09", "AtomicaProofs.Properties.C13Closed", "AtomicaProofs.Properties.C03ClosedExt"]
THEOREMS = [
    "Atomica.C09.run_causal",                       # L1: parameter streams equal at indices < n => stocks+flows equal at < n, stocks at n
    "Atomica.C09.end_extension",                    # L1: run on the prefix stream = prefix of the run
    "Atomica.C09.runClosed_runFrom",                # the closed loop is Engine.runFrom on the stream its policy produced
    "Atomica.C09.closed_causal",                    # closed loop: policies equal at indices < n => outputs equal there (any two end years)
    "Atomica.C09.closed_end_extension",             # closed loop: longer run restricted = shorter run
    "Atomica.C09.process_causal",                   # same including the start-up junction flush
    "Atomica.C09.gating_before_start",              # t < start: all parameters as without the program set
    "Atomica.C09.gating_after_stop",                # t > stop: same (same stocks)
    "Atomica.C09.gating_after_stop_data",           # t > stop: data-driven parameter = limits(parset value), whatever the stocks
    "Atomica.C09.previous_prefix_many",             # stepped series: changes dated after t do not change the value at t (needs a point <= t)
    "Atomica.C06.previous_prefix",
    "Atomica.C06.previous_prefix_needs_point",      # ... and that hypothesis is necessary
    "Atomica.C09.scenario_prefix",                  # get_parset: baseline value at every grid time < Y, function not skipped there
    "Atomica.C09.applyAt_prefix",
    "Atomica.C09.scenario_agreeAt",
    "Atomica.C09.no_effect_before_start_program",
    "Atomica.C09.no_effect_before_start_shift",
    "Atomica.C09.no_effect_before_start_series",
    "Atomica.C09.no_effect_before_start_scenario",
    "Atomica.C09.nSteps_mono",
    "Atomica.C09.grid_extension",
    "Atomica.C09.end_extension_grid",
    "Atomica.C03.grid_prefix",
    # closed loop WITH programs (lean/AtomicaModel/ClosedProg.lean): before the start year a run with programs IS the run without them, entry by entry, for every specification and run length
    "Atomica.C13.closed_is_ev",
    "Atomica.C13.closedprog_is_closed_before_start",
    "Atomica.C13.closedprog_prefix_before_start",
    "Atomica.C13.closedprog_stock_at_start",
    "Atomica.C13.closedprog_after_stop",
    "Atomica.C13.closedprog_after_stop_data",
    "Atomica.C13.closedprog_instructions_agree_before",
    "Atomica.C13.closedprog_start_year_moved",
    "Atomica.C13.progNow_congr_before",
    "Atomica.C13.closedprog_prefix",
    # closed loop, parameter scenarios on function parameters (skip windows): nothing used differs at the indices < m => the scenario run IS the baseline run on the first m entries, and the stocks of index m coincide
    "Atomica.C03.closed_before_window_unchanged",
    "Atomica.C03.closed_stock_at_window_start",
    "Atomica.C03.closed_skip_uses_data",
]
TRUSTED = [
    "function values and program outcomes (function parser, Covout.get_outcome, Program.get_prop_covered) are inputs of the model's parameter policy (modelled in C12/C11/C13)",
    "the precompute/dynamic/postcompute classification of parameters is not modelled (the model evaluates every parameter at every index); that the code computes the same floats either way is checked by the paired runs only",
    "float rounding: the paired comparison is exact (==) on the implementation's own arrays; get_parset values are compared with the exact model to 1e-11 relative",
]
ASSUMPTIONS = [
    "scenario overwrite times/values are finite and the first overwrite point is not after the last simulation time (get_parset raises otherwise; modelled as 'raise')",
    "Parameter._interpolation_method is the default ('linear')",
    "end-year extension: both end years give grids start + k*dt that agree to 1e-12 (the property's allowance)",
]
RULE = (
    "pairs: generated models (vlib.genfw.random_spec extended with targetable/auxiliary/function/aggregation parameters, interactions, a generated ProgramSet) in regimes "
    "calibrated/boundary/extreme and library demos (udt, usdt, tb_simple, hypertension, hiv, udt_dyn); for each model several interventions "
    "(program start; start shift; spending/capacity/coverage series change; scalar overwrite at start; parameter scenario linear/previous on data, function, transfer, interaction targets; "
    "end-year extension; stop year) with Y on the grid, strictly inside a step, one ulp above/below a grid time, before the first and after the last time; "
    "one case = (model, intervention, Y); non-trivial = at least one output differs at some index with t >= Y (the intervention acts) and at least one index lies before Y"
)
EXPECTED_BRANCHES = [
    "kind.prog_start", "kind.prog_shift", "kind.alloc", "kind.capacity", "kind.coverage", "kind.scalar_at_start", "kind.scenario", "kind.end_extension", "kind.stop_year",
    "scen.target.data", "scen.target.function", "scen.target.transfer", "scen.target.interaction", "scen.interp.linear", "scen.interp.previous",
    "Y.on_grid", "Y.off_grid", "Y.ulp_above", "Y.ulp_below", "Y.before_start", "Y.after_end",
    "model.gen", "model.demo", "acts.yes", "classification.differs", "modeA.scen", "modeA.series", "modeC.gate", "modeB.trace",
]

DEMOS = ["udt", "usdt", "tb_simple", "hypertension", "hiv", "udt_dyn"]
NAN = float("nan")


# ----------------------------------------------------------------------------------------------------------
# generated models: spec extension + program set
# ----------------------------------------------------------------------------------------------------------
def _val_for(r, fmt):
    if fmt in ("rate", "probability"):
        return r.choice([0.0, 0.05, 0.2, 0.5, round(r.random() * 0.6, 3)])
    if fmt == "number":
        return r.choice([0.0, 0.1, 0.3, round(r.random() * 0.5, 3)])
    if fmt == "duration":
        return r.choice([0.3, 1.0, 2.5, round(0.2 + r.random() * 4, 2)])
    if fmt == "proportion":
        return r.choice([0.1, 0.5, 1.0, round(0.05 + 0.9 * r.random(), 3)])
    return round(r.random() * 40, 2)


def gen_model(r, regime):
    """-> {"kind": "gen", "spec": ..., "progspec": ...}; everything JSON-able"""
    feats = {"nsteps": r.randint(6, 18)}
    if r.random() < 0.5:
        feats["npops"] = r.choice([2, 3])
    spec = genfw.random_spec(r, regime, feats)
    pops = spec["pops"]
    start = spec["settings"][0]
    used = [p for p in spec["pars"] if not p.get("timed")]
    # auxiliary (non-transition) data parameter, targetable
    aux = {"name": "aux0", "format": r.choice(["proportion", "probability", "duration", "proportion"]), "timescale": None, "function": None, "min": None, "max": None, "timed": False, "targetable": True, "databook": True,
           "value": {pop: (r.choice([0.5, 1.0, 2.0, round(r.random() * 3, 2)]) if r.random() < 0.6 else {"t": [start - 1, start + 1.5], "v": [0.5, round(1 + r.random(), 2)], "assumption": None}) for pop in pops}}
    spec["pars"].insert(0, aux)
    stocks = [c["name"] for c in spec["comps"] if c["kind"] == "normal"]
    cand = [p for p in used if p["format"] in ("rate", "probability", "number") and not p.get("function")]
    r.shuffle(cand)
    k = lambda: r.choice([0.1, 0.25, 0.5, round(0.05 + r.random() * 0.5, 3)])  # noqa
    # a transition parameter that depends on aux0 only: precomputed without a program set, dynamic when aux0 is targeted
    if cand and r.random() < 0.8:
        p = cand.pop()
        p["function"] = r.choice([f"{k()}*aux0", f"{k()}*exp(-aux0)", f"{k()}*sqrt(aux0+1)/(1+aux0)", f"aux0*{k()}+0*t", f"{k()}*aux0**2/(1+aux0)", f"{k()}*aux0*{stocks[0]}/(alive+1)"])
        p["databook"] = False
        p["value"] = {}
        spec["_dep_on_aux"] = p["name"]
    # interaction + aggregation parameter
    if len(pops) > 1 and r.random() < 0.7:
        pairs = [[a, b, (round(r.random(), 2) if r.random() < 0.7 else {"t": [start, start + 2], "v": [0.2, 1.0], "assumption": None})] for a in pops for b in pops if r.random() < 0.8]
        if pairs:
            spec["interactions"] = [{"name": "int0", "pairs": pairs}]
            agg = {"name": "agg0", "format": "number", "timescale": None, "function": r.choice(["SRC_POP_AVG(aux0,int0)", "TGT_POP_AVG(aux0,int0)", "SRC_POP_SUM(aux0,int0)"]), "min": None, "max": None,
                   "timed": False, "targetable": False, "databook": False, "value": {}}
            spec["pars"].insert(1, agg)
            if cand and r.random() < 0.8:
                p = cand.pop()
                p["function"] = f"{k()}*agg0"
                p["databook"] = False
                p["value"] = {}
    # a derivative parameter feeding a transition
    if cand and r.random() < 0.25:
        der = {"name": "der0", "format": "number", "timescale": None, "function": f"0.05*{stocks[0]}-0.1*der0", "min": 0, "max": None, "timed": False, "targetable": False,
               "databook": True, "derivative": True, "value": {pop: r.choice([0.0, 3.0, 10.0]) for pop in pops}}
        spec["pars"].insert(0, der)
        p = cand.pop()
        p["function"] = f"{k()}*der0/(alive+1)"
        p["databook"] = False
        p["value"] = {}
    # calibration factors
    if r.random() < 0.4:
        yf = {}
        for p in r.sample(used, min(len(used), 2)):
            if p.get("databook", True) and not p.get("timed"):
                yf[p["name"]] = {pop: r.choice([0.5, 1.0, 1.5, 2.0]) for pop in pops}
                if r.random() < 0.3:
                    yf[p["name"]]["_meta"] = r.choice([0.8, 1.2])
        spec["y_factors"] = yf
    # targetable transition parameters (data-driven and function ones)
    tcand = [p for p in used if p["format"] in ("rate", "probability", "number", "duration", "proportion")]
    r.shuffle(tcand)
    for p in tcand[: r.choice([1, 2, 3])]:
        p["targetable"] = True
    if r.random() < 0.3:
        aux["targetable"] = False
    targets = [p for p in spec["pars"] if p.get("targetable")]
    # programs
    nprog = r.choice([1, 2, 2, 3])
    progs = []
    for i in range(nprog):
        const = r.random() < 0.6
        spend = r.choice([0.0, 50.0, 500.0, 5000.0, round(r.random() * 2000, 1)])
        progs.append({
            "name": f"pr{i}",
            "pops": sorted(r.sample(pops, r.randint(1, len(pops)))),
            "comps": sorted(r.sample(stocks, r.randint(1, min(3, len(stocks))))),
            "spend": spend if const else {"t": [start - 1, start + 1, start + 3], "v": [spend, spend * 1.5 + 10, spend * 0.5]},
            "uc": r.choice([1.0, 5.0, 20.0, round(0.5 + r.random() * 30, 2)]),
            "oneoff": r.random() < 0.5,
            "cc": None if r.random() < 0.7 else round(20 + r.random() * 300, 1),
            "sat": None if r.random() < 0.7 else r.choice([0.5, 0.8, 0.95]),
        })
    covouts = []
    for p in targets:
        for pop in pops:
            if r.random() < 0.85:
                sub = r.sample(progs, r.randint(1, len(progs)))
                covouts.append({"par": p["name"], "pop": pop, "baseline": _val_for(r, p["format"]), "progs": {g["name"]: _val_for(r, p["format"]) for g in sub},
                                "cov": r.choice(["additive", "random", "nested"])})
    if not covouts:
        p = targets[0]
        covouts.append({"par": p["name"], "pop": pops[0], "baseline": _val_for(r, p["format"]), "progs": {progs[0]["name"]: _val_for(r, p["format"])}, "cov": "additive"})
    return {"kind": "gen", "spec": spec, "progspec": {"programs": progs, "covouts": covouts}}


def _ts(val, units=None):
    from atomica.utils import TimeSeries

    ts = TimeSeries(units=units)
    if isinstance(val, dict):
        if val.get("assumption") is not None:
            ts.assumption = float(val["assumption"])
        for t, v in zip(val["t"], val["v"]):
            ts.insert(float(t), float(v))
    elif val is not None:
        ts.assumption = float(val)
    return ts


def build_progset(progspec, fw, data):
    import atomica as at
    from atomica.programs import Covout

    ps = at.ProgramSet.new(tvec=np.array([2015.0]), progs={p["name"]: p["name"].upper() for p in progspec["programs"]}, framework=fw, data=data)
    for p in progspec["programs"]:
        prog = ps.programs[p["name"]]
        prog.target_pops = list(p["pops"])
        prog.target_comps = list(p["comps"])
        prog.spend_data = _ts(p["spend"], "$/year")
        prog.unit_cost = _ts(p["uc"], "$/person (one-off)" if p["oneoff"] else "$/person/year")
        if p.get("cc") is not None:
            prog.capacity_constraint = _ts(p["cc"], "people/year")
        if p.get("sat") is not None:
            prog.saturation = _ts(p["sat"], "N.A.")
    for c in progspec["covouts"]:
        ps.covouts[(c["par"], c["pop"])] = Covout(par=c["par"], pop=c["pop"], progs=dict(c["progs"]), cov_interaction=c["cov"], baseline=c["baseline"])
    return ps


_CACHE = {}


class Built:
    """framework / data / parset / settings / progset of one model description (cached per process)"""

    def __init__(self, model):
        import atomica as at
        import sciris as sc

        self.model = model
        if model["kind"] == "gen":
            self.fw, self.data, self.parset, self.settings = genfw.build(model["spec"])
            self.progset = build_progset(model["progspec"], self.fw, self.data)
        else:
            key = ("demo", model["name"])
            if key not in _CACHE:
                _CACHE[key] = at.demo(model["name"], do_run=False)
            P = _CACHE[key]
            self.fw, self.data, self.parset = P.framework, P.data, P.parsets[0]
            self.settings = sc.dcp(P.settings)
            if model.get("dt"):
                self.settings.update_time_vector(dt=model["dt"])
            if model.get("end"):
                self.settings.update_time_vector(end=model["end"])
            self.progset = P.progsets[0]

    def settings_for(self, end=None):
        import sciris as sc

        s = sc.dcp(self.settings)
        if end is not None:
            s.update_time_vector(end=end)
        return s

    def instructions(self, ispec):
        import atomica as at

        if ispec is None:
            return None

        def conv(d):
            if not d:
                return None
            return {k: (_ts(v) if isinstance(v, dict) else v) for k, v in d.items()}

        return at.ProgramInstructions(start_year=ispec["start"], stop_year=ispec.get("stop"), alloc=conv(ispec.get("alloc")), capacity=conv(ispec.get("capacity")), coverage=conv(ispec.get("coverage")))

    def scen_parset(self, sspec, settings):
        import atomica as at

        if not sspec:
            return self.parset
        sv = {}
        for e in sspec["entries"]:
            pop = e["pop"] if isinstance(e["pop"], str) else tuple(e["pop"])
            sv.setdefault(e["par"], {})[pop] = {"t": list(e["t"]), "y": list(e["y"])}
        scen = at.ParameterScenario(name="sc", scenario_values=sv, interpolation=sspec["interp"])
        proj = types.SimpleNamespace(settings=settings, framework=self.fw)
        return scen.get_parset(self.parset, proj)

    def run(self, side):
        """side: {"instr": ispec|None, "scen": sspec|None, "end": float|None} -> processed Model"""
        from atomica.model import Model

        settings = self.settings_for(side.get("end"))
        parset = self.scen_parset(side.get("scen"), settings)
        instr = self.instructions(side.get("instr"))
        m = Model(settings, self.fw, parset, self.progset if instr is not None else None, instr)
        m.process()
        return m


def built(model):
    key = ("built", id(model))
    return Built(model)


# ----------------------------------------------------------------------------------------------------------
# outputs of a processed model
# ----------------------------------------------------------------------------------------------------------
def snap(m):
    """{key: 2-D float array (rows x T)} for every output of the run"""
    from atomica import model as M

    out = {}
    for pop in m.pops:
        for c in pop.comps:
            out[("comp", pop.name, c.name)] = np.array(c._vals, dtype=float) if isinstance(c, M.TimedCompartment) else np.asarray(c.vals, dtype=float)[None, :]
        for ch in pop.characs:
            out[("charac", pop.name, ch.name)] = np.asarray(ch.vals, dtype=float)[None, :]
        for p in pop.pars:
            if p.vals is not None:
                out[("par", pop.name, p.name)] = np.asarray(p.vals, dtype=float)[None, :]
        for i, l in enumerate(pop.links):
            key = ("link", pop.name, l.source.name, l.dest.pop.name, l.dest.name, l.parameter.name if l.parameter is not None else "-", i)
            out[key] = np.array(l._vals, dtype=float) if isinstance(l, M.TimedLink) else np.asarray(l.vals, dtype=float)[None, :]
    for name, arr in (m.interactions or {}).items():
        out[("interaction", name)] = np.asarray(arr, dtype=float).reshape(-1, arr.shape[-1])
    return out


def same(a, b):
    return (a == b) | (np.isnan(a) & np.isnan(b))


def diff_before(s0, s1, idx, tol=None):
    """first few differing outputs restricted to the time indices `idx` (bool mask or slice); exact unless tol"""
    bad = []
    for key, a in s0.items():
        b = s1.get(key)
        if b is None:
            bad.append((key, "missing in second run", None))
            continue
        if a.shape[0] != b.shape[0]:
            bad.append((key, f"row count {a.shape[0]} vs {b.shape[0]}", None))
            continue
        aa, bb = a[:, idx], b[:, idx]
        if tol is None:
            ok = same(aa, bb)
        else:
            with np.errstate(invalid="ignore"):
                ok = (np.abs(aa - bb) <= tol * np.maximum(1.0, np.maximum(np.abs(aa), np.abs(bb)))) | (np.isnan(aa) & np.isnan(bb)) | (aa == bb)
        if not ok.all():
            rr, cc = np.nonzero(~ok)
            j = int(np.argmin(cc))
            bad.append((key, f"row {int(rr[j])} index {int(cc[j])}: {aa[rr[j], cc[j]]!r} vs {bb[rr[j], cc[j]]!r}", int(cc[j])))
    for key in s1:
        if key not in s0:
            bad.append((key, "missing in first run", None))
    return bad


def acts_after(s0, s1, idx_after):
    for key, a in s0.items():
        b = s1.get(key)
        if b is not None and a.shape == b.shape and not same(a[:, idx_after], b[:, idx_after]).all():
            return True
    return False


# ----------------------------------------------------------------------------------------------------------
# choice of Y
# ----------------------------------------------------------------------------------------------------------
def pick_Y(r, tvec, force=None):
    """-> (Y, tag)"""
    T = len(tvec)
    dt = float(tvec[1] - tvec[0]) if T > 1 else 1.0
    tag = force or r.choice(["on_grid", "on_grid", "off_grid", "off_grid", "ulp_above", "ulp_below", "before_start", "after_end"])
    k = r.randint(1, max(1, T - 2))
    if tag == "on_grid":
        return float(tvec[k]), tag
    if tag == "off_grid":
        return float(tvec[k] + r.choice([0.5, 0.25, 0.9, 0.01, r.random()]) * dt), tag
    if tag == "ulp_above":
        return float(np.nextafter(tvec[k], np.inf)), tag
    if tag == "ulp_below":
        return float(np.nextafter(tvec[k], -np.inf)), tag
    if tag == "before_start":
        return float(tvec[0] - r.choice([0.0, 0.5, 3.0]) * dt), tag
    return float(tvec[-1] + r.choice([0.5, 2.0]) * dt), tag


# ----------------------------------------------------------------------------------------------------------
# interventions
# ----------------------------------------------------------------------------------------------------------
def prog_names(B):
    return list(B.progset.programs.keys())


def rand_overwrites(r, B, tvec, n=None):
    """random instruction overwrites (full series stating a value at/before the first time)"""
    out = {}
    names = prog_names(B)
    for kind in ("alloc", "capacity", "coverage"):
        if r.random() < 0.3:
            d = {}
            for nm in r.sample(names, r.randint(1, len(names))):
                v0 = {"alloc": r.choice([0.0, 100.0, 1000.0]), "capacity": r.choice([0.0, 10.0, 200.0]), "coverage": r.choice([0.0, 0.3, 1.0])}[kind]
                d[nm] = {"t": [float(tvec[0]) - 1.0], "v": [v0]}
            out[kind] = d
    return out


def series_change(r, kind, base_series, Y, tvec):
    """base series (dict name -> {"t","v"}) -> changed copy: points dated >= Y added / overwritten"""
    new = copy.deepcopy(base_series)
    for nm, s in new.items():
        if r.random() < 0.8 or nm == sorted(new)[0]:
            pts = [Y] + ([Y + r.choice([0.5, 1.0, 2.5]) * float(tvec[1] - tvec[0])] if r.random() < 0.4 else [])
            for t in pts:
                v = {"alloc": r.choice([0.0, 10.0, 3000.0, 1e5]), "capacity": r.choice([0.0, 5.0, 500.0, 1e4]), "coverage": r.choice([0.0, 0.1, 0.9, 1.0, 5.0])}[kind]
                if t in s["t"]:
                    s["v"][s["t"].index(t)] = v
                else:
                    s["t"].append(t)
                    s["v"].append(v)
            order = np.argsort(s["t"])
            s["t"] = [s["t"][i] for i in order]
            s["v"] = [s["v"][i] for i in order]
    return new


def scen_targets(B):
    """-> list of (target kind, par label, pop specifier)"""
    out = []
    fw = B.fw
    for name, par in B.parset.pars.items():
        if name not in fw.pars.index:
            continue  # databook compartments / characteristics (initialisation only)
        fn = fw.pars.at[name, "function"]
        has_fn = isinstance(fn, str) and fn.strip() != ""
        for pop in par.ts.keys():
            if has_fn:
                out.append(("function", name, pop))
            elif par.has_values(pop):
                out.append(("data", name, pop))
    for name, d in B.parset.transfers.items():
        for frm, par in d.items():
            for to in par.ts.keys():
                out.append(("transfer", name, [frm, to]))
    for name, d in B.parset.interactions.items():
        for frm, par in d.items():
            for to in par.ts.keys():
                out.append(("interaction", name, [frm, to]))
    return out


def gen_scenario(r, B, Y, tvec, want=None):
    targets = scen_targets(B)
    if want:
        pref = [t for t in targets if t[0] == want]
        targets = pref or targets
    dt = float(tvec[1] - tvec[0])
    entries = []
    for tk, name, pop in r.sample(targets, min(len(targets), r.choice([1, 1, 2, 3]))):
        n = r.choice([1, 1, 2, 3])
        ts = [Y] + sorted({Y + r.choice([0.5, 1.0, 1.7, 3.0, 6.0]) * dt for _ in range(n - 1)})
        ys = [r.choice([0.0, 0.05, 0.3, 0.9, 1.0, 2.0, 7.5, 120.0]) for _ in ts]
        if r.random() < 0.3:
            order = list(range(len(ts)))
            r.shuffle(order)  # unsorted input: scen_start is the minimum
            ts, ys = [ts[i] for i in order], [ys[i] for i in order]
        entries.append({"kind": tk, "par": name, "pop": pop, "t": ts, "y": ys})
    return {"interp": r.choice(["linear", "previous"]), "entries": entries}


def make_cases(r, B, model, n_cases):
    """list of case dicts for one built model"""
    tvec = B.settings.tvec
    t0, dt = float(tvec[0]), float(tvec[1] - tvec[0])
    names = prog_names(B)
    cases = []
    kinds = ["prog_start", "prog_shift", "alloc", "capacity", "coverage", "scalar_at_start", "scenario", "scenario", "scenario", "end_extension", "stop_year"]
    for _ in range(n_cases):
        kind = r.choice(kinds)
        Y, ytag = pick_Y(r, tvec)
        c = {"model": model, "kind": kind, "Y": Y, "ytag": ytag}
        bg_start = float(r.choice([t0 - 1.0, t0, tvec[min(2, len(tvec) - 1)]]))  # program start of the background instructions
        if kind == "prog_start":
            ov = rand_overwrites(r, B, tvec)
            stop = None if r.random() < 0.6 else Y + r.choice([0.0, 1.0, 2.5, 5.0]) * dt
            c["base"] = {"instr": None}
            c["intv"] = {"instr": {"start": Y, "stop": stop, **ov}}
        elif kind == "prog_shift":
            ov = rand_overwrites(r, B, tvec)
            Y2 = Y + r.choice([0.5, 1.0, 3.0]) * dt
            c["base"] = {"instr": {"start": Y2, **ov}}
            c["intv"] = {"instr": {"start": Y, **ov}}
        elif kind == "alloc" and r.random() < 0.35:
            # the value in force comes from the program book: the overwrite restates the book's (stepped) spending and changes it from Y on
            base_series = {}
            for nm in r.sample(names, r.randint(1, len(names))):
                sd = B.progset.programs[nm].spend_data
                pts = [(float(a), float(b)) for a, b in zip(sd.t, sd.vals) if math.isfinite(a) and math.isfinite(b)]
                if not pts and sd.assumption is not None:
                    pts = [(t0 - 1.0, float(sd.assumption))]
                if pts:
                    base_series[nm] = {"t": [a for a, _ in pts], "v": [b for _, b in pts]}
            first = max([s_["t"][0] for s_ in base_series.values()] + [-np.inf])
            if not base_series or not (first < Y):
                base_series = {}
            c["sub"] = "from_book"
            c["base"] = {"instr": {"start": bg_start}}
            c["intv"] = {"instr": {"start": bg_start, "alloc": series_change(r, kind, base_series, max(Y, bg_start), tvec) if base_series else {}}}
            if base_series and any(s_["t"][0] > bg_start for s_ in base_series.values()):
                # a book series whose first point is after the program start is extrapolated to the left by both runs alike
                pass
        elif kind in ("alloc", "capacity", "coverage"):
            v0 = {"alloc": [0.0, 100.0, 1000.0, 2e4], "capacity": [0.0, 10.0, 200.0], "coverage": [0.0, 0.3, 1.0]}[kind]
            Y0 = float(r.choice([t0 - 2.0, t0, bg_start]))
            Y0 = min(Y0, Y - 0.5 * dt)  # the series states the value in force before Y
            base_series = {nm: {"t": [Y0], "v": [r.choice(v0)]} for nm in r.sample(names, r.randint(1, len(names)))}
            other = {k: v for k, v in rand_overwrites(r, B, tvec).items() if k != kind}
            c["base"] = {"instr": {"start": bg_start, kind: base_series, **other}}
            c["intv"] = {"instr": {"start": bg_start, kind: series_change(r, kind, base_series, Y, tvec), **other}}
        elif kind == "scalar_at_start":
            k2 = r.choice(["alloc", "capacity", "coverage"])
            c["base"] = {"instr": {"start": Y}}
            c["intv"] = {"instr": {"start": Y, k2: {nm: {"alloc": 5000.0, "capacity": 50.0, "coverage": 0.7}[k2] for nm in names}}}
            c["sub"] = k2
        elif kind == "scenario":
            instr = None if r.random() < 0.5 else {"start": bg_start, **rand_overwrites(r, B, tvec)}
            sspec = gen_scenario(r, B, Y, tvec, want=r.choice(["data", "function", "transfer", "interaction", None]))
            c["base"] = {"instr": instr}
            c["intv"] = {"instr": instr, "scen": sspec}
        elif kind == "end_extension":
            instr = None if r.random() < 0.3 else {"start": float(r.choice([bg_start, Y])), "stop": (None if r.random() < 0.6 else Y + 2 * dt), **rand_overwrites(r, B, tvec)}
            sspec = None if r.random() < 0.6 else gen_scenario(r, B, Y if Y <= tvec[-1] else float(tvec[len(tvec) // 2]), tvec)
            ext = float(tvec[-1]) + r.choice([1, 2, 3, 7, 10, 15.5]) * dt * r.choice([1, 1, 3])
            c["base"] = {"instr": instr, "scen": sspec}
            c["intv"] = {"instr": instr, "scen": sspec, "end": ext}
        elif kind == "stop_year":
            stop = Y
            start = float(r.choice([t0 - 1.0, t0, tvec[1]]))
            if start > stop:
                start = stop
            c["base"] = {"instr": None}
            c["intv"] = {"instr": {"start": start, "stop": stop, **rand_overwrites(r, B, tvec)}}
        cases.append(c)
    # directed: a scenario on a PRECOMPUTED function parameter (its function depends on databook quantities only), run without programs:
    # before Y the function must still be evaluated, from Y on the overwrite holds (the case every Model.build branch order must get right)
    dep = (model.get("spec") or {}).get("_dep_on_aux") if isinstance(model, dict) else None
    if dep and dep in B.parset.pars:
        Y, ytag = pick_Y(r, tvec)
        pops_ = list(B.parset.pars[dep].ts.keys())
        ent = [{"kind": "function", "par": dep, "pop": pop, "t": [Y, Y + 2 * dt], "y": [r.choice([0.05, 0.3, 0.9]), r.choice([0.0, 0.5, 2.0])]} for pop in r.sample(pops_, r.randint(1, len(pops_)))]
        cases.append({"model": model, "kind": "scenario", "Y": Y, "ytag": ytag, "sub": "precomputed_function", "base": {"instr": None}, "intv": {"instr": None, "scen": {"interp": r.choice(["linear", "previous"]), "entries": ent}}})
    return cases


# ----------------------------------------------------------------------------------------------------------
# evaluation of one case (the direct oracle)
# ----------------------------------------------------------------------------------------------------------
class CaseError(Exception):
    pass


def safe_run(B, side):
    try:
        return B.run(side), None
    except Exception as e:  # noqa
        return None, e


def data_driven_targets(B, m):
    """(pop, par) of targeted parameters without function (and not derivative/aggregated)"""
    out = []
    tg = {(co.par, co.pop) for co in B.progset.covouts.values()}
    for pop in m.pops:
        for p in pop.pars:
            if (p.name, pop.name) in tg and not p.fcn_str and not p.derivative:
                out.append((pop.name, p.name))
    return out


def eval_case(B, c):
    """-> dict(status, bad=[(output kind, what)], nontrivial, info)"""
    kind, Y = c["kind"], c["Y"]
    res = {"bad": [], "nontrivial": False, "tags": set(), "skip": None}
    m0, e0 = safe_run(B, c["base"])
    m1, e1 = safe_run(B, c["intv"])
    if e0 is not None or e1 is not None:
        # an intervention the library refuses (e.g. scenario starting after the last time point, program without coverage denominator)
        res["skip"] = f"base: {type(e0).__name__ if e0 else 'ok'} {str(e0)[:80] if e0 else ''}; intv: {type(e1).__name__ if e1 else 'ok'} {str(e1)[:120] if e1 else ''}"
        res["err_base"] = e0 is not None
        return res
    s0, s1 = snap(m0), snap(m1)
    t = m0.t
    if kind == "end_extension":
        n = len(t)
        if len(m1.t) < n or not np.allclose(m1.t[:n], t, rtol=0, atol=1e-9):
            res["bad"].append(("grid", f"extended grid does not extend the shorter one: {m1.t[:n][-3:]} vs {t[-3:]}"))
            return res
        if not (m1.t[:n] == t).all():
            res["tags"].add("grid.lastbit")
        for key, what, _ in diff_before(s0, s1, slice(0, n), tol=1e-12)[:4]:
            res["bad"].append((key[0], f"{key}: {what} (t={t[_]!r})" if _ is not None else f"{key}: {what}"))
        res["nontrivial"] = len(m1.t) > n
        return res
    if kind == "stop_year":
        # after the stop year data-driven targeted parameters equal their no-program values
        after = t > Y
        for pop, par in data_driven_targets(B, m1):
            a, b = s0.get(("par", pop, par)), s1.get(("par", pop, par))
            if a is None or b is None:
                continue
            ok = same(a[:, after], b[:, after])
            if not ok.all():
                j = int(np.nonzero(~ok)[1][0])
                res["bad"].append(("par-after-stop", f"{par}/{pop} at t={t[after][j]!r} (stop year {Y!r}): program run {b[0, after][j]!r} vs no-program value {a[0, after][j]!r}"))
        during = (t >= c["intv"]["instr"]["start"]) & (t <= Y)
        res["nontrivial"] = bool(after.any() and during.any() and acts_after(s0, s1, during))
        # and nothing before the start year
        Y = c["intv"]["instr"]["start"]
    before = t < Y
    if before.any():
        for key, what, j in diff_before(s0, s1, before)[:4]:
            res["bad"].append((key[0], f"{key}: {what} at t={t[before][j]!r} < Y={Y!r}" if j is not None else f"{key}: {what}"))
        # the model also says: stocks at the first index at or after Y coincide
        nidx = int(before.sum())
        if nidx < len(t) and not res["bad"]:
            for key, a in s0.items():
                if key[0] == "comp" and key in s1 and not same(a[:, nidx], s1[key][:, nidx]).all():
                    res["stock_at_Y"] = f"{key} at first index at/after Y: {a[:, nidx]} vs {s1[key][:, nidx]}"
                    break
    if kind != "stop_year":
        res["nontrivial"] = bool(before.any() and (~before).any() and acts_after(s0, s1, ~before))
    # classification difference (partial part of the design)
    dyn0 = {(p.pop.name, p.name) for pop in m0.pops for p in pop.pars if p._is_dynamic}
    dyn1 = {(p.pop.name, p.name) for pop in m1.pops for p in pop.pars if p._is_dynamic}
    if dyn0 != dyn1:
        res["tags"].add("classification.differs")
    res["m0"], res["m1"] = m0, m1
    return res


# ----------------------------------------------------------------------------------------------------------
# directed end-year extension: put Y on a grid point whose float differs between the two grids
# ----------------------------------------------------------------------------------------------------------
def directed_extension(r, B, model):
    """-> case or None.  Looks for an extension under which some common grid point changes in the last bit and dates the
    intervention exactly there (program start / stop year, stepped spending change, scenario overwrite)."""
    tv = B.settings.tvec
    dt = float(tv[1] - tv[0])
    for _ in range(12):
        ext = float(tv[-1]) + r.choice([1, 2, 3, 4, 5, 7, 10, 13]) * dt
        tl = B.settings_for(ext).tvec
        n = len(tv)
        if len(tl) < n:
            continue
        d = np.nonzero(tl[:n] != tv)[0]
        d = d[(d > 0) & (d < n - 1)]
        if len(d) == 0:
            continue
        k = int(r.choice(list(d)))
        Y = float(r.choice([tv[k], tl[k]]))
        names = prog_names(B)
        how = r.choice(["start", "stop", "alloc", "scenario"])
        sspec = None
        if how == "start":
            instr = {"start": Y}
        elif how == "stop":
            instr = {"start": float(tv[0]), "stop": Y}
        elif how == "alloc":
            instr = {"start": float(tv[0]), "alloc": {nm: {"t": [float(tv[0]) - 1.0, Y], "v": [100.0, 5000.0]} for nm in names}}
        else:
            instr = None
            sspec = gen_scenario(r, B, Y, tv, want=r.choice(["data", "function", None]))
            sspec["interp"] = "previous"
        return {"model": model, "kind": "end_extension", "Y": Y, "ytag": "on_grid", "directed": how,
                "base": {"instr": instr, "scen": sspec}, "intv": {"instr": instr, "scen": sspec, "end": ext}}
    return None


def extension_cause(m0, m1, c):
    """why an end-year extension changed earlier outputs: the two grids differ in the last bit somewhere on the common prefix"""
    n = len(m0.t)
    if len(m1.t) >= n and (m1.t[:n] != m0.t).any():
        return "grid-lastbit"
    return "other"


# ----------------------------------------------------------------------------------------------------------
# mode C: gating (indices at which update_pars asks for outcomes; value of data-driven targeted parameters)
# ----------------------------------------------------------------------------------------------------------
def run_with_spy(B, side):
    """run the intervention side recording (ti, outcomes) at every ProgramSet.get_outcomes call"""
    from atomica.model import Model

    settings = B.settings_for(side.get("end"))
    parset = B.scen_parset(side.get("scen"), settings)
    instr = B.instructions(side.get("instr"))
    import sciris as sc

    ps = sc.dcp(B.progset)
    m = Model(settings, B.fw, parset, ps, instr)
    calls = []
    orig = m.progset.get_outcomes

    def spy(prop_coverage):
        out = orig(prop_coverage)
        calls.append((m._t_index, {k: float(np.asarray(v).ravel()[0]) for k, v in out.items()}))
        return out

    m.progset.get_outcomes = spy
    m.process()
    return m, calls, instr


def units_code(p):
    from atomica.system import FrameworkSettings as FS

    if p.units == FS.QUANTITY_TYPE_NUMBER:
        return "n"
    if p.units in (FS.QUANTITY_TYPE_RATE, FS.QUANTITY_TYPE_PROBABILITY):
        return "r"
    return "o"


def qn(x):
    return "nan" if x is None or (isinstance(x, float) and not math.isfinite(x)) else q(x)


def mode_c(B, c, m0, out):
    """gating correspondence for one program case; m0 = the no-program run.  Appends to out['breaks'] / out['stats']."""
    st = out["stats"]
    try:
        m1, calls, instr = run_with_spy(B, c["intv"])
    except Exception as e:  # noqa
        st["modeC.skipped"] += 1
        return
    t = m1.t
    active_impl = sorted({ti for ti, _ in calls})
    rep = core.drive([f"c09-gate {q(instr.start_year)} {qn(float(instr.stop_year))} {len(t)} " + " ".join(q(float(x)) for x in t)])[0].split()
    active_model = [i for i, b in enumerate(rep) if b == "1"]
    st["modeC.gate"] += 1
    st["modeC.gate.indices"] += len(t)
    if active_impl != active_model:
        out["breaks"].append({"what": f"gating: update_pars asked the program set for outcomes at indices {active_impl[:6]}.. but Scenario.active is true at {active_model[:6]}.. (start {instr.start_year!r}, stop {instr.stop_year!r})", "stage": "gate"})
        return
    # value of data-driven targeted parameters at every index
    last = {}
    for ti, o in calls:
        last[ti] = o
    reqs, meta = [], []
    for pop, par in data_driven_targets(B, m1):
        p1 = m1.get_pop(pop).get_par(par)
        p0 = m0.get_pop(pop).get_par(par)
        if p0.vals is None or p1.vals is None or p1.pop_aggregation:
            continue
        u = units_code(p1)
        lo, hi = (None, None) if p1.limits is None else (float(p1.limits[0]), float(p1.limits[1]))
        for ti in range(len(t)):
            if u == "n" and ti == 0:
                continue  # Parameter.source_popsize caches by ti and update_pars runs twice at ti=0 (before/after the junction flush): not C09's subject
            stored = float(p0.vals[ti])
            prog = last.get(ti, {}).get((par, pop)) if ti in last else None
            if not math.isfinite(stored) or (prog is not None and not math.isfinite(prog)):
                continue
            n = 0.0
            if u == "n":
                for l in p1.links:
                    n += float(l.source.vals[ti])
                if not math.isfinite(n):
                    continue
            reqs.append(f"c09-evalone {q(instr.start_year)} {qn(float(instr.stop_year))} {q(float(t[ti]))} {q(m1.dt)} {q(n)} {q(stored)} nan nan nan {u} {qn(lo)} {qn(hi)} {qn(prog)}")
            meta.append((pop, par, ti, float(p1.vals[ti]), stored, prog))
    reps = core.drive(reqs)
    for (pop, par, ti, impl, stored, prog), rp in zip(meta, reps):
        st["modeC.evalone"] += 1
        mv = unq(rp) if not rp.startswith("err") else None
        if mv is None or not core.close(mv, impl, scale=max(1.0, abs(stored)), rtol=1e-10):
            out["breaks"].append({"what": f"data-driven targeted parameter {par}/{pop} at index {ti} (t={t[ti]!r}): implementation {impl!r}, Scenario.evalOne {rp} (parset value {stored!r}, outcome {prog!r}, start {instr.start_year!r}, stop {instr.stop_year!r})", "stage": "evalone"})
            break


# ----------------------------------------------------------------------------------------------------------
# worker: one model, several cases
# ----------------------------------------------------------------------------------------------------------
def case_key(c):
    k = {"intervention": c["kind"]}
    if c["kind"] == "scenario":
        k["targets"] = "+".join(sorted({e["kind"] for e in c["intv"]["scen"]["entries"]}))
        k["interp"] = c["intv"]["scen"]["interp"]
    if c.get("sub"):
        k["sub"] = c["sub"]
    return k


def slim(c):
    return {k: v for k, v in c.items() if k != "model"}


def work(args):
    """(sub_seed, regime | demo spec, n_cases, want_modes) -> JSON-able result"""
    import collections
    import logging
    import warnings

    import atomica as at

    warnings.filterwarnings("ignore")
    at.logger.setLevel(logging.ERROR)
    sub_seed, what, n_cases, modes = args
    r = _random.Random(sub_seed)
    out = {"stats": collections.Counter(), "violations": [], "breaks": [], "cases": [], "sub_seed": sub_seed, "what": what}
    st = out["stats"]
    if isinstance(what, dict):
        model = what
        try:
            B = Built(model)
        except Exception as e:  # noqa
            out["breaks"].append({"what": f"demo {what} could not be loaded: {type(e).__name__}: {e}", "stage": "load"})
            return out
        st["model.demo"] += 1
    else:
        B = None
        for _ in range(25):
            model = gen_model(r, what)
            try:
                B = Built(model)
                B.run({"instr": None})
                B.run({"instr": {"start": float(B.settings.tvec[0])}})
                break
            except Exception:  # generator produced something the library refuses
                st["gen.rejected"] += 1
                B = None
        if B is None:
            st["gen.failed"] += 1
            return out
        st["model.gen"] += 1
        st["regime." + what] += 1
    cases = make_cases(r, B, model, n_cases)
    d = directed_extension(r, B, model) if r.random() < 0.7 else None
    if d is not None:
        cases.append(d)
        st["ext.directed"] += 1
    did_c = did_b = False
    for c in cases:
        kind = c["kind"]
        try:
            res = eval_case(B, c)
        except Exception as e:  # noqa
            import traceback

            out["breaks"].append({"what": f"harness error in eval_case ({kind}): {traceback.format_exc()[-600:]}", "stage": "harness", "replay": {"model": model, "case": slim(c)}})
            continue
        st["kind." + kind] += 1
        st["Y." + c["ytag"]] += 1
        if kind == "scenario":
            st["scen.interp." + c["intv"]["scen"]["interp"]] += 1
            for e in c["intv"]["scen"]["entries"]:
                st["scen.target." + e["kind"]] += 1
        if res["skip"]:
            st["refused"] += 1
            st["refused." + kind] += 1
            if res.get("err_base"):
                st["refused.base"] += 1
            continue
        for tg in res["tags"]:
            st[tg] += 1
        if res["nontrivial"]:
            st["acts.yes"] += 1
        key = case_key(c)
        out["cases"].append({"key": {**key, "sub_seed": sub_seed, "Y": c["Y"], "i": len(out["cases"])}, "nontrivial": bool(res["nontrivial"]),
                             "sample": {"what": what if isinstance(what, str) else what.get("name"), "kind": kind, "Y": c["Y"], "ytag": c["ytag"], "T": int(len(B.settings.tvec))}})
        if res["bad"]:
            okinds = sorted({b[0] for b in res["bad"]})
            vkey = {**key, "output": "+".join(okinds)}
            if kind == "end_extension":
                vkey["cause"] = extension_cause(res.get("m0") or B.run(c["base"]), res.get("m1") or B.run(c["intv"]), c)
            out["violations"].append({"key": vkey, "what": f"{kind} (Y={c['Y']!r}, {c['ytag']}): " + "; ".join(b[1] for b in res["bad"][:3]), "replay": {"model": model, "case": slim(c)}})
        elif res.get("stock_at_Y"):
            out["breaks"].append({"what": "outputs before Y identical but " + res["stock_at_Y"] + " (closed_causal says the stocks at the first index at/after Y coincide)", "stage": "stock-at-Y", "replay": {"model": model, "case": slim(c)}})
        # mode C on program cases
        if "C" in modes and kind in ("prog_start", "stop_year") and not did_c and res.get("m0") is not None:
            did_c = True
            mode_c(B, c, res["m0"], out)
        # mode B: replay the intervention run step by step through Engine.step
        if "B" in modes and not did_b and model["kind"] == "gen" and kind in ("prog_start", "alloc", "coverage", "scenario") and res.get("m1") is not None:
            did_b = True
            m1 = res["m1"]
            try:
                net = genfw.extract_net(m1)
                wf = core.drive([f"ewf {genfw.net_tokens(net)}"])[0]
                if wf == "true":
                    sub = types.SimpleNamespace(traces=0, count=lambda *a, **k: None)
                    brs = engine_corr.compare_trace(sub, model["spec"], m1, net, "c09")
                    st["modeB.trace"] += 1
                    instr1 = c["intv"].get("instr")
                    t0_active = instr1 is not None and instr1["start"] <= float(m1.t[0])
                    tg_ = {(co.par, co.pop) for co in B.progset.covouts.values()}
                    num_target = any((p_.name, pop_.name) in tg_ and units_code(p_) == "n" and p_.links for pop_ in m1.pops for p_ in pop_.pars)
                    for b in brs[:2]:
                        if b["stage"] in ("nan",):
                            continue
                        if b["what"].rstrip().endswith(("impl nan", "impl inf", "impl -inf")):
                            # the implementation's value is not finite (overflow of dt/(duration*timescale) or rate*dt for denormal /
                            # huge parameter values in the extreme regime): the "never NaN" property (C02), identical in both runs of a pair
                            st["modeB.nonfinite_other_property"] += 1
                            continue
                        if b["t"] == 0 and t0_active and num_target:
                            # Parameter.source_popsize caches by time index; update_pars (program overwrite of a number parameter) fills the
                            # cache before the initial junction flush and update_links reads it afterwards: step 0 uses a stale population
                            # size.  A defect of the unit conversion (C03), identical in both runs of a pair -- not C09's subject.
                            st["modeB.t0_stale_popsize_other_property"] += 1
                            continue
                        out["breaks"].append({"what": f"mode B ({kind} run) {b['stage']}: {b['what']}", "stage": "modeB", "replay": {"model": model, "case": slim(c)}})
                else:
                    st["modeB.wf_false"] += 1
            except Exception as e:  # noqa
                st["modeB.skipped"] += 1
    return out


# ----------------------------------------------------------------------------------------------------------
# mode A: ParameterScenario.get_parset vs Scenario.apply
# ----------------------------------------------------------------------------------------------------------
_MA = {}


def modeA_base():
    """a small fixed generated model whose parset is edited per case"""
    if "B" not in _MA:
        for sd in range(100):
            rr = _random.Random(424200 + sd)
            model = gen_model(rr, "calibrated")
            try:
                B = Built(model)
                B.run({"instr": None})
            except Exception:
                continue
            tg = scen_targets(B)
            if any(t[0] == "function" for t in tg) and any(t[0] == "data" for t in tg):
                _MA["B"] = B
                break
    return _MA["B"]


def gen_base_series(r, start):
    c = r.random()
    if c < 0.2:
        return {"a": r.choice([0.0, 0.3, 2.0]), "t": [], "v": []}
    if c < 0.28:
        return {"a": None, "t": [], "v": []}  # no data at all (function parameter)
    n = r.choice([1, 2, 3, 5])
    ts = sorted(r.sample([start - 5, start - 1, start, start + 0.5, start + 1, start + 2, start + 2.25, start + 3, start + 4, start + 7, start + 20], n))
    vs = [r.choice([0.0, 0.1, 0.5, 1.0, 3.0, round(r.random() * 10, 3)]) for _ in ts]
    if n > 1 and r.random() < 0.15:
        vs[r.randrange(n)] = NAN
        if all(isinstance(v, float) and math.isnan(v) for v in vs):
            vs[0] = 1.0
    return {"a": r.choice([None, 9.0]), "t": [float(x) for x in ts], "v": vs}


def run_modeA_scen(ctx):
    import atomica as at
    import sciris as sc

    B = modeA_base()
    tg = scen_targets(B)
    data_t = [t for t in tg if t[0] == "data"]
    fn_t = [t for t in tg if t[0] == "function"]
    r = ctx.rng
    reqs, metas = [], []
    for i in range(ctx.n(150, 3000)):
        is_fn = r.random() < 0.35
        _, name, pop = r.choice(fn_t if is_fn else data_t)
        start = r.choice([2000.0, 2010.0, 2015.5])
        dt = r.choice([1.0, 0.5, 0.25, 0.2, 0.1, 1 / 12, 0.3, 0.7])
        nst = r.randint(3, 14)
        settings = at.ProjectSettings(sim_start=start, sim_end=start + nst * dt, sim_dt=dt)
        tvec = settings.tvec
        ser = gen_base_series(r, start)
        if is_fn and r.random() < 0.6:
            ser = {"a": None, "t": [], "v": []}
        Y, ytag = pick_Y(r, tvec)
        n = r.choice([1, 1, 2, 3])
        ots = [Y] + [Y + r.choice([0.5, 1.0, 1.5, 2.0, 4.0, 9.0]) * dt for _ in range(n - 1)]
        if r.random() < 0.3 and len(tvec) > 3:
            ots.append(float(tvec[r.randrange(len(tvec))]))  # an overwrite exactly on a later (or earlier!) grid time
        ots = list(dict.fromkeys(ots))
        oys = [r.choice([0.0, 0.05, 0.4, 1.0, 2.0, 33.0]) for _ in ots]
        if r.random() < 0.3:
            o = list(range(len(ots)))
            r.shuffle(o)
            ots, oys = [ots[j] for j in o], [oys[j] for j in o]
        method = r.choice(["linear", "previous"])
        case = {"api": "ParameterScenario.get_parset", "par": name, "pop": pop, "par_has_function": is_fn, "series": ser, "settings": [start, start + nst * dt, dt], "ov_t": ots, "ov_y": oys, "method": method}
        impl, tvec = scen_case_impl(B, case)
        reqs.append(scen_case_request(case, tvec))
        metas.append((case, impl, tvec, ytag))
    reps = core.drive(reqs)
    for (case, impl, tvec, ytag), rep in zip(metas, reps):
        ctx.count("modeA.scen")
        ctx.count("modeA.scen.Y." + ytag)
        scen_case_judge(ctx, case, impl, tvec, rep)


def scen_case_impl(B, case):
    """run the real get_parset on one mode A case -> (what it stored | {"raise": ...}, tvec)"""
    import atomica as at
    import sciris as sc

    start, end, dt = case["settings"]
    settings = at.ProjectSettings(sim_start=start, sim_end=end, sim_dt=dt)
    tvec = settings.tvec
    name, pop, ser = case["par"], case["pop"], case["series"]
    parset = sc.dcp(B.parset)
    ts = parset.pars[name].ts[pop]
    ts.t, ts.vals, ts.assumption = list(ser["t"]), list(ser["v"]), ser["a"]
    scen = at.ParameterScenario(name="sc", scenario_values={name: {pop: {"t": list(case["ov_t"]), "y": list(case["ov_y"])}}}, interpolation=case["method"])
    proj = types.SimpleNamespace(settings=settings, framework=B.fw)
    try:
        new = scen.get_parset(parset, proj)
        nts = new.pars[name].ts[pop]
        impl = {"t": [float(x) for x in nts.t], "v": [float(x) for x in nts.vals], "skip": new.pars[name].skip_function.get(pop) if hasattr(new.pars[name], "skip_function") else None}
    except Exception as e:  # noqa
        impl = {"raise": f"{type(e).__name__}: {e}"}
    return impl, tvec


def scen_case_request(case, tvec):
    ser = case["series"]
    toks = ["c09-scen", case["method"], qn(ser["a"]), str(len(ser["t"]))]
    for t_, v_ in zip(ser["t"], ser["v"]):
        toks += [q(t_), qn(v_)]
    toks += [str(len(tvec))] + [q(float(x)) for x in tvec] + [str(len(case["ov_t"]))]
    for t_, v_ in zip(case["ov_t"], case["ov_y"]):
        toks += [q(t_), q(v_)]
    return " ".join(toks)


def scen_case_judge(ctx, case, impl, tvec, rep):
    """oracle on the implementation + correspondence with Scenario.apply for one mode A case"""
    import atomica as at

    Y = min(case["ov_t"])
    is_fn = case["par_has_function"]
    rp = {"kind": "modeA-scen", "case": case}
    pre = tvec[tvec < Y]
    ctx.case({"modeA": "scen", **{k: case[k] for k in ("series", "settings", "ov_t", "ov_y", "method")}}, nontrivial=len(pre) > 0 and "raise" not in impl and len(case["series"]["t"]) > 1,
             sample={"modeA": "get_parset", "method": case["method"], "Y": Y, "n_pre": int(len(pre))})
    # direct oracle on the implementation: baseline values at the grid times before Y are kept (property wording), exactly
    if "raise" not in impl:
        bts = at.TimeSeries(t=list(case["series"]["t"]), vals=list(case["series"]["v"]), assumption=case["series"]["a"])
        if len(pre):
            try:
                want = bts.interpolate(pre)
            except Exception:
                want = None
            if want is not None:
                nts = at.TimeSeries(t=list(impl["t"]), vals=list(impl["v"]))
                got = nts.interpolate(pre) if np.isfinite(want).all() else None
                if got is not None and not (got == want).all():
                    j = int(np.argmax(got != want))
                    ctx.violation({"api": "ParameterScenario.get_parset", "oracle": "baseline-before-Y", "method": case["method"]},
                                  f"scenario parset interpolates to {got[j]!r} at simulation time {pre[j]!r} < Y={Y!r}; baseline {want[j]!r}", rp)
        sk = impl["skip"]
        if is_fn and not (sk is not None and sk[0] == Y and sk[1] == np.inf):
            ctx.violation({"api": "ParameterScenario.get_parset", "oracle": "skip-window"}, f"function parameter: skip window {sk!r}, expected ({Y!r}, inf)", rp)
        if not is_fn:
            # the framework's empty function cell is NaN (truthy), so get_parset also sets the window on data parameters;
            # it has no effect there (Parameter.update returns at once without a function) -- only its position is checked
            ctx.count("modeA.scen.skip_on_data_par" if sk is not None else "modeA.scen.no_skip_on_data_par")
            if sk is not None and not (sk[0] == Y and sk[1] == np.inf):
                ctx.violation({"api": "ParameterScenario.get_parset", "oracle": "skip-window"}, f"data parameter: skip window {sk!r}, expected ({Y!r}, inf)", rp)
    # correspondence with Scenario.apply
    if rep == "raise":
        ctx.count("modeA.scen.raise")
        if "raise" not in impl:
            ctx.brk("correspondence", f"Scenario.apply raises but get_parset returned a series: {case}", replay=rp)
        return
    if not rep.startswith("ok"):
        ctx.brk("correspondence", f"driver replied {rep[:80]} to c09-scen", replay=rp)
        return
    if "raise" in impl:
        ctx.brk("correspondence", f"get_parset raised {impl['raise'][:100]} but Scenario.apply returns a series: {case}", replay=rp)
        return
    tk = rep.split()
    mY = unq(tk[1])
    n = int(tk[2])
    mt = [unq(x) for x in tk[3:3 + 2 * n:2]]
    mv = [unq(x) for x in tk[4:4 + 2 * n:2]]
    ok = (mY == Fraction(Y)) and n == len(impl["t"]) and all(a == Fraction(b) for a, b in zip(mt, impl["t"]))
    if ok:
        scale = max([1.0] + [abs(v) for v in impl["v"] if math.isfinite(v)])
        ok = all(core.close(a, b, scale=scale, rtol=1e-11) for a, b in zip(mv, impl["v"]))
    ctx.traces += 1
    if not ok:
        ctx.disagreements_checked += 1
        ctx.brk("correspondence", f"get_parset stored series differs from Scenario.apply: impl t={impl['t']} v={impl['v']} model t={[float(x) for x in mt]} v={[None if x is None else float(x) for x in mv]}", replay=rp)


def run_modeA_series(ctx):
    """ProgramSet.get_alloc / get_capacities / get_prop_coverage with stepped overwrites vs Series.interpPrevious + prefix oracle"""
    import atomica as at

    B = modeA_base()
    r = ctx.rng
    names = prog_names(B)
    reqs, metas = [], []
    for i in range(ctx.n(60, 1500)):
        start = r.choice([2000.0, 2010.0, 2015.5])
        dt = r.choice([1.0, 0.5, 0.25, 0.2, 0.1, 1 / 12, 0.3])
        tvec = at.ProjectSettings(sim_start=start, sim_end=start + r.randint(3, 12) * dt, sim_dt=dt).tvec
        kind = r.choice(["alloc", "capacity", "coverage"])
        nm = r.choice(names)
        n = r.choice([1, 2, 3, 4])
        ts = sorted({float(r.choice([start - 2, start, tvec[r.randrange(len(tvec))], tvec[r.randrange(len(tvec))] + r.choice([0.0, 0.5]) * dt, float(np.nextafter(tvec[r.randrange(len(tvec))], np.inf))])) for _ in range(n)})
        vs = [r.choice([0.0, 0.2, 1.0, 50.0, 1e4]) for _ in ts]
        Y, ytag = pick_Y(r, tvec)
        v1 = r.choice([0.0, 0.6, 77.0, 1e5])
        ser = {"t": ts, "v": vs}
        ser2 = {"t": list(ts), "v": list(vs)}
        if Y in ser2["t"]:
            ser2["v"][ser2["t"].index(Y)] = v1
        else:
            ser2["t"].append(Y)
            ser2["v"].append(v1)
        o = np.argsort(ser2["t"])
        ser2 = {"t": [ser2["t"][j] for j in o], "v": [ser2["v"][j] for j in o]}
        oneoff = B.progset.programs[nm].is_one_off

        def call(s):
            ins = B.instructions({"start": start, kind: {nm: s}})
            if kind == "alloc":
                return B.progset.get_alloc(tvec, ins)[nm]
            caps = B.progset.get_capacities(tvec, dt, ins)
            if kind == "capacity":
                return caps[nm]
            return B.progset.get_prop_coverage(tvec, dt, caps, {k: np.full(len(tvec), 100.0) for k in names}, ins)[nm]

        a, b = np.asarray(call(ser), dtype=float), np.asarray(call(ser2), dtype=float)
        case = {"api": "ProgramSet." + {"alloc": "get_alloc", "capacity": "get_capacities", "coverage": "get_prop_coverage"}[kind], "series": ser, "changed": ser2, "Y": Y, "settings": [start, float(tvec[-1]), dt], "prog": nm}
        stated = np.array([any(t_ <= x for t_ in ts) for x in tvec])
        before = (tvec < Y) & stated
        ctx.count("modeA.series")
        ctx.hyp_checked += int((tvec < Y).sum())
        ctx.hyp_held += int(before.sum())
        ctx.case({"modeA": "series", **case}, nontrivial=bool(before.any() and (a != b).any()), sample={"modeA": kind, "Y": Y})
        if not (a[before] == b[before]).all():
            j = int(np.argmax(a[before] != b[before]))
            ctx.violation({"api": case["api"], "oracle": "stepped-prefix"}, f"{kind} of {nm} at t={tvec[before][j]!r} < Y={Y!r} changed from {a[before][j]!r} to {b[before][j]!r} although the series states the value in force", {"kind": "modeA-series", "case": case})
        toks = ["interp-previous", "nan", str(len(ser2["t"]))]
        for t_, v_ in zip(ser2["t"], ser2["v"]):
            toks += [q(t_), q(v_)]
        toks += [str(len(tvec))] + [q(float(x)) for x in tvec]
        reqs.append(" ".join(toks))
        metas.append((case, kind, oneoff, dt, b))
    reps = core.drive(reqs)
    for (case, kind, oneoff, dt, b), rep in zip(metas, reps):
        vals = [unq(x) for x in rep.split()]
        if kind in ("capacity", "coverage") and oneoff:
            vals = [v * Fraction(dt) for v in vals]
        if kind == "coverage":
            vals = [min(v, Fraction(1)) for v in vals]
        ctx.traces += 1
        if not all(core.close(mv, iv, scale=max(1.0, abs(iv)), rtol=1e-12) for mv, iv in zip(vals, b)):
            ctx.brk("correspondence", f"{case['api']} with a stepped overwrite differs from Series.interpPrevious: impl {b.tolist()} model {[float(v) for v in vals]}", replay={"kind": "modeA-series", "case": case})


# ----------------------------------------------------------------------------------------------------------
# run / replay
# ----------------------------------------------------------------------------------------------------------
def merge(ctx, out):
    for k, v in out["stats"].items():
        ctx.count(k, v)
    for cs in out["cases"]:
        ctx.case(cs["key"], cs["nontrivial"], sample=cs["sample"])
    for v in out["violations"]:
        ctx.violation(v["key"], v["what"], v["replay"])
    for b in out["breaks"]:
        ctx.disagreements_checked += 1
        ctx.brk("correspondence", b["what"], stage=b.get("stage"), replay=b.get("replay"))
    ctx.traces += out["stats"].get("modeB.trace", 0) + out["stats"].get("modeC.gate", 0)
    ctx.hyp_checked += out["stats"].get("modeC.gate.indices", 0)
    ctx.hyp_held += out["stats"].get("modeC.gate.indices", 0)


def jobs(ctx):
    r = ctx.rng
    js = []
    regimes = ["calibrated", "boundary", "extreme"]
    for i in range(ctx.n(22, 800)):
        js.append((r.randrange(1 << 30), regimes[i % 3], ctx.n(5, 8), "BC" if i % 3 == 0 else "C"))
    demos = DEMOS[: ctx.n(4, len(DEMOS))]
    for name in demos:
        for dt in ([None] if ctx.quick else [None, 0.5, 0.25, 0.2, 0.1]):
            js.append((r.randrange(1 << 30), {"kind": "demo", "name": name, "dt": dt}, ctx.n(6, 40), "C"))
    return js


def probe_scenario_objects(ctx):
    """(a) a ParameterScenario built without values and filled through .add() holds only what was added to IT -- an intervention defined in one scenario object has no effect
    on a run made with another; (b) the instructions a BudgetScenario produces apply its spending series as it is stated (stepped): a change dated Y does not move the
    spending of the years between the program start and Y."""
    import atomica as at

    P = at.demo("udt", do_run=False)
    ps = P.parsets[0]
    def _nofn(n):
        f = P.framework.pars.at[n, "function"]
        return not isinstance(f, str)
    par = [n for n in ps.pars if n in P.framework.pars.index and _nofn(n) and len(ps.pars[n].ts) and list(ps.pars[n].ts.values())[0].has_data][0]
    pop = list(ps.pars[par].ts.keys())[0]
    y0 = float(P.settings.sim_start)
    # (a)
    s1 = at.ParameterScenario(name="first")
    s1.add(par, pop, [y0 + 2], [0.777])
    s2 = at.ParameterScenario(name="second")
    ctx.count("probe.scenario_objects")
    ctx.case({"probe": "scenario-objects"}, nontrivial=True)
    leaked = bool(s2.scenario_values) and par in (s2.scenario_values or {})
    base = P.run_sim(ps, store_results=False)
    r2 = s2.run(P, ps, store_results=False) if hasattr(s2, "run") else None
    if r2 is not None and isinstance(r2, list):
        r2 = r2[0]
    differs = r2 is not None and not np.array_equal(np.asarray(base.get_variable(par, pop)[0].vals), np.asarray(r2.get_variable(par, pop)[0].vals), equal_nan=True)
    if leaked or differs:
        ctx.violation({"api": "ParameterScenario", "case": "overwrites-leak-between-scenario-objects"},
                      f"a ParameterScenario created empty after another one had an overwrite of {par}/{pop} added holds {dict(s2.scenario_values) if s2.scenario_values else {} !r}" + ("; running it changes the parameter although nothing was added to it" if differs else ""),
                      {"kind": "probe", "probe": "scenario-objects"})
    # (b)
    if len(P.progsets):
        pg = P.progsets[0]
        prog = list(pg.programs.keys())[0]
        start, Y = y0 + 2.0, y0 + 4.0
        v0, v1 = 1000.0, 9000.0
        bs = at.BudgetScenario(name="b", alloc={prog: at.TimeSeries([start - 2.0, Y], [v0, v1])}, start_year=start)
        ins = bs.get_instructions(pg, P)
        tv = np.array([start, start + 0.5, Y - 0.5, Y, Y + 1.0])
        got = np.asarray(pg.get_alloc(tv, ins)[prog], dtype=float)
        want = np.array([v0, v0, v0, v1, v1])
        ctx.count("probe.budget_scenario_stepped")
        ctx.case({"probe": "budget-scenario-stepped"}, nontrivial=True)
        if not np.allclose(got, want, rtol=1e-12, atol=0):
            ctx.violation({"api": "BudgetScenario.get_instructions", "case": "change-dated-Y-moves-earlier-spending"},
                          f"BudgetScenario(alloc={{{prog!r}: TimeSeries([{start - 2.0}, {Y}], [{v0}, {v1}])}}, start_year={start}): spending at {tv.tolist()} is {got.tolist()}, stated (stepped) {want.tolist()}", {"kind": "probe", "probe": "budget-scenario"})


def run(ctx):
    import logging
    import warnings

    import atomica as at

    warnings.filterwarnings("ignore")
    at.logger.setLevel(logging.ERROR)
    run_modeA_scen(ctx)
    run_modeA_series(ctx)
    probe_scenario_objects(ctx)
    # closed loop with programs: whole trajectories from the specification alone; on a disagreement the prefix oracle (re-run without programs) is evaluated
    from vlib import closedprog_corr
    closedprog_corr.run_closedprog(ctx, PROPERTY, ctx.n(25, 600))
    # closed loop, parameter scenarios on function parameters: whole trajectories from the specification (scenario parset + skip windows); on a disagreement the
    # prefix oracle (re-run without the scenario, everything before the first scenario year identical) and the skip-window value oracle are evaluated
    from vlib import closed_corr
    closed_corr.run_closed(ctx, PROPERTY, ctx.n(12, 300), force=("scenarios",))
    js = jobs(ctx)
    nproc = int(os.environ.get("VERIF_PROCS", "0") or 0) or (min(6, os.cpu_count() or 1) if ctx.quick else min(16, os.cpu_count() or 1))
    if nproc > 1:
        import multiprocessing as mp

        with mp.get_context("fork").Pool(nproc) as pool:
            for out in pool.imap_unordered(work, js, chunksize=1):
                merge(ctx, out)
    else:
        for j in js:
            merge(ctx, work(j))
    ctx.exhaustive = False
    ctx.extra["pair_jobs"] = len(js)
    import collections
    import json

    ctx.extra["break_samples"] = [{"what": b["what"][:600], "stage": b.get("stage")} for b in ctx.breaks[:8]]
    if ctx.breaks and os.environ.get("VERIF_DUMP_BREAKS"):
        core.write_json(core.VERIF / "replays" / f"C09_breaks_dump_{ctx.seed}.json", ctx.breaks[:20])
    ctx.extra["violation_keys"] = dict(collections.Counter(json.dumps(v["key"], sort_keys=True) for v in ctx.violations))


def replay(ctx, data):
    import logging
    import warnings

    import atomica as at

    warnings.filterwarnings("ignore")
    at.logger.setLevel(logging.ERROR)
    rp = data.get("replay") or {}
    c = rp.get("case") or (data.get("broken") or [{}])[0].get("case")
    if isinstance(c, dict) and c.get("closedprog"):
        from vlib import closedprog_corr
        return closedprog_corr.replay_case(c)
    if rp.get("kind") == "probe":
        sub = core.Ctx(PROPERTY, "quick", 0)
        probe_scenario_objects(sub)
        for v in sub.violations:
            print("VIOLATION", v["key"], v["what"][:400])
        return 1 if sub.violations else 0
    if isinstance(c, dict) and c.get("closed"):
        from vlib import closed_corr
        return closed_corr.replay_case(c)
    if rp.get("kind") == "modeA-scen":
        case = rp["case"]
        B = modeA_base()
        impl, tvec = scen_case_impl(B, case)
        rep = core.drive([scen_case_request(case, tvec)])[0]
        sub = core.Ctx(PROPERTY, ctx.tier, ctx.seed)
        scen_case_judge(sub, case, impl, tvec, rep)
        print("case:", case)
        print("implementation:", impl)
        print("model (Scenario.apply):", rep[:600])
        for v in sub.violations:
            print("VIOLATED:", v["what"])
        for b in sub.breaks:
            print("DISAGREES:", b["what"][:400])
        return 1 if (sub.violations or sub.breaks) else 0
    if rp.get("kind", "").startswith("modeA"):
        print("mode A series case (re-run the check with the same seed to re-evaluate):")
        print(rp["case"])
        return 0
    model, c = rp["model"], dict(rp["case"])
    c["model"] = model
    B = Built(model)
    res = eval_case(B, c)
    print(f"case: {c['kind']} Y={c['Y']!r} ({c['ytag']}); base={c['base']} intv={c['intv']}")
    if res["skip"]:
        print("library refused:", res["skip"])
        return 0
    if res["bad"]:
        for b in res["bad"]:
            print("DIFFERS:", b[1])
        print("-> property violated on this input")
        return 1
    print("all outputs before Y identical (property holds on this input)" + ("; but " + res["stock_at_Y"] if res.get("stock_at_Y") else ""))
    return 0


if __name__ == "__main__":
    core.main(sys.modules[__name__])
