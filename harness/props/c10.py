"""
C10 -- Restarting from a saved state continues the original trajectory exactly.

Theorems: lean/AtomicaProofs/Properties/C10.lean (Engine.runFrom/process restart, chains, closed loop, saved table, spreadsheet layout).
Correspondence (mode E, histories):  original run -> ParameterSet.set_initialization(res, year=t[k]) -> new ProjectSettings starting at t[k]
-> new run; every compartment (TimedCompartment rows), characteristic, parameter and link (TimedLink rows) of the new run is compared with
the tail of the original run, index by index; chains of 2-3 restarts; generated models (junctions, timed compartments, duration groups,
transfers, functions, programs) and library models with their program books; spreadsheet form calibration_spreadsheet -> load_calibration.
Model side: Initialization.from_result / apply / to_excel / from_excel against AtomicaModel.InitTable (init-save, init-apply, init-table,
init-untable); the restarted run replayed step by step through the exact engine model (mode B) and its start-up flush through `eflush`.
"""
import io
import math
import os
import random
import sys
import time
import traceback

import numpy as np

from vlib import core, engine_corr, genfw
from vlib.core import q, unq

PROPERTY = "C10"
LEAN_MODS = ["AtomicaProofs.Properties.C10"]
THEOREMS = [
    "Atomica.C10.runFrom_drop",              # tail of the parameter stream from state k reproduces the tail of the trajectory (stocks row by row, flows)
    "Atomica.C10.runFrom_flows_at",          # flows at index k are a function of (parameter values at k, state k)
    "Atomica.C10.flush_noop_of_empty",       # flushAll is the identity when no junction holds anybody
    "Atomica.C10.runFrom_jempty",            # junction emptiness is inherited by every index
    "Atomica.C10.restart_continues",         # process restarted from state k = tail of the trajectory, for every k
    "Atomica.C10.restart_continues_of_start",
    "Atomica.C10.restart_chain",             # restart of a restart of ... = tail from the summed offset
    "Atomica.Engine.flushAll_jorder_empty",  # wf net: after the start-up flush no junction holds anybody (nodup + topological order)
    "Atomica.C10.process_all_jempty",        # ... hence at every index of a run
    "Atomica.C10.restart_continues_wf",      # restart_continues for every well-formed net and every index, no junction hypothesis
    "Atomica.C10.restart_chain_wf",
    "Atomica.C10.restart_closed_loop",       # parameters computed from (absolute index, state): restart reproduces the tail
    "Atomica.C10.apply_fromResult",          # apply(from_result(x)) is defined and equals x on every row inside the net
    "Atomica.C10.row_structure_kept",        # rows of timed compartments are part of the saved state
    "Atomica.C10.totals_not_enough",         # ... and necessarily so (kernel-checked witness)
    "Atomica.C10.restart_from_saved",        # full path: save table at k, apply, flush (no-op), run == tail (inside the net)
    "Atomica.C10.restart_from_saved_wf",
    "Atomica.C10.restart_closed_loop_saved", # closed loop + saved table: the whole property for models without derivative parameters
    "Atomica.C10.stale_cache_breaks_restart",  # witness: the code's start-up today (source sizes cached before the flush) lacks the property
    "Atomica.Engine.step_congr",             # one step reads the state only inside the net
    "Atomica.Engine.runFrom_congr",
    "Atomica.C10.table_roundtrip",           # fromTable (toTable m init) = (m, init up to 1-vector -> scalar)
    "Atomica.C10.apply_normInit",            # that change is invisible to apply
    "Atomica.C10.saved_table_roundtrip",
    "Atomica.C10.merged_cells_lose_key",     # witness: what pandas writes today (merged index cells) loses a key
]
TRUSTED = [
    "layer L1: the parameter values of every time index are inputs of the engine model; that the implementation's parameter pipeline is a function of (time, current state) only -- no hidden state -- is what the mode E comparison of *parameters* tests (it found the stale source-popsize cache)",
    "time grids: a restarted grid Y+i*dt may differ from start+(k+i)*dt in the last bit; runs on bit-identical grids are compared to 1e-13 of the series maximum (they are bit-identical in practice, counted), runs on grids that differ in the last bit to 1e-9 of the model-wide population scale",
    "xlsx number format (16 significant digits), xlsxwriter/openpyxl/pandas parsing: observed (compared to 1e-15 relative), the model treats cell values as exact",
    "junction emptiness at the saved index is a theorem hypothesis evaluated on every case (it is C04's conclusion)",
]
ASSUMPTIONS = [
    "models with derivative parameters are excluded (the property says so); none of the generated or library models used has one",
    "program start/stop years that coincide with a grid year that is not exactly representable (non-dyadic dt) are not generated: the comparison `start_year <= t[ti]` could then flip with the last-bit difference of the two grids",
    "the restarted run uses the same framework, databook values, y-factors, program set and instructions as the original (the property is about the saved *state*)",
]
RULE = (
    "one case = (model, restart index k or chain of offsets): generated models (vlib.genfw regimes calibrated/boundary/extreme with timed 1-2, junctions 1-3, "
    "random pops/transfers/functions; half of them with a generated program set whose start/stop years lie before, at, between and after grid years), directed "
    "families (people initially in a junction + program on a number parameter; single-compartment populations for the spreadsheet form) and library models "
    "(udt, usdt, tb_simple, hypertension, hiv, tb with their program books); k in {0, 1, middle, T-2, T-1, random}; non-trivial = 0 < k < T-1, the state still "
    "changes after k, and the model has a timed compartment, junction, transfer or active program"
)
EXPECTED_BRANCHES = [
    "restart.k0", "restart.k_mid", "restart.k_last", "chain.2", "chain.3", "grid.identical", "grid.lastbit", "has.timed", "has.junction", "has.transfer",
    "has.multirow", "has.timedlink", "programs.active_before_Y", "programs.start_after_Y", "programs.none", "demo.tb", "demo.udt",
    "sheet.roundtrip", "sheet.vector_rows", "sheet.layout_model_match", "sheet.parse_model_match", "junction.initial_people", "modeB.restarted_run", "init.save_match", "init.apply_match",
    "parset.same_object", "parset.fresh",
]

RT_SAME = 1e-13
RT_DIFF = 1e-9
RT_SHEET = 1e-15
N_WORKERS = int(os.environ.get("VERIF_WORKERS", "14"))


# ----------------------------------------------------------------------------------------------------------
# a picklable stand-in for core.Ctx (worker processes), merged into the real one afterwards
# ----------------------------------------------------------------------------------------------------------
class Sub:
    def __init__(self, tier, seed):
        self.tier, self.seed = tier, seed
        self.cases, self.counts, self.breaks, self.violations, self.notes = [], {}, [], [], []
        self.traces = self.hyp_checked = self.hyp_held = self.ambiguous = self.disagreements_checked = 0
        self.extra = {}

    quick = property(lambda self: self.tier == "quick")

    def count(self, b, k=1):
        self.counts[b] = self.counts.get(b, 0) + k

    def case(self, key, nontrivial, sample=None):
        self.cases.append((key, bool(nontrivial), sample))

    def brk(self, kind, what, **data):
        self.breaks.append({"kind": kind, "what": what, **data})

    def violation(self, key, what, replay):
        self.violations.append({"key": key, "what": what, "replay": replay})

    def merge_into(self, ctx):
        for key, nt, sample in self.cases:
            ctx.case(key, nt, sample)
        for b, k in self.counts.items():
            ctx.count(b, k)
        ctx.breaks += self.breaks
        ctx.violations += self.violations
        ctx.notes += self.notes
        ctx.traces += self.traces
        ctx.hyp_checked += self.hyp_checked
        ctx.hyp_held += self.hyp_held
        ctx.ambiguous += self.ambiguous
        ctx.disagreements_checked += self.disagreements_checked
        for k, v in self.extra.items():
            ctx.extra[k] = ctx.extra.get(k, 0) + v


# ----------------------------------------------------------------------------------------------------------
# running models
# ----------------------------------------------------------------------------------------------------------
def run_model(fw, parset, settings, progset=None, instr=None, reset_cache=False):
    """Build + process a Model; records the stock and parameter values just before the start-up junction flush.
    reset_cache=True applies the proposed repair of the stale `Parameter._source_popsize_cache` (diagnosis only)."""
    from atomica.model import Model

    m = Model(settings, fw, parset, progset, instr)
    pre = {}
    orig = m.flush_junctions

    def wrapped():
        pre["stock"] = genfw.snapshot_stock(m, 0)
        pre["pv"] = {par.id: float(par.vals[0]) for pop in m.pops for par in pop.pars if par.vals is not None}
        orig()
        if reset_cache:
            for pop in m.pops:
                for par in pop.pars:
                    par._source_popsize_cache_time = None

    m.flush_junctions = wrapped
    m.process()
    m._verif_preflush = pre
    return m


def result_of(m, parset):
    import atomica as at

    return at.Result(model=m, parset=parset, name="r")


def has_derivative(m):
    return any(par.derivative for pop in m.pops for par in pop.pars)


def series_of(obj):
    """(array, is_rows) of an integration object: rows for TimedCompartment / TimedLink"""
    from atomica import model as M

    if isinstance(obj, (M.TimedCompartment, M.TimedLink)):
        return np.asarray(obj._vals, dtype=float), True
    v = obj.vals
    if v is None:
        return None, False
    return np.asarray(v, dtype=float), False


def pop_scale(m):
    s = 1.0
    for pop in m.pops:
        for c in pop.comps:
            v = np.asarray(c.vals, dtype=float)
            if v.size and np.isfinite(v).any():
                s = max(s, float(np.nanmax(np.abs(v[np.isfinite(v)]))))
    return s


def compare_runs(m0, m1, k, rtol_same=RT_SAME, rtol_diff=RT_DIFF, force_diff=False):
    """Oracle of C10: every variable of m1 against the tail of m0 from index k, time-aligned by index.
    Returns dict(same_grid, exact, mismatches=[...], n_series)."""
    out = {"same_grid": False, "exact": True, "mismatches": [], "n_series": 0, "worst": 0.0}
    T0, T1 = len(m0.t), len(m1.t)
    if T0 - k != T1:
        out["mismatches"].append({"kind": "grid", "what": f"restarted run has {T1} time points, tail of the original from index {k} has {T0 - k}"})
        return out
    if not np.allclose(m0.t[k:], m1.t, rtol=0, atol=1e-9):
        j = int(np.argmax(np.abs(m0.t[k:] - m1.t)))
        out["mismatches"].append({"kind": "grid", "what": f"time point {j} of the restarted run is {m1.t[j]!r}, original {m0.t[k + j]!r}"})
        return out
    same = bool(np.array_equal(m0.t[k:], m1.t)) and not force_diff
    out["same_grid"] = same
    gscale = max(pop_scale(m0), 1.0)
    if len(m0.pops) != len(m1.pops):
        out["mismatches"].append({"kind": "structure", "what": "different number of populations"})
        return out
    for p0, p1 in zip(m0.pops, m1.pops):
        for kind in ("comps", "characs", "pars", "links"):
            A, B = getattr(p0, kind), getattr(p1, kind)
            if len(A) != len(B):
                out["mismatches"].append({"kind": "structure", "what": f"population {p0.name}: {len(A)} vs {len(B)} {kind}"})
                continue
            for a, b in zip(A, B):
                ida = a.id[:3] if kind == "links" else a.id
                idb = b.id[:3] if kind == "links" else b.id
                if ida != idb:
                    out["mismatches"].append({"kind": "structure", "what": f"{kind} order differs: {a.id} vs {b.id}"})
                    continue
                va, rows = series_of(a)
                vb, _ = series_of(b)
                if va is None or vb is None:
                    if (va is None) != (vb is None):
                        out["mismatches"].append({"kind": kind, "id": str(a.id), "what": "values missing in one run"})
                    continue
                va = va[:, k:] if rows else va[k:]
                if va.shape != vb.shape:
                    out["mismatches"].append({"kind": kind, "id": str(a.id), "what": f"shape {va.shape} vs {vb.shape} (rows of the restarted run differ)"})
                    continue
                out["n_series"] += 1
                eq = (va == vb) | (np.isnan(va) & np.isnan(vb))
                if eq.all():
                    continue
                out["exact"] = False
                fin = np.isfinite(va) & np.isfinite(vb)
                own = max(float(np.max(np.abs(va[fin]))) if fin.any() else 0.0, float(np.max(np.abs(vb[fin]))) if fin.any() else 0.0)
                if same:
                    scale, rtol = max(own, 1e-300), rtol_same
                else:
                    scale = max(own, 1.0) if kind == "pars" or (kind == "characs" and a.denominator is not None) else gscale
                    rtol = rtol_diff
                with np.errstate(all="ignore"):
                    d = np.abs(va - vb)
                d = np.where(eq, 0.0, d)
                d = np.where(~fin & ~eq, np.inf, d)
                worst = float(np.max(d)) / scale if np.isfinite(np.max(d)) else math.inf
                out["worst"] = max(out["worst"], worst)
                if worst > rtol:
                    flat = int(np.argmax(d))
                    idx = np.unravel_index(flat, d.shape)
                    ti = int(idx[-1])
                    out["mismatches"].append({"kind": kind, "id": str(a.id), "index": k + ti, "row": int(idx[0]) if rows else None,
                                              "orig": float(va[idx]), "restarted": float(vb[idx]), "rel": worst,
                                              "what": f"{kind[:-1]} {a.id} at original index {k + ti}" + (f" row {int(idx[0])}" if rows else "") + f": original {float(va[idx])!r}, restarted {float(vb[idx])!r} (relative {worst:.3e})"})
    return out


# ----------------------------------------------------------------------------------------------------------
# program sets for generated specs (JSON-able `pspec`)
# ----------------------------------------------------------------------------------------------------------
def gen_pspec(r, spec, force_number=False):
    """Marks some parameters of `spec` targetable (in place) and returns a program-set specification."""
    start, end, dt = spec["settings"]
    pops = spec["pops"]
    stock_comps = [c["name"] for c in spec["comps"] if c["kind"] == "normal"]
    linked = {t[2] for t in spec["transitions"]}
    cand = [p for p in spec["pars"] if not p.get("timed") and p["name"] in linked and p["format"] in ("rate", "probability", "number", "duration", "proportion")]
    if force_number:
        numbers = [p for p in cand if p["format"] == "number" and not any(c["kind"] == "source" and c["name"] == t[0] for t in spec["transitions"] if t[2] == p["name"] for c in spec["comps"])]
        if not numbers:
            return None
        targets = [r.choice(numbers)] + r.sample(cand, min(len(cand), r.choice([0, 1])))
    else:
        if not cand:
            return None
        targets = r.sample(cand, min(len(cand), r.choice([1, 2, 3])))
    names = []
    for p in targets:
        if p["name"] not in names:
            names.append(p["name"])
            p["targetable"] = True
    nprog = r.choice([1, 2, 3])
    programs = []
    for i in range(nprog):
        one_off = r.random() < 0.6
        programs.append({
            "name": f"P{i + 1}",
            "pops": r.sample(pops, r.randint(1, len(pops))),
            "comps": r.sample(stock_comps, r.randint(1, min(3, len(stock_comps)))),
            "spend": r.choice([0.0, 1e3, 1e4, 1e5, round(r.random() * 5e4, 1)]),
            "unit_cost": r.choice([1.0, 10.0, 50.0, round(1 + r.random() * 100, 2)]),
            "one_off": one_off,
            "capacity": r.choice([None, None, 100.0, 2000.0]),
            "saturation": r.choice([None, None, 0.8, 0.5]),
        })
    covouts = []
    fmt = {p["name"]: p["format"] for p in spec["pars"]}
    for pn in names:
        for pop in pops:
            if r.random() < 0.8:
                f = fmt[pn]
                if f == "number":
                    val = lambda: round(r.random() * 0.5, 3)  # noqa: E731
                elif f in ("rate", "probability"):
                    val = lambda: round(r.random() * 0.3, 3)  # noqa: E731
                elif f == "duration":
                    val = lambda: round(0.5 + r.random() * 4, 2)  # noqa: E731
                else:
                    val = lambda: round(r.random(), 3)  # noqa: E731
                progs = {p["name"]: val() for p in programs if r.random() < 0.7} or {programs[0]["name"]: val()}
                covouts.append({"par": pn, "pop": pop, "baseline": val() if r.random() < 0.7 else 0.0, "progs": progs, "cov_interaction": r.choice(["additive", "random", "nested"])})
    if not covouts:
        return None
    nsteps = int(round((end - start) / dt))
    dyadic = float(dt) in (1.0, 0.5, 0.25, 0.125) and float(start) == math.floor(start * 4) / 4
    opts = ["before", "between", "after_end"] + (["at_start", "on_grid"] if dyadic else [])
    how = r.choice(opts)
    j = r.randint(1, max(1, nsteps - 1))
    year = {"before": start - 1.0, "at_start": float(start), "on_grid": start + j * dt, "between": start + (j - 0.5) * dt, "after_end": end + 5.0}[how]
    stop = None
    if r.random() < 0.3 and how != "after_end":
        j2 = r.randint(j, nsteps)
        stop = start + (j2 + 0.5) * dt if not dyadic or r.random() < 0.5 else start + j2 * dt
        if stop < year:
            stop = None
    return {"programs": programs, "covouts": covouts, "instr": {"start": year, "stop": stop, "how": how}}


def build_progset(pspec, fw, data, tstart):
    import atomica as at
    from atomica.programs import Covout, ProgramInstructions, ProgramSet
    from atomica.utils import TimeSeries

    ps = ProgramSet.new(tvec=np.array([float(math.floor(tstart))]), progs={p["name"]: p["name"] + " program" for p in pspec["programs"]}, framework=fw, data=data)
    for p in pspec["programs"]:
        prog = ps.programs[p["name"]]
        prog.target_pops = list(p["pops"])
        prog.target_comps = list(p["comps"])
        prog.spend_data = TimeSeries(assumption=float(p["spend"]), units="$/year")
        prog.unit_cost = TimeSeries(assumption=float(p["unit_cost"]), units="$/person (one-off)" if p["one_off"] else "$/person/year")
        if p.get("capacity") is not None:
            prog.capacity_constraint = TimeSeries(assumption=float(p["capacity"]), units="people/year")
        if p.get("saturation") is not None:
            prog.saturation = TimeSeries(assumption=float(p["saturation"]), units="N.A.")
    for c in pspec["covouts"]:
        ps.covouts[(c["par"], c["pop"])] = Covout(par=c["par"], pop=c["pop"], progs=dict(c["progs"]), cov_interaction=c["cov_interaction"], baseline=float(c["baseline"]))
    instr = ProgramInstructions(start_year=float(pspec["instr"]["start"]), stop_year=pspec["instr"].get("stop"))
    return ps, instr


# ----------------------------------------------------------------------------------------------------------
# world = everything needed to run and restart one model
# ----------------------------------------------------------------------------------------------------------
def tail_settings(tvec, dt):
    """ProjectSettings whose time vector is bit for bit the given one (control run: isolates the restart path from the last-bit
    difference between Y+i*dt and start+(k+i)*dt)"""
    import atomica as at

    class TailSettings(at.ProjectSettings):
        def __init__(self, tv, d):
            self._tv = np.array(tv, dtype=float)
            self._sim_start, self._sim_end, self._sim_dt = float(tv[0]), float(tv[-1]), d

        @property
        def tvec(self):
            return self._tv.copy()

    return TailSettings(tvec, dt)


class World:
    def __init__(self, fw, data, settings, progset, instr, make_parset, label):
        self.fw, self.data, self.settings, self.progset, self.instr, self.make_parset, self.label = fw, data, settings, progset, instr, make_parset, label

    def original(self, reset_cache=False):
        ps = self.make_parset()
        m = run_model(self.fw, ps, self.settings, self.progset, self.instr, reset_cache=reset_cache)
        return m, ps

    def restart(self, m, parset_of_m, k, same_object=False, via_sheet=False, exact_grid=False):
        """set_initialization(res, year=t[k]) on a parset, new settings from t[k], run.  Returns (m1, parset1)."""
        import atomica as at

        res = result_of(m, parset_of_m)
        Y = m.t[k]
        ps = parset_of_m if same_object else self.make_parset()
        ps.set_initialization(res, year=Y)
        if via_sheet:
            ss = ps.calibration_spreadsheet()
            ps2 = self.make_parset()
            ps2.load_calibration(ss)
            ps = ps2
        if exact_grid:
            s2 = tail_settings(m.t[k:], self.settings.sim_dt)
        else:
            s2 = at.ProjectSettings(sim_start=Y, sim_end=self.settings.sim_end, sim_dt=self.settings.sim_dt)
        m1 = run_model(self.fw, ps, s2, self.progset, self.instr)
        return m1, ps


def world_from_spec(spec, pspec):
    import atomica as at

    fw, data, parset, settings = genfw.build(spec)
    progset = instr = None
    if pspec:
        progset, instr = build_progset(pspec, fw, data, spec["settings"][0])

    def make_parset():
        ps = at.ParameterSet(fw, data, "default")
        for pname, yf in (spec.get("y_factors") or {}).items():
            for pop, f in yf.items():
                if pop == "_meta":
                    ps.pars[pname].meta_y_factor = float(f)
                else:
                    ps.pars[pname].y_factor[pop] = float(f)
        return ps

    return World(fw, data, settings, progset, instr, make_parset, "generated")


_DEMO = {}


def world_from_demo(name, start, end, dt, prog_start, prog_stop=None):
    import atomica as at
    import sciris as sc

    if name not in _DEMO:
        _DEMO[name] = at.demo(name, do_run=False)
    P = _DEMO[name]
    settings = at.ProjectSettings(sim_start=start, sim_end=end, sim_dt=dt)
    progset = P.progsets[0] if (len(P.progsets) and prog_start is not None) else None
    instr = at.ProgramInstructions(start_year=prog_start, stop_year=prog_stop) if progset is not None else None
    base = P.parsets[0]
    return World(P.framework, P.data, settings, progset, instr, lambda: sc.dcp(base), "demo:" + name)


# ----------------------------------------------------------------------------------------------------------
# model-side correspondence for one restart (Initialization.from_result / apply, flush no-op, mode B on the new run)
# ----------------------------------------------------------------------------------------------------------
def key_ids(net):
    names = {}

    def nid(s):
        if s not in names:
            names[s] = len(names)
        return names[s]

    return [(nid("c:" + c.name), nid("p:" + c.pop.name)) for c in net["comps"]], names


def init_tokens(values, order, name_id, collapse=False):
    """wire form of an Initialization.values dict; `order` = list of keys"""
    parts = [str(len(order))]
    for kk in order:
        v = values[kk]
        k1 = "_" if (isinstance(kk[0], float) and math.isnan(kk[0])) else str(name_id("c:" + str(kk[0])))
        k2 = "_" if (isinstance(kk[1], float) and math.isnan(kk[1])) else str(name_id("p:" + str(kk[1])))
        if np.isscalar(v) or np.ndim(v) == 0:
            parts.append(f"{k1} {k2} s 1 {q(float(v))}")
        else:
            vs = [float(z) for z in np.asarray(v).ravel()]
            parts.append(f"{k1} {k2} v {len(vs)}" + ("" if not vs else " " + " ".join(q(z) for z in vs)))
    return " ".join(parts)


def lean_restart_corr(sub, m0, net0, k, m1, ps1, key, spec_for_replay):
    """from_result/apply against the model, the restarted run's flush and steps against the engine model"""
    nt = genfw.net_tokens(net0)
    net1 = genfw.extract_net(m1)
    sub.hyp_checked += 1
    if genfw.net_tokens(net1) == nt:
        sub.hyp_held += 1
    else:
        sub.brk("correspondence", "the restarted model's net (kinds, rows, links, junction order) differs from the original's", case=key)
        return
    keys, names = key_ids(net0)

    def name_id(s):
        if s not in names:
            names[s] = len(names)
        return names[s]

    sub.hyp_checked += 1
    if len(set(keys)) == len(keys):
        sub.hyp_held += 1
    else:
        sub.brk("correspondence", "two compartments share a (name, population) key", case=key)
        return
    ktok = " ".join(f"{a} {b}" for a, b in keys)
    stock_k = genfw.snapshot_stock(m0, k)
    if any(not math.isfinite(v) for rows in stock_k for v in rows):
        sub.count("init.skipped_nonfinite")
        return
    init = ps1.initialization
    order = list(init.values.keys())
    reqs = [
        f"init-save {nt} {ktok} " + " ".join(q(v) for rows in stock_k for v in rows),
        f"init-apply {nt} {ktok} " + init_tokens(init.values, order, name_id),
    ]
    reps = core.drive(reqs)
    expect = init_tokens(init.values, order, name_id)
    if reps[0] == expect:
        sub.count("init.save_match")
    else:
        sub.brk("correspondence", f"Initialization.from_result differs from the model's fromResult at index {k}: impl `{expect[:120]}` model `{reps[0][:120]}`", case=key, spec=spec_for_replay)
    pre = m1._verif_preflush.get("stock")
    if reps[1].startswith("ok") and pre is not None:
        st = [unq(x) for x in reps[1][3:].split()]
        flat = [v for rows in pre for v in rows]
        if len(st) == len(flat) and all(core.close(a, b, rtol=0.0) for a, b in zip(st, flat)):
            sub.count("init.apply_match")
        else:
            sub.brk("correspondence", f"Initialization.apply: stock at index 0 of the new run differs from the model's applyInit (restart index {k})", case=key, spec=spec_for_replay)
    else:
        sub.brk("correspondence", f"model applyInit replied {reps[1][:40]} where the implementation applied the table", case=key, spec=spec_for_replay)
    # start-up flush of the restarted run: the model (and the theorem) say it is the identity
    post = genfw.snapshot_stock(m1, 0)
    if pre is not None:
        if pre == post:
            sub.count("flush.noop_on_restart")
        else:
            sub.brk("correspondence", f"the start-up flush of the restarted run moved people (restart index {k}) although flush_noop_of_empty applies", case=key, spec=spec_for_replay)
    for b in engine_corr.compare_flush(sub, m1, net1):
        sub.brk("correspondence", "mode B (restarted run) flush: " + b["what"], case=key, spec=spec_for_replay)
    brs = engine_corr.compare_trace(sub, None, m1, net1, key)
    sub.count("modeB.restarted_run")
    if brs:
        # a step-level disagreement that the *original* run shows at the same absolute index is not about restarting
        # (engine_corr scales a junction link by the junction's own stock, 0: rounding residue of 1e-11 of a 1e6 population trips it)
        shared = {(b["stage"], b["t"]) for b in engine_corr.compare_trace(sub, None, m0, net0, key)}
        own = [b for b in brs if (b["stage"], b["t"] + k) not in shared]
        sub.count("modeB.break_shared_with_original", len(brs) - len(own))
        for b in own[:3]:
            sub.brk("correspondence", f"mode B (restarted run) {b['stage']}: {b['what']}", case=key, spec=spec_for_replay)


# ----------------------------------------------------------------------------------------------------------
# one model: restarts at several indices + chains; triage of mismatches
# ----------------------------------------------------------------------------------------------------------
def junction_empty_at(m, k):
    from atomica import model as M

    return all(float(c.vals[k]) == 0.0 for pop in m.pops for c in pop.comps if isinstance(c, M.JunctionCompartment))


def programs_state(world, m, k):
    if world.progset is None:
        return "none"
    s = world.instr.start_year
    e = world.instr.stop_year
    Y = m.t[k]
    if s > m.t[-1]:
        return "never"
    if s <= Y and (e is None or e >= Y):
        return "active_before_Y"
    if s > Y:
        return "start_after_Y"
    return "stopped_before_Y"


def triage(sub, world, m0, k_total, m_last, cmp, key, replay):
    """A restarted run differs from the tail of the original: find out whether it is the stale source-popsize cache (D14)."""
    sub.disagreements_checked += 1
    mm = cmp["mismatches"][0]
    what = f"{world.label}: run restarted at index {k_total} (year {float(m0.t[k_total])!r}) does not continue the original: " + "; ".join(x["what"] for x in cmp["mismatches"][:3]) + (f" (+{len(cmp['mismatches']) - 3} more)" if len(cmp["mismatches"]) > 3 else "")
    vkey = {"api": "ParameterSet.set_initialization+Model.process", "case": "restart-differs", "kind": mm.get("kind")}
    if world.progset is not None and mm.get("kind") != "grid":
        try:
            m0fix, _ = world.original(reset_cache=True)
            cfix = compare_runs(m0fix, m_last, k_total)
            if not cfix["mismatches"]:
                vkey = {"api": "Model.process", "case": "stale-source-popsize-cache-at-index-0"}
                what = "[stale Parameter._source_popsize_cache: the original run's index 0 used source sizes cached before the start-up junction flush; with the cache cleared after flush_junctions the original run equals the restarted one] " + what
        except Exception as e:  # diagnosis only
            sub.notes.append("triage failed: " + repr(e)[:200])
    sub.violation(vkey, what, replay)


def restart_study(sub, world, key, replay, tags, ks=None, chains=None, corr=None, r=None):
    """corr = (net tokens etc.) switch for model-side checks; r = random source"""
    try:
        m0, ps0 = world.original()
    except Exception as e:
        sub.count("orig.failed")
        sub.notes.append(f"original run failed ({world.label}): {type(e).__name__}: {str(e)[:120]}")
        return None
    if has_derivative(m0):
        sub.count("skipped.derivative_parameter")
        return None
    T = len(m0.t)
    net0 = None
    if corr:
        try:
            net0 = genfw.extract_net(m0)
        except ValueError as e:  # parameter units the engine model does not cover (library models)
            sub.count("corr.net_not_extractable")
            corr = False
    if corr:
        sub.hyp_checked += 1
        wf = core.drive([f"ewf {genfw.net_tokens(net0)}"])[0]
        if wf == "true":
            sub.hyp_held += 1
        else:
            sub.brk("correspondence", "extracted net fails wfCheck", case=key)
            corr = False
    finite = all(np.isfinite(np.asarray(c.vals, dtype=float)).all() for pop in m0.pops for c in pop.comps)
    if not finite:
        sub.count("orig.nonfinite")
    pre = m0._verif_preflush.get("stock")
    post = genfw.snapshot_stock(m0, 0)
    if pre is not None and pre != post:
        sub.count("junction.initial_people")
    if ks is None:
        ks = sorted({0, 1, T // 2, max(T - 2, 0), T - 1, r.randrange(T)})
    ks = [k for k in ks if 0 <= k < T]
    did_corr = False
    for k in ks:
        same_obj = bool(r.random() < 0.3) if r else False
        ckey = dict(key, k=k)
        try:
            m1, ps1 = world.restart(m0, ps0, k, same_object=same_obj)
        except Exception as e:
            sub.violation({"api": "ParameterSet.set_initialization+Model.process", "case": "restart-raises", "exc": type(e).__name__},
                          f"{world.label}: restart at index {k} raised {type(e).__name__}: {str(e)[:200]}", dict(replay, ks=[k]))
            continue
        sub.count("parset.same_object" if same_obj else "parset.fresh")
        sub.count("restart.k0" if k == 0 else ("restart.k_last" if k == T - 1 else "restart.k_mid"))
        sub.count("programs." + programs_state(world, m0, k))
        sub.hyp_checked += 1
        if junction_empty_at(m0, k):
            sub.hyp_held += 1
        else:
            sub.count("hyp.junction_nonempty_at_k")
        cmp = compare_runs(m0, m1, k)
        sub.count("grid.identical" if cmp["same_grid"] else "grid.lastbit")
        if cmp["same_grid"] and cmp["exact"]:
            sub.count("compare.bit_identical")
        sub.extra["series_compared"] = sub.extra.get("series_compared", 0) + cmp["n_series"]
        moving = any(not np.array_equal(np.asarray(c.vals)[k:], np.full(T - k, np.asarray(c.vals)[k])) for pop in m0.pops for c in pop.comps) if k < T - 1 else False
        nontrivial = 0 < k < T - 1 and moving and bool(tags & {"has.timed", "has.junction", "has.resjunction", "has.transfer", "programs"})
        sub.case(ckey, nontrivial, sample={"label": world.label, "k": k, "T": T, "settings": [float(world.settings.sim_start), float(world.settings.sim_end), float(world.settings.sim_dt)], "tags": sorted(tags), "same_grid": cmp["same_grid"], "series": cmp["n_series"]})
        if not cmp["same_grid"] and not any(x.get("kind") in ("grid", "structure") for x in cmp["mismatches"]):
            # control: the same restart on the bit-identical tail grid must be (bit-)exact; a deviation of the natural-grid run that the
            # control does not show is the model amplifying the last bit of the time values (a discontinuity), not the restart path
            try:
                m1x, _ = world.restart(m0, ps0, k, exact_grid=True)
                cmpx = compare_runs(m0, m1x, k)
                sub.count("grid.lastbit_control_run")
                if cmpx["same_grid"] and cmpx["exact"]:
                    sub.count("compare.bit_identical")
                if cmpx["mismatches"]:
                    triage(sub, world, m0, k, m1x, cmpx, ckey, dict(replay, ks=[k], exact_grid=True))
                elif cmp["mismatches"]:
                    sub.ambiguous += 1
                    sub.count("grid.lastbit_amplified")
                    if len(sub.notes) < 3:
                        sub.notes.append(f"last-bit grid difference amplified ({world.label}, k={k}): {cmp['mismatches'][0]['what'][:160]}")
            except Exception as e:
                sub.violation({"api": "ParameterSet.set_initialization+Model.process", "case": "restart-raises", "exc": type(e).__name__},
                              f"{world.label}: restart at index {k} on the exact tail grid raised {type(e).__name__}: {str(e)[:200]}", dict(replay, ks=[k], exact_grid=True))
        elif cmp["mismatches"]:
            triage(sub, world, m0, k, m1, cmp, ckey, dict(replay, ks=[k]))
        if corr and not did_corr and finite and 0 < k:
            did_corr = True
            try:
                lean_restart_corr(sub, m0, net0, k, m1, ps1, ckey, replay.get("spec"))
            except core.DriverError as e:
                sub.brk("correspondence", "driver error in restart correspondence: " + str(e)[:200], case=ckey)
    # chains: restart of a restart (of a restart)
    def run_chain(chain, exact):
        m, ps, off, grids_same = m0, ps0, 0, True
        for kk in chain:
            m, ps = world.restart(m, ps, kk, same_object=False, exact_grid=exact)
            grids_same = grids_same and len(m.t) == len(m0.t) - off - kk and bool(np.array_equal(m.t, m0.t[off + kk:]))
            off += kk
        return m, off, grids_same

    for chain in chains or []:
        if sum(chain) >= T:
            continue
        ckey = dict(key, chain=list(chain))
        try:
            m, off, grids_same = run_chain(chain, False)
            cmp = compare_runs(m0, m, off, force_diff=not grids_same)  # an intermediate run on a last-bit-different grid passes its rounding on
            if not grids_same and not any(x.get("kind") in ("grid", "structure") for x in cmp["mismatches"]):
                mx, _, gs = run_chain(chain, True)
                cmpx = compare_runs(m0, mx, off)
                sub.count("grid.lastbit_control_run")
                if cmpx["mismatches"]:
                    m, cmp = mx, cmpx
                elif cmp["mismatches"]:
                    sub.ambiguous += 1
                    sub.count("grid.lastbit_amplified")
                    cmp = cmpx
        except Exception as e:
            sub.violation({"api": "ParameterSet.set_initialization+Model.process", "case": "restart-raises", "exc": type(e).__name__},
                          f"{world.label}: chain {chain} raised {type(e).__name__}: {str(e)[:200]}", dict(replay, chains=[list(chain)]))
            continue
        sub.count(f"chain.{len(chain)}")
        sub.case(ckey, 0 < off < T - 1 and bool(tags & {"has.timed", "has.junction", "has.resjunction", "has.transfer", "programs"}),
                 sample={"label": world.label, "chain": list(chain), "T": T})
        if cmp["mismatches"]:
            triage(sub, world, m0, off, m, cmp, ckey, dict(replay, chains=[list(chain)]))
    return m0


def spec_tags(spec, pspec, m0=None):
    tags = set()
    kinds = [c["kind"] for c in spec["comps"]]
    if "junction" in kinds:
        tags.add("has.junction")
    if any(p.get("timed") for p in spec["pars"]):
        tags.add("has.timed")
    if spec.get("transfers") and len(spec["pops"]) > 1:
        tags.add("has.transfer")
    if pspec and pspec["instr"]["how"] != "after_end":
        tags.add("programs")
    return tags


def gen_chains(r, T):
    out = []
    if T >= 4:
        a = r.randint(1, max(1, T // 3))
        b = r.randint(1, max(1, (T - a) // 2))
        out.append([a, b])
        if T >= 7 and r.random() < 0.6:
            c = r.randint(0, max(0, T - a - b - 1))
            out.append([a, b, c])
    return out


def case_generated(sub, sub_seed, directed=None):
    r = random.Random(sub_seed)
    regime = r.choice(["calibrated", "calibrated", "boundary", "extreme"])
    feats = {"timed": r.choice([1, 2]), "junctions": r.choice([1, 2, 3])}
    if r.random() < 0.5:
        feats["dt"] = r.choice([1.0, 0.5, 0.25])
    if directed == "d14":
        feats.update({"junctions": r.choice([1, 2]), "source": False})
        regime = "calibrated"
    with_prog = directed == "d14" or r.random() < 0.5
    spec = pspec = None
    for _ in range(30):
        spec = genfw.random_spec(r, regime, feats)
        if directed == "d14":
            for c in spec["comps"]:
                if c["kind"] == "junction":
                    c["databook"] = True
                    c["init"] = {pop: round(5 + r.random() * 100, 2) for pop in spec["pops"]}
        pspec = gen_pspec(r, spec, force_number=(directed == "d14")) if with_prog else None
        if directed == "d14":
            if pspec is None:
                continue
            pspec["instr"].update({"start": spec["settings"][0] - 1.0, "stop": None, "how": "before"})
        try:
            world = world_from_spec(spec, pspec)
            world.original()
            break
        except Exception:
            sub.extra["generator_rejections"] = sub.extra.get("generator_rejections", 0) + 1
            spec = None
    if spec is None:
        sub.count("gen.failed")
        return
    sub.count("regime." + regime)
    tags = spec_tags(spec, pspec)
    key = {"family": "generated" if not directed else directed, "sub_seed": sub_seed}
    replay = {"kind": "spec", "spec": spec, "pspec": pspec}
    nsteps = int(round((spec["settings"][1] - spec["settings"][0]) / spec["settings"][2]))
    m0 = restart_study(sub, world, key, replay, tags, chains=gen_chains(r, nsteps + 1), corr=True, r=r)
    if m0 is not None:
        net = genfw.extract_net(m0)
        for tg in engine_corr.nontrivial_features(m0, net):
            if tg.startswith("has."):
                sub.count(tg)


# ----------------------------------------------------------------------------------------------------------
# spreadsheet form
# ----------------------------------------------------------------------------------------------------------
def sheet_cells(ss):
    """cells of the 'Initialization' sheet as the reader sees them (list of rows of python values)"""
    wb = ss.pandas().book
    ws = wb["Initialization"]
    return [[c.value for c in row] for row in ws.rows]


def cells_tokens(rows, name_id, hash_id):
    out = []
    for row in rows:
        toks = []
        for j, v in enumerate(row):
            if v is None:
                toks.append("_")
            elif isinstance(v, str):
                if v in ("year", "init_y_factor_hash", "dt") and j == 0:
                    toks.append("L" + str(["year", "init_y_factor_hash", "dt"].index(v)))
                elif j == 0:
                    toks.append("#" + str(name_id("c:" + v)))
                elif j == 1 and len(v) == 64:
                    toks.append("H" + str(hash_id(v)))
                else:
                    toks.append("#" + str(name_id("p:" + v)))
            else:
                toks.append(q(float(v)))
        out.append(toks)
    return out


def trim(toks):
    toks = list(toks)
    while toks and toks[-1] == "_":
        toks.pop()
    return toks


def case_sheet(sub, sub_seed, single=False, timed_dt=False):
    import atomica as at

    r = random.Random(sub_seed)
    if timed_dt:
        # timed compartments + a step size that is not a 16-digit decimal (weekly, daily, ...): the spreadsheet stores dt to 16 significant digits,
        # the elapsed-time bins of the saved state must still be put back bin by bin
        spec = None
        for _ in range(30):
            dt = r.choice([1 / 52, 1 / 12, 1 / 365, 1 / 6, 1 / 24, 7 / 365])
            spec = genfw.random_spec(r, "calibrated", {"timed": r.choice([1, 2]), "junctions": r.choice([0, 1]), "npops": r.choice([1, 2]), "dt": dt, "max_rows": 10, "nsteps": r.randint(8, 14),
                                                      "duration": dt * r.choice([3, 4, 6, 9])})
            try:
                world_from_spec(spec, None).original()
                break
            except Exception:
                spec = None
        if spec is None:
            sub.count("gen.failed")
            return
        sub.count("sheet.timed_nondecimal_dt")
        sheet_study(sub, spec, r.randrange(3, spec and 8), "sheet-timed", sub_seed, r)
        return
    if single:
        npop = r.choice([2, 3])
        pops = ["pa", "pb", "pc"][:npop]
        dt = r.choice([0.25, 0.5, 0.1])
        spec = {"comps": [{"name": "c0", "kind": "normal", "databook": True, "init": {p: round(10 + r.random() * 500, 2) for p in pops}}], "characs": [], "pars": [], "transitions": [],
                "pops": pops, "transfers": [{"name": "tra0", "units": "rate", "pairs": [[a, b, round(r.random() * 0.5, 3)] for a in pops for b in pops if a != b]}],
                "settings": [2000.0, 2000.0 + 8 * dt, dt], "regime": "single"}
        pspec = None
    else:
        spec = pspec = None
        for _ in range(30):
            spec = genfw.random_spec(r, r.choice(["calibrated", "boundary"]), {"timed": r.choice([0, 1, 2]), "junctions": r.choice([0, 1, 2]), "npops": r.choice([1, 2, 3])})
            try:
                world_from_spec(spec, None).original()
                break
            except Exception:
                spec = None
        if spec is None:
            sub.count("gen.failed")
            return
    sheet_study(sub, spec, None, "sheet-single" if single else "sheet", sub_seed, r)


def sheet_study(sub, spec, k, family, sub_seed, r):
    import atomica as at

    world = world_from_spec(spec, None)
    m0, ps0 = world.original()
    T = len(m0.t)
    if k is None:
        k = r.randrange(1, T) if T > 1 else 0
    key = {"family": family, "sub_seed": sub_seed, "k": k}
    replay = {"kind": "sheet", "spec": spec, "k": k, "family": family, "sub_seed": sub_seed}
    if not all(np.isfinite(np.asarray(c.vals, dtype=float)).all() for pop in m0.pops for c in pop.comps):
        sub.count("sheet.skipped_nonfinite")
        return
    res = result_of(m0, ps0)
    psA = world.make_parset()
    psA.set_initialization(res, year=m0.t[k])
    try:
        ss = psA.calibration_spreadsheet()
        psB = world.make_parset()
        psB.load_calibration(ss)
    except Exception as e:
        sub.violation({"api": "ParameterSet.calibration_spreadsheet/load_calibration", "case": "raises", "exc": type(e).__name__}, f"spreadsheet round trip of a saved initialization raised {type(e).__name__}: {str(e)[:200]}", replay)
        return
    sub.count("sheet.roundtrip")
    a, b = psA.initialization, psB.initialization
    if b is None:
        sub.violation({"api": "ParameterSet.load_calibration", "case": "initialization-dropped"}, "the loaded parameter set has no initialization", replay)
        return
    nontrivial = any(np.ndim(v) > 0 and len(v) > 1 for v in a.values.values()) or len(spec["pops"]) > 1
    if any(np.ndim(v) > 0 and len(v) > 1 for v in a.values.values()):
        sub.count("sheet.vector_rows")
    sub.case(key, nontrivial, sample={"family": key["family"], "k": k, "n_entries": len(a.values), "pops": spec["pops"]})
    # ---- oracle: same keys, values to 16 significant digits, same shapes (a 1-row vector may come back as a scalar)
    bad = []
    lost = [kk for kk in a.values if kk not in b.values]
    if lost:
        nan_keys = [kk for kk in b.values if any(isinstance(z, float) and math.isnan(z) for z in kk)]
        case = "merged-index-cells" if nan_keys else "keys-lost"
        sub.violation({"api": "Initialization.to_excel/from_excel", "case": case},
                      f"saved initialization loses entries in the spreadsheet round trip: {lost[:4]} missing, loaded keys {list(b.values.keys())[:6]} (a compartment whose name repeats the one of the row above is written into a merged index cell and read back as NaN; apply() then initialises it to 0)", replay)
    for kk, va in a.values.items():
        if kk not in b.values:
            continue
        x, y = np.atleast_1d(np.asarray(va, dtype=float)), np.atleast_1d(np.asarray(b.values[kk], dtype=float))
        if x.shape != y.shape:
            bad.append(f"{kk}: shape {x.shape} -> {y.shape}")
        elif not np.all(np.abs(x - y) <= RT_SHEET * np.abs(x)):
            bad.append(f"{kk}: {x.tolist()[:3]} -> {y.tolist()[:3]}")
    if bad:
        sub.violation({"api": "Initialization.to_excel/from_excel", "case": "values-differ"}, "saved initialization changes in the spreadsheet round trip beyond 16 significant digits: " + "; ".join(bad[:3]), replay)
    if b.year is None or abs(float(b.year) - float(a.year)) > 1e-9 or b.dt is None or abs(float(b.dt) - float(a.dt)) > 1e-12:
        sub.violation({"api": "Initialization.to_excel/from_excel", "case": "metadata"}, f"year/dt metadata {a.year!r},{a.dt!r} -> {b.year!r},{b.dt!r}", replay)
    # ---- restart from the loaded table continues the original run (to spreadsheet precision)
    if not lost:
        s2 = at.ProjectSettings(sim_start=m0.t[k], sim_end=world.settings.sim_end, sim_dt=world.settings.sim_dt)
        try:
            m1 = run_model(world.fw, psB, s2)
            cmp = compare_runs(m0, m1, k, rtol_diff=1e-9, force_diff=True)
            sub.count("sheet.restart_compared")
            if cmp["mismatches"] and not any(x.get("kind") in ("grid", "structure") for x in cmp["mismatches"]):
                # control: the unrounded table with every entry moved by one unit in the 16th digit; if that deviates as well the model
                # amplifies rounding-size changes of the state and the sheet is not to blame
                psC = world.make_parset()
                psC.set_initialization(res, year=m0.t[k])
                rr = random.Random(sub_seed + 1)
                psC.initialization.values = {kk: np.asarray(v, dtype=float) * (1 + rr.choice([-1, 1]) * 2.2e-16) for kk, v in psC.initialization.values.items()}
                psC.initialization.values = {kk: (float(v) if v.ndim == 0 else v) for kk, v in psC.initialization.values.items()}
                mC = run_model(world.fw, psC, s2)
                if compare_runs(m0, mC, k, rtol_diff=1e-9, force_diff=True)["mismatches"]:
                    sub.ambiguous += 1
                    sub.count("sheet.rounding_amplified")
                    cmp["mismatches"] = []
            if cmp["mismatches"]:
                sub.violation({"api": "ParameterSet.load_calibration+Model.process", "case": "restart-from-sheet-differs"}, "run restarted from the spreadsheet form does not continue the original: " + cmp["mismatches"][0]["what"], replay)
        except Exception as e:
            sub.violation({"api": "ParameterSet.load_calibration+Model.process", "case": "restart-raises", "exc": type(e).__name__}, f"restart from the spreadsheet form raised {type(e).__name__}: {str(e)[:200]}", replay)
    # ---- model: layout written (toTable / toTableCurrent) and parsed (fromTable)
    names, hashes = {}, {}

    def name_id(s):
        if s not in names:
            names[s] = len(names)
        return names[s]

    def hash_id(s):
        if s not in hashes:
            hashes[s] = len(hashes)
        return hashes[s]

    order = list(a.values.keys())
    itok = init_tokens(a.values, order, name_id)
    meta = f"{q(float(a.year))} {('_' if a.init_y_factor_hash is None else str(hash_id(a.init_y_factor_hash)))} {q(float(a.dt))}"
    rows = sheet_cells(ss)
    ctoks = cells_tokens(rows, name_id, hash_id)
    reps = core.drive([f"init-table 0 {meta} {itok}", f"init-table 1 {meta} {itok}", "init-untable " + " | ".join(" ".join(t) for t in ctoks)])

    def same_layout(rep):
        mrows = [x.split() for x in rep.split(" | ")] if rep else []
        mrows = [[] if x == [""] else x for x in mrows]
        irows = [trim(t) for t in ctoks]
        if len(mrows) != len(irows):
            return f"{len(irows)} rows in the sheet, {len(mrows)} in the model"
        for i, (mr, ir) in enumerate(zip(mrows, irows)):
            if len(mr) != len(ir):
                return f"row {i}: sheet {ir[:6]} model {mr[:6]}"
            for x, y in zip(mr, ir):
                if x == y:
                    continue
                if x[0] in "_#LH" or y[0] in "_#LH":
                    return f"row {i}: sheet cell {y} model cell {x}"
                if not core.close(unq(x), float(unq(y)), rtol=RT_SHEET):
                    return f"row {i}: sheet number {float(unq(y))!r} model {float(unq(x))!r}"
        return None

    specd = same_layout(reps[0])
    cur = same_layout(reps[1])
    if specd is None:
        sub.count("sheet.layout_model_match")      # the sheet is what toTable specifies
    elif cur is None:
        sub.count("sheet.layout_merged_cells")     # the sheet is what toTableCurrent describes (merged index cells); the oracle above reports the lost keys
        if not lost:
            sub.brk("correspondence", "sheet layout differs from toTable although no entry was lost: " + specd, case=key, spec=spec)
    else:
        sub.brk("correspondence", "sheet layout matches neither toTable (" + specd + ") nor toTableCurrent (" + cur + ")", case=key, spec=spec)
    # parse side: fromTable on the very cells == from_excel
    border = list(b.values.keys())
    expect = "ok " + f"{q(float(b.year))} {('_' if not isinstance(b.init_y_factor_hash, str) else str(hash_id(b.init_y_factor_hash)))} {q(float(b.dt))} " + init_tokens(b.values, border, name_id)
    if reps[2] == expect:
        sub.count("sheet.parse_model_match")
    else:
        sub.brk("correspondence", f"Initialization.from_excel differs from the model's fromTable on the same cells: impl `{expect[:160]}` model `{reps[2][:160]}`", case=key, spec=spec)
    sub.traces += 1


# ----------------------------------------------------------------------------------------------------------
# library models
# ----------------------------------------------------------------------------------------------------------
DEMOS_QUICK = ["udt", "usdt", "tb_simple"]
DEMOS_THOROUGH = ["udt", "usdt", "tb_simple", "hypertension", "hiv"]


def case_demo(sub, sub_seed, name):
    r = random.Random(sub_seed)
    import atomica as at

    if name not in _DEMO:
        _DEMO[name] = at.demo(name, do_run=False)
    P = _DEMO[name]
    s0 = float(P.settings.sim_start)
    if name == "tb":
        dt = 0.5
        start, end = s0, s0 + r.choice([3, 4])
    else:
        dt = r.choice([1.0, 0.5, 0.25])
        start, end = s0, min(float(P.settings.sim_end), s0 + r.choice([5, 7]))
    nsteps = int(round((end - start) / dt))
    how = r.choice(["before", "at_start", "on_grid", "between", "none"]) if name != "tb" else r.choice(["at_start", "at_start", "before", "on_grid", "none"])
    j = r.randint(1, max(1, nsteps - 1))
    prog_start = {"before": start - 1, "at_start": start, "on_grid": start + j * dt, "between": start + (j - 0.5) * dt, "none": None}[how]
    prog_stop = None
    if prog_start is not None and r.random() < 0.25:
        prog_stop = start + r.randint(j, nsteps) * dt
    world = world_from_demo(name, start, end, dt, prog_start, prog_stop)
    tags = {"programs"} if prog_start is not None else set()
    if name == "tb":
        tags |= {"has.junction", "has.transfer"}
    key = {"family": "demo", "demo": name, "sub_seed": sub_seed}
    replay = {"kind": "demo", "demo": name, "settings": [start, end, dt], "prog_start": prog_start, "prog_stop": prog_stop}
    sub.count("demo." + name)
    T = nsteps + 1
    ks = sorted({0, 1, r.randrange(T), T - 1}) if name != "tb" else sorted({0, r.randrange(1, T)})
    chains = gen_chains(r, T)[:1] if name != "tb" else []
    restart_study(sub, world, key, replay, tags, ks=ks, chains=chains, corr=(name != "tb" and r.random() < 0.5), r=r)


# ----------------------------------------------------------------------------------------------------------
# driver
# ----------------------------------------------------------------------------------------------------------
def do_job(job):
    import logging

    import atomica

    logging.getLogger("atomica").setLevel(logging.ERROR)
    atomica.logger.setLevel(logging.ERROR)
    kind, sub_seed, tier, seed, arg = job
    sub = Sub(tier, seed)
    try:
        if kind == "gen":
            case_generated(sub, sub_seed)
        elif kind == "d14":
            case_generated(sub, sub_seed, directed="d14")
        elif kind == "sheet":
            case_sheet(sub, sub_seed)
        elif kind == "single":
            case_sheet(sub, sub_seed, single=True)
        elif kind == "sheett":
            case_sheet(sub, sub_seed, timed_dt=True)
        elif kind == "demo":
            case_demo(sub, sub_seed, arg)
    except core.DriverError as e:
        sub.brk("correspondence", f"driver error in job {kind}/{sub_seed}: {str(e)[:200]}")
    except Exception:
        sub.notes.append(f"job {kind}/{sub_seed} raised: " + traceback.format_exc()[-600:])
        sub.count("job.raised")
    return sub


def run(ctx):
    r = ctx.rng
    jobs = []
    for _ in range(ctx.n(14, 420)):
        jobs.append(("gen", r.randrange(1 << 30), ctx.tier, ctx.seed, None))
    for _ in range(ctx.n(3, 60)):
        jobs.append(("d14", r.randrange(1 << 30), ctx.tier, ctx.seed, None))
    for _ in range(ctx.n(5, 150)):
        jobs.append(("sheet", r.randrange(1 << 30), ctx.tier, ctx.seed, None))
    for _ in range(ctx.n(1, 12)):
        jobs.append(("single", r.randrange(1 << 30), ctx.tier, ctx.seed, None))
    for _ in range(ctx.n(3, 60)):
        jobs.append(("sheett", r.randrange(1 << 30), ctx.tier, ctx.seed, None))
    for name in (DEMOS_QUICK if ctx.quick else DEMOS_THOROUGH):
        for _ in range(ctx.n(1, 6)):
            jobs.append(("demo", r.randrange(1 << 30), ctx.tier, ctx.seed, name))
    for _ in range(ctx.n(1, 4)):
        jobs.append(("demo", r.randrange(1 << 30), ctx.tier, ctx.seed, "tb"))
    t0 = time.time()
    if ctx.quick and N_WORKERS <= 1:
        subs = [do_job(j) for j in jobs]
    else:
        import multiprocessing as mp

        # tb first (longest), then the rest; results are merged in job order so the evidence does not depend on scheduling
        order = sorted(range(len(jobs)), key=lambda i: (jobs[i][0] != "demo" or jobs[i][4] != "tb", i))
        with mp.get_context("fork").Pool(min(N_WORKERS, len(jobs))) as pool:
            res = pool.map(do_job, [jobs[i] for i in order], chunksize=1)
        subs = [None] * len(jobs)
        for i, s in zip(order, res):
            subs[i] = s
    for s in subs:
        s.merge_into(ctx)
    ctx.extra["jobs"] = len(jobs)
    ctx.extra["jobs_wall_s"] = round(time.time() - t0, 1)
    raised = ctx.branches.get("job.raised", 0)
    if raised:
        ctx.brk("correspondence", f"{raised} job(s) raised inside the check machinery (see notes)")


def replay(ctx, data):
    """Re-run one failing case; exit 1 if it still fails."""
    import logging

    import atomica

    atomica.logger.setLevel(logging.ERROR)
    rp = data["replay"]
    sub = Sub("quick", 0)
    r = random.Random(0)
    if rp["kind"] == "spec":
        world = world_from_spec(rp["spec"], rp.get("pspec"))
        restart_study(sub, world, {"replay": True}, rp, spec_tags(rp["spec"], rp.get("pspec")), ks=rp.get("ks") or [], chains=rp.get("chains") or [], corr=False, r=r)
    elif rp["kind"] == "demo":
        world = world_from_demo(rp["demo"], *rp["settings"], rp["prog_start"], rp.get("prog_stop"))
        restart_study(sub, world, {"replay": True}, rp, set(), ks=rp.get("ks") or [], chains=rp.get("chains") or [], corr=False, r=r)
    elif rp["kind"] == "sheet":
        sheet_study(sub, rp["spec"], rp["k"], rp.get("family", "sheet"), rp.get("sub_seed", 0), r)
    for v in sub.violations:
        print("FAILS:", v["key"], v["what"][:400])
    if not sub.violations:
        print("replay: the case passes")
    return 1 if sub.violations else 0


if __name__ == "__main__":
    core.main(sys.modules[__name__])
