"""
C15 translator: Python AST of the bracketed procedures -> `Atomica.Protocol.Bracket.Stmt` skeletons.

Kept per function (see lean/AtomicaModel/Protocol/Bracket.lean):
  * `v = <obj>.settings.<f>`            -> save v f
  * `<obj>.settings.<f> = v` (v saved)  -> restore f v
  * `<obj>.settings.<f> = <expr>`       -> setNew f          (preceded by `call` when <expr> contains a call)
  * in-place modification of an object   -> write <owner>     (attribute/subscript assignment, known mutator helpers,
                                                               list/dict mutating methods)
  * if / for / while / try-except-finally / raise / return structure
  * everything else                      -> call              (adjacent calls merged)

Ownership of objects (for `write`): parameters and anything reached through them -> caller:<param>; names bound to
`x.copy()`, `sc.dcp(x)`, `deepcopy(x)`, `_convert_to_single_year(x, ..)` -> copy; literals and constructed objects -> fresh.
The classification is syntactic and flow-insensitive within straight-line code (documented as trusted; backed at run
time by the deep comparison of caller objects in harness/props/c15.py).
"""
from __future__ import annotations

import ast
import hashlib
from pathlib import Path

FIELD_IDS = {"sim_start": 0, "sim_end": 1, "sim_dt": 2}
CLOBBER_FIELD = 99

COPY_FUNCS = {"dcp", "deepcopy", "_convert_to_single_year", "copy"}
# helper -> index of the positional argument that is modified in place
MUTATOR_FUNCS = {"_update_parset": 0, "_update_progset": 2}
MUTATOR_METHODS_ARG = {"update_instructions": 1, "constrain_instructions": 0}
MUTATING_METHODS = {"append", "extend", "insert", "pop", "remove", "update", "clear", "setdefault", "sort", "reverse", "popitem"}
MODULE_NAMES = {"np", "sc", "pd", "logger", "logging", "pickle", "atomica", "scipy", "math", "functools", "hyperopt", "pyswarm"}

TARGETS = [
    ("calibrate", "atomica/calibration.py", None, "calibrate"),
    ("runOptimization", "atomica/project.py", "Project", "run_optimization"),
    ("projectCalibrate", "atomica/project.py", "Project", "calibrate"),
    ("reconcile", "atomica/reconciliation.py", None, "reconcile"),
    ("optimize", "atomica/optimization.py", None, "optimize"),
]


class Untranslatable(Exception):
    pass


def _is_settings_attr(node):
    """<expr>.settings.<f>  -> field name"""
    if isinstance(node, ast.Attribute) and isinstance(node.value, ast.Attribute) and node.value.attr == "settings":
        return node.attr
    return None


def _has_call(node):
    return any(isinstance(n, ast.Call) for n in ast.walk(node))


def _simple_test(node):
    """tests that cannot reasonably raise: names, constants, `is None`, boolean combinations of those"""
    if isinstance(node, (ast.Name, ast.Constant)):
        return True
    if isinstance(node, ast.UnaryOp) and isinstance(node.op, ast.Not):
        return _simple_test(node.operand)
    if isinstance(node, ast.BoolOp):
        return all(_simple_test(v) for v in node.values)
    if isinstance(node, ast.Compare) and all(isinstance(o, (ast.Is, ast.IsNot, ast.Eq, ast.NotEq)) for o in node.ops):
        return _simple_test(node.left) and all(_simple_test(c) for c in node.comparators)
    return False


def _field_id(name):
    if name not in FIELD_IDS:
        FIELD_IDS[name] = 10 + len([k for k in FIELD_IDS if FIELD_IDS[k] >= 10])
    return FIELD_IDS[name]


class FnTranslator:
    def __init__(self, fn: ast.FunctionDef):
        self.fn = fn
        self.params = [a.arg for a in fn.args.posonlyargs + fn.args.args + fn.args.kwonlyargs]
        if fn.args.vararg:
            self.params.append(fn.args.vararg.arg)
        if fn.args.kwarg:
            self.params.append(fn.args.kwarg.arg)
        self.env = {p: ("caller", p) for p in self.params}
        self.dict_keys: dict = {}   # name -> {key: classification}
        self.saved: dict = {}       # name -> (var id, field name)
        self.var_ids: dict = {}

    # ---- ownership -----------------------------------------------------------------------------------------
    def root(self, node):
        if isinstance(node, ast.Name):
            if node.id in self.env:
                return self.env[node.id]
            if node.id in MODULE_NAMES:
                return ("fresh",)
            return ("caller", "global:" + node.id)
        if isinstance(node, ast.Attribute):
            return self.root(node.value)
        if isinstance(node, ast.Subscript):
            if isinstance(node.value, ast.Name) and node.value.id in self.dict_keys and isinstance(node.slice, ast.Constant):
                return self.dict_keys[node.value.id].get(node.slice.value, ("fresh",))
            return self.root(node.value)
        if isinstance(node, ast.Call):
            f = node.func
            fname = f.attr if isinstance(f, ast.Attribute) else (f.id if isinstance(f, ast.Name) else None)
            if fname in COPY_FUNCS:
                return ("copy",)
            if fname and fname[:1].isupper():
                return ("fresh",)   # constructor
            if isinstance(f, ast.Attribute):
                base = f.value
                while isinstance(base, (ast.Attribute, ast.Subscript, ast.Call)):
                    base = base.value if not isinstance(base, ast.Call) else base.func
                if isinstance(base, ast.Name) and base.id in MODULE_NAMES:
                    return ("fresh",)
                r = self.root(f.value)
                if r[0] != "fresh":
                    return r
            for a in list(node.args) + [k.value for k in node.keywords]:
                r = self.root(a)
                if r[0] == "caller":
                    return r
            return ("fresh",)
        if isinstance(node, ast.IfExp):
            a, b = self.root(node.body), self.root(node.orelse)
            return a if a[0] == "caller" else b
        if isinstance(node, ast.Starred):
            return self.root(node.value)
        return ("fresh",)

    def bind(self, target, value):
        cls = self.root(value) if value is not None else ("fresh",)
        if isinstance(target, ast.Name):
            self.env[target.id] = cls
            self.dict_keys.pop(target.id, None)
            if isinstance(value, ast.Dict):
                self.env[target.id] = ("fresh",)
                self.dict_keys[target.id] = {k.value: self.root(v) for k, v in zip(value.keys, value.values) if isinstance(k, ast.Constant)}
        elif isinstance(target, (ast.Tuple, ast.List)):
            for t in target.elts:
                self.bind(t, value)

    def write_stmt(self, node):
        r = self.root(node)
        if r[0] == "caller":
            return ("write", "caller", r[1])
        return ("write", r[0])

    # ---- statements ----------------------------------------------------------------------------------------
    def label(self, node):
        names = []
        for n in ast.walk(node):
            if isinstance(n, ast.Call):
                f = n.func
                names.append(f.attr if isinstance(f, ast.Attribute) else (f.id if isinstance(f, ast.Name) else "?"))
        return ",".join(dict.fromkeys(names))[:120]

    def call(self, node):
        return ("call", self.label(node))

    def var_id(self, name):
        if name not in self.var_ids:
            self.var_ids[name] = len(self.var_ids)
        return self.var_ids[name]

    def block(self, stmts):
        out = [self.stmt(s) for s in stmts]
        return seq_of(out)

    def stmt(self, s):
        if isinstance(s, ast.Expr) and isinstance(s.value, ast.Constant):
            return ("skip",)
        if isinstance(s, (ast.Pass, ast.Import, ast.ImportFrom, ast.FunctionDef, ast.Global, ast.Nonlocal)):
            return ("skip",)
        if isinstance(s, ast.Assign):
            out = []
            tgt_fields = [(_is_settings_attr(t), t) for t in s.targets]
            if any(f for f, _ in tgt_fields):
                if len(s.targets) != 1:
                    raise Untranslatable("chained assignment to settings")
                f = tgt_fields[0][0]
                if isinstance(s.value, ast.Name) and s.value.id in self.saved and self.saved[s.value.id][1] == f:
                    return ("restore", _field_id(f), self.saved[s.value.id][0])
                pre = [self.call(s.value)] if _has_call(s.value) else []
                return seq_of(pre + [("setnew", _field_id(f))])
            vf = _is_settings_attr(s.value)
            if vf and len(s.targets) == 1 and isinstance(s.targets[0], ast.Name):
                name = s.targets[0].id
                v = self.var_id(name)
                self.saved[name] = (v, vf)
                self.env[name] = ("fresh",)
                return ("save", v, _field_id(vf))
            if not isinstance(s.value, (ast.Constant, ast.Name)) or any(not isinstance(t, ast.Name) for t in s.targets):
                out.append(self.call(s))
            for t in s.targets:
                for n in ([t] if not isinstance(t, (ast.Tuple, ast.List)) else t.elts):
                    if isinstance(n, ast.Name):
                        if n.id in self.saved:   # a saved value is overwritten: it no longer holds the entry value
                            out.append(("save", self.saved.pop(n.id)[0], CLOBBER_FIELD))
                    elif isinstance(n, (ast.Attribute, ast.Subscript)):
                        out.append(self.write_stmt(n))
                self.bind(t, s.value)
            return seq_of(out)
        if isinstance(s, ast.AugAssign):
            f = _is_settings_attr(s.target)
            if f:
                return seq_of([self.call(s), ("setnew", _field_id(f))])
            out = [self.call(s)]
            if isinstance(s.target, (ast.Attribute, ast.Subscript)):
                out.append(self.write_stmt(s.target))
            elif isinstance(s.target, ast.Name) and s.target.id in self.saved:
                out.append(("save", self.saved.pop(s.target.id)[0], CLOBBER_FIELD))
            return seq_of(out)
        if isinstance(s, ast.AnnAssign):
            if s.value is None:
                return ("skip",)
            return self.stmt(ast.Assign(targets=[s.target], value=s.value))
        if isinstance(s, ast.Expr):
            out = [self.call(s)]
            v = s.value
            if isinstance(v, ast.Call):
                f = v.func
                fname = f.attr if isinstance(f, ast.Attribute) else (f.id if isinstance(f, ast.Name) else None)
                if isinstance(f, ast.Name) and fname in MUTATOR_FUNCS and len(v.args) > MUTATOR_FUNCS[fname]:
                    out.append(self.write_stmt(v.args[MUTATOR_FUNCS[fname]]))
                elif isinstance(f, ast.Attribute) and fname in MUTATOR_METHODS_ARG and len(v.args) > MUTATOR_METHODS_ARG[fname]:
                    out.append(self.write_stmt(v.args[MUTATOR_METHODS_ARG[fname]]))
                elif isinstance(f, ast.Attribute) and fname in MUTATING_METHODS:
                    out.append(self.write_stmt(f.value))
            return seq_of(out)
        if isinstance(s, ast.Return):
            pre = [self.call(s.value)] if s.value is not None and _has_call(s.value) else []
            return seq_of(pre + [("ret",)])
        if isinstance(s, ast.Raise):
            return ("raise",)
        if isinstance(s, ast.Assert):
            return self.call(s)
        if isinstance(s, ast.If):
            pre = [] if _simple_test(s.test) else [self.call(s.test)]
            # branches are translated with copies of the environment, then merged conservatively
            env0, dk0, sv0 = dict(self.env), dict(self.dict_keys), dict(self.saved)
            a = self.block(s.body)
            env1, dk1, sv1 = self.env, self.dict_keys, self.saved
            self.env, self.dict_keys, self.saved = dict(env0), dict(dk0), dict(sv0)
            b = self.block(s.orelse)
            self._merge(env1, dk1, sv1)
            return seq_of(pre + [("ite", a, b)])
        if isinstance(s, (ast.For, ast.While)):
            pre = []
            if isinstance(s, ast.For):
                pre = [self.call(s.iter)] if _has_call(s.iter) else []
                self.bind(s.target, s.iter)
            elif not _simple_test(s.test):
                pre = [self.call(s.test)]
            env0, dk0, sv0 = dict(self.env), dict(self.dict_keys), dict(self.saved)
            body = self.block(s.body)
            if not isinstance(s, ast.For) and not _simple_test(s.test):
                body = seq_of([body, self.call(s.test)])
            self._merge(env0, dk0, sv0)
            out = pre + [("loop", body)]
            if s.orelse:
                out.append(self.block(s.orelse))
            return seq_of(out)
        if isinstance(s, ast.Try):
            body = self.block(s.body)
            t = body
            if s.handlers:
                catch_all = False
                hs = []
                for h in s.handlers:
                    if h.type is None or (isinstance(h.type, ast.Name) and h.type.id in ("Exception", "BaseException")):
                        catch_all = True
                    hs.append(self.block(h.body))
                hb = hs[-1]
                for x in reversed(hs[:-1]):
                    hb = ("ite", x, hb)
                t = ("tryexcept", catch_all, body, hb)
            if s.orelse:
                # `else:` runs only after a normal body and is not covered by the handlers.  Over-approximation that
                # contains every real path: the else-block may or may not run after the try/except.
                t = seq_of([t, ("ite", self.block(s.orelse), ("skip",))])
            if s.finalbody:
                t = ("tryfinally", t, self.block(s.finalbody))
            return t
        if isinstance(s, (ast.With, ast.AsyncWith)):
            raise Untranslatable("with-statement is not modelled")
        if isinstance(s, (ast.Break, ast.Continue)):
            return ("skip",)   # only shortens a loop, which already runs an arbitrary number of times (body prefix covered by `call` raising)
        return self.call(s)

    def _merge(self, env1, dk1, sv1):
        """after a branch/loop: a name is caller-owned if it is in either environment; saved only if in both"""
        for k, v in env1.items():
            cur = self.env.get(k)
            if cur is None or (v[0] == "caller" and cur[0] != "caller") or (v[0] == "copy" and cur[0] == "fresh"):
                self.env[k] = v
        for k in list(self.dict_keys):
            if k not in dk1:
                self.dict_keys.pop(k)
        for k in list(self.saved):
            if k not in sv1 or sv1[k] != self.saved[k]:
                self.saved.pop(k)

    def translate(self):
        return simplify(self.block(self.fn.body))


# ---- tree utilities --------------------------------------------------------------------------------------------
def seq_of(items):
    flat = []
    for it in items:
        if it[0] == "seq":
            flat.extend(flatten(it))
        elif it[0] != "skip":
            flat.append(it)
    if not flat:
        return ("skip",)
    out = flat[-1]
    for it in reversed(flat[:-1]):
        out = ("seq", it, out)
    return out


def flatten(t):
    if t[0] == "seq":
        return flatten(t[1]) + flatten(t[2])
    return [t]


def simplify(t):
    k = t[0]
    if k == "seq":
        items = [simplify(x) for x in flatten(t)]
        items = [y for x in items for y in flatten(x)]
        out = []
        for it in items:
            if it[0] == "skip":
                continue
            if it[0] == "call" and out and out[-1][0] == "call":
                out[-1] = ("call", ",".join(dict.fromkeys(x for x in (out[-1][1] + "," + it[1]).split(",") if x and x != "stmt"))[:200])
                continue
            out.append(it)
            if it[0] in ("ret", "raise"):
                break   # unreachable code after return/raise
        return seq_of(out)
    if k == "ite":
        a, b = simplify(t[1]), simplify(t[2])
        if a == b and a[0] in ("skip", "call"):
            return a
        if a[0] in ("skip", "call") and b[0] in ("skip", "call"):
            return ("call", a[1] if a[0] == "call" else b[1])   # may or may not raise: a call
        return ("ite", a, b)
    if k == "loop":
        b = simplify(t[1])
        return ("skip",) if b[0] == "skip" else ("loop", b)
    if k == "tryfinally":
        return ("tryfinally", simplify(t[1]), simplify(t[2]))
    if k == "tryexcept":
        return ("tryexcept", t[1], simplify(t[2]), simplify(t[3]))
    if k == "write" and t[1] == "fresh":
        return ("skip",)   # modification of an object created inside the function: not observable by the caller
    return t


def wire(t) -> list[str]:
    k = t[0]
    if k in ("skip", "raise", "ret"):
        return [k]
    if k == "call":
        return ["call"]
    if k == "save":
        return ["save", str(t[1]), str(t[2])]
    if k == "setnew":
        return ["setnew", str(t[1])]
    if k == "restore":
        return ["restore", str(t[1]), str(t[2])]
    if k == "write":
        return ["writecaller", t[2].replace(" ", "_")] if t[1] == "caller" else ["write" + t[1]]
    if k in ("seq", "ite", "tryfinally"):
        return [k] + wire(t[1]) + wire(t[2])
    if k == "loop":
        return ["loop"] + wire(t[1])
    if k == "tryexcept":
        return ["tryexcept", "1" if t[1] else "0"] + wire(t[2]) + wire(t[3])
    raise ValueError(k)


def lean(t, ind=2) -> str:
    k = t[0]
    pad = " " * ind
    if k in ("skip", "raise", "ret"):
        return "." + k
    if k == "call":
        lab = (t[1] or "stmt").replace("\\", "").replace('"', "'")
        return f'.call "{lab}"'
    if k == "save":
        return f".save {t[1]} {t[2]}"
    if k == "setnew":
        return f".setNew {t[1]}"
    if k == "restore":
        return f".restore {t[1]} {t[2]}"
    if k == "write":
        if t[1] == "caller":
            return f'.write (.caller "{t[2].replace(" ", "_")}")'
        return f".write .{t[1]}"
    if k in ("seq", "ite", "tryfinally"):
        name = {"seq": "seq", "ite": "ite", "tryfinally": "tryFinally"}[k]
        return f".{name}\n{pad}({lean(t[1], ind + 2)})\n{pad}({lean(t[2], ind + 2)})"
    if k == "loop":
        return f".loop\n{pad}({lean(t[1], ind + 2)})"
    if k == "tryexcept":
        return f".tryExcept\n{pad}({lean(t[2], ind + 2)})\n{pad}({lean(t[3], ind + 2)})\n{pad}{'true' if t[1] else 'false'}"
    raise ValueError(k)


def find_function(tree, cls, name):
    body = tree.body
    if cls is not None:
        for n in body:
            if isinstance(n, ast.ClassDef) and n.name == cls:
                body = n.body
                break
        else:
            raise Untranslatable(f"class {cls} not found")
    for n in body:
        if isinstance(n, ast.FunctionDef) and n.name == name:
            return n
    raise Untranslatable(f"function {name} not found")


def translate_all(repo: Path):
    """returns {lean_name: {"tree", "wire", "file", "lines", "sha"}}"""
    out = {}
    for lean_name, rel, cls, fname in TARGETS:
        src = (repo / rel).read_text()
        tree = ast.parse(src)
        fn = find_function(tree, cls, fname)
        seg = ast.get_source_segment(src, fn) or ""
        t = FnTranslator(fn).translate()
        out[lean_name] = {
            "tree": t,
            "wire": wire(t),
            "file": rel,
            "py": (cls + "." if cls else "") + fname,
            "lines": (fn.lineno, fn.end_lineno),
            "sha": hashlib.sha256(seg.encode()).hexdigest()[:12],
        }
    return out


def render_lean(sk: dict) -> str:
    lines = [
        "/-",
        "  GENERATED by harness/props/c15_skeleton.py from the Python AST of the files under core.REPO -- do not edit.",
        "  Skeletons of the procedures that bracket a temporary change of `project.settings` (C15).",
        "-/",
        "import AtomicaModel.Protocol.Bracket",
        "namespace Atomica.Protocol.Generated",
        "open Atomica.Protocol.Bracket",
        "",
    ]
    for name, d in sk.items():
        lines.append(f"/-- {d['file']}: `{d['py']}` (lines {d['lines'][0]}-{d['lines'][1]}, source sha256 {d['sha']}) -/")
        lines.append(f"def {name} : Stmt :=\n  {lean(d['tree'], 4)}")
        lines.append("")
    lines.append("def all : List (String × Stmt) :=\n  [" + ", ".join(f'("{n}", {n})' for n in sk) + "]")
    lines.append("")
    fields = ", ".join(f'({v}, "{k}")' for k, v in sorted(FIELD_IDS.items(), key=lambda kv: kv[1]))
    lines.append(f"def fieldNames : List (Nat × String) := [{fields}]")
    lines.append("")
    lines.append("end Atomica.Protocol.Generated")
    return "\n".join(lines) + "\n"


def regenerate(repo: Path, lean_dir: Path) -> dict:
    sk = translate_all(repo)
    txt = render_lean(sk)
    f = lean_dir / "AtomicaModel" / "Generated" / "Brackets.lean"
    f.parent.mkdir(parents=True, exist_ok=True)
    if not f.exists() or f.read_text() != txt:
        f.write_text(txt)
    return sk


if __name__ == "__main__":
    import sys
    repo = Path(sys.argv[1] if len(sys.argv) > 1 else "/repo")
    sk = translate_all(repo)
    print(render_lean(sk))
    for n, d in sk.items():
        print(n, " ".join(d["wire"]))
