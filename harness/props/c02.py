"""
C02 -- Stocks and flows stay non-negative, finite, and never over-drawn.

Theorems: lean/AtomicaProofs/Properties/C02.lean about Atomica.Engine (convert / resolveFlow / balanceAll / updateComps / step / run).
Correspondence: mode B (vlib.engine_corr: every step of every generated model against one exact model step), with the generator
weighted toward what this property is about (rates >> 1 per step, durations << dt, number flows >> stock, empty compartments,
functions that go negative, several competing outflows, step sizes from a day to a year, junctions whose proportions are all 0).
Oracle: the property's own predicates on the implementation's arrays (engine_corr.oracles C02 part + `c02_oracles` below:
finite, >= 0 per row, out <= stock per compartment and per timed row, cross-multiplied ratio equality, row emptied when the
requests exceed 1, zero flow on every link whose parameter value is negative).
"""
import math
import sys

import numpy as np

from vlib import core, engine_corr, genfw

PROPERTY = "C02"
LEAN_MODS = ["AtomicaProofs.Properties.C02"]
THEOREMS = [
    "Atomica.C02.wf_of_check",
    "Atomica.C02.convert_nonneg",
    "Atomica.C02.convert_nonpos_param",
    "Atomica.C02.neg_param_zero_flow",
    "Atomica.C02.resolve_nonneg",
    "Atomica.C02.resolve_no_overdraw",
    "Atomica.C02.resolve_row0_emptied",
    "Atomica.C02.resolve_common_factor",
    "Atomica.C02.resolve_ratio",
    "Atomica.C02.rescale_exact",
    "Atomica.C02.balance_nonneg",
    "Atomica.C02.balance_unchanged",
    "Atomica.C02.balance_tlink_row0",
    "Atomica.C02.balance_defined_of_wellPosed",
    "Atomica.C02.balance_undefined_iff",
    "Atomica.C02.flows_defined",
    "Atomica.C02.flows_defined_of_wellPosed",
    "Atomica.C02.step_defined_iff",
    "Atomica.C02.step_defined",
    "Atomica.C02.resolve_tlink_row0",
    "Atomica.C02.resolve_facts",
    "Atomica.C02.balance_resolve_facts",
    "Atomica.C02.flows_facts",
    "Atomica.C02.update_clip_nonneg",
    "Atomica.C02.update_nonneg",
    "Atomica.C02.step_nonneg",
    "Atomica.C02.step_no_overdraw",
    "Atomica.C02.step_neg_param_zero_flow",
    "Atomica.C02.step_ratio",
    "Atomica.C02.step_rescale_exact",
    "Atomica.C02.step_clip_inactive",
    "Atomica.C02.run_nonneg",
    "Atomica.C02.run_step_nonneg",
    "Atomica.C02.run_defined",
]
TRUSTED = [
    "floating point: the theorems are exact (rationals); the code is compared with the exact step to 1e-11 relative, and the oracle allows 1e-12 relative over-draw and 1e-9 relative ratio error; overflow/underflow of doubles (inputs ~1e308) is not modelled",
    "the cap min(amount/popsize, 1e100) on number-unit fractions (model.py update_links) is not in the model; it changes nothing unless a requested fraction exceeds 1e100 (then ratios between competing outflows move by < 1e-100 relative)",
    "per-row outflow of ordinary Links leaving a timed compartment is not stored by the implementation (only the row sum): the per-row bound is observed for TimedLinks and through the next state (mode B), the compartment-level bound directly",
]
ASSUMPTIONS = [
    "finite inputs; dt > 0; parameter timescales > 0 (wfCheck, evaluated on every extracted net)",
    "junction proportions are >= 0 (PropsNonneg): a negative proportion gives a negative junction flow in code and model alike; the property's 'negative parameter -> zero flow' is about transition parameters",
    "no plain junction has proportions summing to 0 (WellPosed); proved EQUIVALENT to the step being defined (step_defined). The code gives NaN there even when nobody enters the junction: finding F-C02-junction-zero-proportions (D12)",
]
RULE = (
    "a library of 7 hand-made extreme cases (vanishing duration, rate 1e6, number >> stock with empty compartments, negative values, daily step), then "
    "generated models (vlib.genfw.random_spec; regimes extreme/boundary weighted 2:1 over calibrated; features zero_init, formats weighted to number/duration, "
    "n_tr_extra, neg_fn, dt in [1/365, 1], rarely zero_props) run by the real Model; every step compared with one exact model step and checked by the C02 oracles; "
    "non-trivial = model has a junction, timed compartment, transfer, source, active rescale, zero stock or negative parameter"
)
EXPECTED_BRANCHES = [
    "library.cases", "has.timed", "has.junction", "has.resjunction", "has.source", "has.timedlink", "rescale.active", "param.negative", "stock.zero",
    "c02.step.rescale_active", "c02.step.rescale_active_timed_row", "c02.step.number_exceeds_stock", "c02.step.number_zero_popsize", "c02.step.negative_param",
    "c02.step.duration_lt_dt", "c02.step.empty_source_comp", "c02.step.flush_nonzero", "c02.ratio.pairs_checked", "c02.ratio.pairs_checked_rescaled",
    "c02.dt.day", "c02.dt.year",
]

REL_OVERDRAW = 1e-12
REL_RATIO = 1e-9
FRACTION_CAP = 1e100  # the cap update_links puts on number-unit fractions (fix 699bcb9)
FINDING_FRACTION_OVERFLOW = "F-C02-fraction-overflow-nan"  # proposed known_findings id (see notes/C02.md)
DUST = 1e-150  # stocks / flows below this are floating point dust: products with 1/total underflow (not modelled)


# ----------------------------------------------------------------------------------------------
# generator focus
# ----------------------------------------------------------------------------------------------
def focus(r):
    """features that weight genfw.random_spec toward C02's quantifier"""
    f = {
        "zero_init": r.choice([0.15, 0.3, 0.5]),
        "formats": r.choice([
            ["rate", "probability", "duration", "number", "rate"],
            ["number", "number", "duration", "rate", "probability"],
            ["duration", "duration", "number", "rate"],
            ["number", "number", "rate"],
        ]),
        "n_tr_extra": r.choice([0, 2, 4]),
        "dt": r.choice([1.0, 1.0, 0.5, 0.25, 0.2, 0.1, 1 / 12, 1 / 52, 0.3, 0.7, 1 / 365, 1 / 365, 7 / 365]),
        "nsteps": r.randint(5, 14),
    }
    if r.random() < 0.5:
        f["functions"] = True
        f["neg_fn"] = True
    if r.random() < 0.35:
        f["timed"] = r.choice([1, 2])
    if f["dt"] < 0.2:
        # keep the number of elapsed-time bins small (a 30 year duration with a one-day step would be 10950 exact rows per step)
        f["duration"] = f["dt"] * r.choice([0.3, 1.0, 2.0, 3.5, 6.0, 12.0])
    if r.random() < 0.06:
        f["junctions"] = r.choice([1, 2])
        f["zero_props"] = 0.7
    if f.get("timed") and r.random() < 0.6:
        # junctions inside a duration group (several timed inflows into one junction: a recorded flow larger than the people in its source bin is an over-draw)
        f["group_size"] = r.choice([2, 2, 3])
        f["max_rows"] = 12
        if r.random() < 0.6:
            f["jgroup"] = True
        else:
            f["group_junction"] = 1.0
    return f


# ----------------------------------------------------------------------------------------------
# the property's predicates on the implementation's arrays
# ----------------------------------------------------------------------------------------------
def _fractions(m, net, tot):
    """per link: requested per-step fraction (`link._cache`) recomputed from the recorded parameter values; None for links
    without a transition parameter (flush, junction outflows)"""
    links, kinds = net["links"], net["kinds"]
    src = net["src"]
    T = len(m.t)
    dtv = m.dt
    out = []
    info = []
    for l, link in enumerate(links):
        p = link.parameter
        if p is None or kinds[src[l]] in "jr":
            out.append(None)
            info.append(None)
            continue
        v = np.asarray(p.vals, dtype=float)
        u = net["units"][net["par"][l]]
        ts = float(p.timescale)
        popsize = None
        with np.errstate(all="ignore"):
            if u == "f":
                fr = v * (dtv / ts)
            elif u == "d":
                fr = dtv / (v * ts)
            elif u == "n":
                amt = v * (dtv / ts)
                if kinds[src[l]] == "s":
                    fr = amt
                else:
                    popsize = sum(tot[src[l2]] for l2 in range(len(links)) if links[l2].parameter is p)
                    fr = np.where(popsize != 0, amt / np.where(popsize != 0, popsize, 1.0), 0.0)
                    fr = np.minimum(fr, FRACTION_CAP)  # model.py update_links: min(converted_amt / source_popsize, 1e100)
            else:
                fr = np.zeros(T)
            fr = np.where(v > 0, fr, 0.0)
        out.append(fr)
        info.append((u, v, ts, popsize))
    return out, info


def c02_oracles(ctx, m, net):
    """-> list of (property, key, what). Also records branch counters and evaluates the theorems' hypotheses on the real run."""
    from atomica import model as M

    res = []
    comps, links, kinds = net["comps"], net["links"], net["kinds"]
    src, dst = net["src"], net["dst"]
    nC, nL, T = len(comps), len(links), len(m.t)
    dtv = m.dt
    tot = np.array([np.asarray(c.vals, dtype=float) for c in comps])
    rec = np.array([np.asarray(l.vals, dtype=float) for l in links]) if links else np.zeros((0, T))
    rows = {c: np.asarray(comps[c]._vals, dtype=float) for c in range(nC) if kinds[c] == "t"}
    lrows = {l: np.asarray(links[l]._vals, dtype=float) for l in range(nL) if isinstance(links[l], M.TimedLink)}

    if dtv <= 1 / 300:
        ctx.count("c02.dt.day")
    if dtv >= 1.0:
        ctx.count("c02.dt.year")

    # ---- hypotheses of the theorems on the real inputs: PropsNonneg, WellPosed (per model)
    props_nonneg, well_posed = True, True
    zero_junction_t = {}
    for c in range(nC):
        if kinds[c] in "jr":
            outs = [l for l in range(nL) if src[l] == c and links[l].parameter is not None]
            ps = [np.asarray(links[l].parameter.vals, dtype=float) for l in outs]
            if any((p < 0).any() for p in ps):
                props_nonneg = False
            if kinds[c] == "j":
                s = sum(ps) if ps else np.zeros(T)
                if (np.asarray(s) == 0).any():
                    well_posed = False
                    zero_junction_t[c] = int(np.argmax(np.asarray(s) == 0))
    ctx.hyp_checked += 2
    ctx.hyp_held += int(props_nonneg) + int(well_posed)
    if not well_posed:
        ctx.count("c02.domain.junction_zero_proportions")

    # ---- finite
    finite_t = np.ones(T, dtype=bool)
    for a in [tot, rec] + list(rows.values()) + list(lrows.values()):
        if a.size:
            finite_t &= np.isfinite(a).all(axis=0)
    if not finite_t.all():
        t_bad = int(np.argmax(~finite_t))
        where = [str(comps[c].id) for c in range(nC) if not np.isfinite(tot[c]).all()][:3] + [str(links[l].id) for l in range(nL) if not np.isfinite(rec[l]).all()][:3]
        # cause: a plain junction whose proportions sum to exactly 0 at or before the first bad index (0*p/0 in JunctionCompartment.balance / initial_flush)
        d12 = [c for c, t0 in zero_junction_t.items() if t0 <= t_bad]
        if d12:
            # the junction whose own out-links are non-finite at the first bad index, if there is one
            own = [c for c in d12 if any(not np.isfinite(rec[l, t_bad]) for l in range(nL) if src[l] == c)]
            c = (own or d12)[0]
            inflow_c = sum((rec[l] for l in range(nL) if dst[l] == c), np.zeros(T))
            pre = (getattr(m, "_verif_preflush", None) or {}).get("stock")
            # people put into the junction by the initialisation, or passed on to it by another junction during the initial
            # flush (only `initial_flush` can make a *stock* at index 0 non-finite): flushed with p/0
            held = bool(pre is not None and pre[c][0] > 0) or (t_bad == 0 and not np.isfinite(tot[:, 0]).all())
            receives = held or bool(np.nan_to_num(inflow_c[: t_bad + 1], nan=0.0).max() > 0)
            res.append(("C02", {"oracle": "finite", "cause": "junction-zero-proportions", "receives_people": receives},
                        f"NaN/inf from index {t_bad} ({where}) although inputs are finite: plain junction {comps[c].id} has proportions summing to 0 "
                        f"({'people flow into it' if receives else 'NOBODY flows into it: 0*0/0'})"))
        else:
            # cause: a requested fraction that overflows (duration so small that value*timescale underflows to 0, rate so large
            # that value*dt/timescale overflows): cache = inf, rescale = 1/inf = 0, flow = inf*0 = NaN
            cause, detail = "other", ""
            fr_, info_ = _fractions(m, net, tot)
            for l in range(nL):
                if fr_[l] is not None and info_[l][0] in "fd" and not np.isfinite(fr_[l][t_bad]):
                    cause = "fraction-overflow"
                    detail = f"; link {links[l].id}: parameter value {info_[l][1][t_bad]!r} (units {info_[l][0]}, timescale {info_[l][2]!r}, dt {dtv!r}) converts to the fraction {fr_[l][t_bad]!r}"
                    res.append(("C02", {"oracle": "finite", "cause": cause, "units": info_[l][0]}, f"NaN/inf from index {t_bad} although inputs are finite: {where}{detail}"))
                    break
            if cause == "other":
                res.append(("C02", {"oracle": "finite", "cause": "other"}, f"NaN/inf from index {t_bad} although inputs are finite: {where}"))
        Tf = t_bad  # evaluate the other predicates on the finite prefix only
    else:
        Tf = T
    ctx.hyp_checked += 1
    if Tf == T and (tot >= 0).all():
        ctx.hyp_held += 1  # StockNonneg on every state the run went through
    if Tf == 0:
        return res
    sl = slice(0, Tf)

    outflow = np.zeros((nC, T))
    for l in range(nL):
        outflow[src[l]] += rec[l]

    # ---- non-negative, per row
    neg = []
    for c in range(nC):
        a = rows[c][:, sl] if c in rows else tot[c, sl]
        if (a < 0).any():
            neg.append(f"stock {comps[c].id} min {a.min()!r}")
    for l in range(nL):
        if kinds[src[l]] in "jr" and not props_nonneg:
            continue
        a = lrows[l][:, sl] if l in lrows else rec[l, sl]
        if (a < 0).any():
            neg.append(f"flow {links[l].id} min {a.min()!r}")
    if neg:
        res.append(("C02", {"oracle": "nonneg-row"}, "negative value: " + "; ".join(neg[:3])))

    # ---- never over-drawn: compartment level, and per row for what the implementation stores per row
    for c in range(nC):
        if kinds[c] not in "nt":
            continue
        bad = outflow[c, sl] > tot[c, sl] * (1 + REL_OVERDRAW) + DUST
        if bad.any():
            t = int(np.argmax(bad))
            res.append(("C02", {"oracle": "overdraw", "kind": kinds[c]}, f"compartment {comps[c].id} at index {t}: outflow {outflow[c, t]!r} > stock {tot[c, t]!r}"))
            break
        if (tot[c, sl] == 0).any():
            ctx.count("c02.step.empty_source_comp", int((tot[c, sl] == 0).sum()))
            if (outflow[c, sl][tot[c, sl] == 0] != 0).any():
                res.append(("C02", {"oracle": "overdraw", "kind": kinds[c], "empty": True}, f"compartment {comps[c].id} is empty but has outflow"))
        if c in rows:
            tl = [l for l in range(nL) if src[l] == c and l in lrows]
            if tl:
                per_row = sum(lrows[l][:, sl] for l in tl)
                bad = per_row > rows[c][:, sl] * (1 + REL_OVERDRAW) + DUST
                if bad.any():
                    r_, t = np.argwhere(bad)[0]
                    res.append(("C02", {"oracle": "overdraw-row"}, f"timed compartment {comps[c].id} row {r_} at index {t}: timed-link outflow {per_row[r_, t]!r} > row content {rows[c][r_, t]!r}"))
                if (per_row[0] != 0).any():
                    res.append(("C02", {"oracle": "timed-row0"}, f"timed compartment {comps[c].id}: a TimedLink carries people out of the final subcompartment"))
            # the final subcompartment is emptied: total outflow >= content of row 0
            bad = outflow[c, sl] < rows[c][0, sl] * (1 - 1e-9) - DUST
            if bad.any():
                t = int(np.argmax(bad))
                res.append(("C02", {"oracle": "row0-emptied"}, f"timed compartment {comps[c].id} at index {t}: outflow {outflow[c, t]!r} < content of the final subcompartment {rows[c][0, t]!r}"))
            fl = comps[c].flush_link
            if (np.asarray(fl.vals, dtype=float)[sl] > 0).any():
                ctx.count("c02.step.flush_nonzero", int((np.asarray(fl.vals, dtype=float)[sl] > 0).sum()))

    # ---- requested fractions, rescale branch, ratios, negative parameters
    fracs, info = _fractions(m, net, tot)
    for l in range(nL):
        if info[l] is None:
            continue
        u, v, ts, popsize = info[l]
        vneg = v[sl] < 0
        if vneg.any():
            ctx.count("c02.step.negative_param", int(vneg.sum()))
            a = lrows[l][:, sl] if l in lrows else rec[l, sl][None, :]
            if (a[:, vneg] != 0).any():
                res.append(("C02", {"oracle": "negative-parameter-flow", "kind": kinds[src[l]]}, f"link {links[l].id}: nonzero flow {a[:, vneg].ravel()[np.argmax(a[:, vneg].ravel() != 0)]!r} although the parameter value is negative"))
        if u == "d":
            k = int(((v[sl] > 0) & (v[sl] * ts < dtv)).sum())
            if k:
                ctx.count("c02.step.duration_lt_dt", k)
        if u == "n" and popsize is not None:
            amt = v * (dtv / ts)
            k = int(((v[sl] > 0) & (popsize[sl] > 0) & (amt[sl] > popsize[sl])).sum())
            if k:
                ctx.count("c02.step.number_exceeds_stock", k)
            k = int(((v[sl] > 0) & (popsize[sl] == 0)).sum())
            if k:
                ctx.count("c02.step.number_zero_popsize", k)
                if (rec[l, sl][(v[sl] > 0) & (popsize[sl] == 0)] != 0).any():
                    res.append(("C02", {"oracle": "number-zero-popsize"}, f"link {links[l].id}: flow although nobody is in the source compartments of its number parameter"))
    for c in range(nC):
        if kinds[c] not in "nt":
            continue
        outs = [l for l in range(nL) if src[l] == c and fracs[l] is not None]
        if not outs:
            continue
        plain = [l for l in outs if l not in lrows]
        timed = [l for l in outs if l in lrows]
        f_all = sum(fracs[l] for l in outs)  # rows >= 1 (and the only row of an ordinary compartment)
        f_plain = sum((fracs[l] for l in plain), np.zeros(T))  # row 0 of a timed compartment
        if kinds[c] == "n":
            act = f_all[sl] > 1
            if act.any():
                ctx.count("c02.step.rescale_active", int(act.sum()))
                # rescale is exact: the compartment is emptied
                strong = f_all[sl] > 1 + 1e-9
                d = np.abs(outflow[c, sl] - tot[c, sl])
                with np.errstate(all="ignore"):
                    representable = tot[c, sl] / f_all[sl] > 1e-290  # the code forms (1/requests) * stock: below this it underflows to 0 (nobody leaves)
                bad = strong & (tot[c, sl] > DUST) & representable & (d > 1e-9 * tot[c, sl])
                if bad.any():
                    t = int(np.argmax(bad))
                    res.append(("C02", {"oracle": "rescale-exact"}, f"compartment {comps[c].id} at index {t}: requests sum to {f_all[t]!r} > 1 but outflow {outflow[c, t]!r} != stock {tot[c, t]!r}"))
        else:
            n = rows[c].shape[0]
            k = int((f_all[sl] > 1).sum()) * max(0, n - 1) + int((f_plain[sl] > 1).sum())
            if k:
                ctx.count("c02.step.rescale_active_timed_row", k)
        # ratios: pairs of links of the same class act on the same rows
        for group, per_row in ((plain, False), (timed, True)):
            for i in range(len(group)):
                for j in range(i + 1, len(group)):
                    l1, l2 = group[i], group[j]
                    if per_row:
                        a1, a2 = lrows[l1][1:, sl], lrows[l2][1:, sl]
                        if a1.shape != a2.shape:
                            continue
                    else:
                        a1, a2 = rec[l1, sl][None, :], rec[l2, sl][None, :]
                    lhs = a1 * fracs[l2][sl][None, :]
                    rhs = a2 * fracs[l1][sl][None, :]
                    with np.errstate(all="ignore"):
                        # each flow is trusted to DUST absolute (products with 1/total underflow below that) and REL_RATIO relative
                        ok = np.abs(lhs - rhs) <= REL_RATIO * np.maximum(np.abs(lhs), np.abs(rhs)) + DUST * (fracs[l1][sl] + fracs[l2][sl])[None, :]
                    ok |= (lhs == rhs)
                    # a fraction of 1e100 or more takes everything (up to 1e-100 of the stock) whether or not the conversion caps
                    # it (number units are capped at 1e100 by update_links, rate/duration are not): ratio not evaluated there
                    capped = ~(np.maximum(fracs[l1][sl], fracs[l2][sl]) < FRACTION_CAP)
                    if capped.any():
                        ctx.count("c02.ratio.fraction_cap_active", int(capped.sum()))
                        ok |= capped[None, :]
                    both = (fracs[l1][sl] > 0) & (fracs[l2][sl] > 0)
                    ctx.count("c02.ratio.pairs_checked", int(both.sum()))
                    resc = both & ((f_all[sl] > 1) if (kinds[c] == "n" or per_row) else (f_plain[sl] > 1))
                    if resc.any():
                        ctx.count("c02.ratio.pairs_checked_rescaled", int(resc.sum()))
                    if not ok.all():
                        r_, t = np.argwhere(~ok)[0]
                        res.append(("C02", {"oracle": "ratio", "kind": kinds[c], "timedlinks": per_row},
                                    f"links {links[l1].id} / {links[l2].id} at index {t}: flows {a1[r_, t]!r} : {a2[r_, t]!r} but requested fractions {fracs[l1][t]!r} : {fracs[l2][t]!r}"))
                        break
                else:
                    continue
                break
    return res


def install_oracles(ctx):
    """engine_corr.run_stream calls `engine_corr.oracles(m, net)`; add the C02 predicates above to its result and give the
    'finite' violation a key that tells the known junction case (D12) from any other NaN."""
    base = getattr(engine_corr, "_c02_base_oracles", None) or engine_corr.oracles
    engine_corr._c02_base_oracles = base

    def oracles_plus(m, net):
        out, illposed = base(m, net)
        mine = c02_oracles(ctx, m, net)
        if any(k.get("oracle") == "finite" for (_, k, _) in mine):
            out = [o for o in out if not (o[0] == "C02" and o[1].get("oracle") == "finite")]
            # domain restriction of C01/C02: a plain junction that receives (or initially holds) people has sum(p) > 0.
            # Those runs are ill-posed and flagged by NaN; the nobody-flows-in case (0*0/0) is inside the domain and kept.
            if any(o[1].get("oracle") == "finite" and o[1].get("receives_people") for o in mine):
                mine = [o for o in mine if not (o[1].get("oracle") == "finite" and o[1].get("receives_people"))]
                illposed = True
        return out + mine, illposed

    engine_corr.oracles = oracles_plus


REGIMES = ("extreme", "boundary", "extreme", "calibrated", "boundary", "extreme")


def _hook_stream():
    """every (sub-)context that runs the stream -- the main one or a forked worker's -- gets the C02 oracles bound to it"""
    if getattr(engine_corr, "_c02_hooked", False):
        return
    orig = engine_corr._run_stream

    def run_with_c02_oracles(ctx, *a, **k):
        install_oracles(ctx)
        return orig(ctx, *a, **k)

    engine_corr._run_stream = run_with_c02_oracles
    engine_corr._c02_hooked = True


def _par(name, fmt, value, timescale=None, function=None):
    return {"name": name, "format": fmt, "timescale": timescale, "function": function, "min": None, "max": None, "timed": False, "targetable": False,
            "databook": function is None, "value": {} if function is not None else {"pa": value}}


def _spec(comps, pars, transitions, dt=1.0, nsteps=4):
    return {"comps": [{"name": n, "kind": k, "databook": k == "normal", "init": {"pa": v} if k == "normal" else None} for (n, k, v) in comps],
            "characs": [{"name": "alive", "components": [n for (n, k, v) in comps if k == "normal"], "denominator": None, "databook": False}],
            "pars": pars, "transitions": transitions, "pops": ["pa"], "transfers": [], "settings": [2000, 2000 + nsteps * dt, dt], "regime": "library"}


def library():
    """hand-made extreme cases of the property's quantifier, run through the same mode B + oracles as the generated stream"""
    two = [("c0", "normal", 100.0), ("c1", "normal", 10.0)]
    three = two + [("c2", "normal", 0.0)]
    return {
        "duration-vanishing": _spec(two, [_par("du0", "duration", 1e-320), _par("ra1", "rate", 0.1)], [["c0", "c1", "du0"], ["c1", "c0", "ra1"]]),
        "duration-1e-300": _spec(two, [_par("du0", "duration", 1e-300), _par("ra1", "rate", 0.1)], [["c0", "c1", "du0"], ["c1", "c0", "ra1"]]),
        "rate-1e6-two-links": _spec(three, [_par("ra0", "rate", 1e6), _par("ra1", "rate", 3e6), _par("ra2", "rate", 0.5)], [["c0", "c1", "ra0"], ["c0", "c2", "ra1"], ["c1", "c0", "ra2"]]),
        "number-exceeds-empty": _spec(three, [_par("nu0", "number", 1e9), _par("nu1", "number", 50.0), _par("ra2", "rate", 0.2)], [["c0", "c1", "nu0"], ["c2", "c0", "nu1"], ["c1", "c2", "ra2"]]),
        "negative-rate": _spec(three, [_par("ra0", "rate", -2.0), _par("ra1", "rate", 0.3), _par("nu2", "number", -5.0)], [["c0", "c1", "ra0"], ["c1", "c0", "ra1"], ["c0", "c2", "nu2"]]),
        "negative-function": _spec(three, [_par("ra0", "rate", None, function="0.5*(c2-c0)/(alive+1)"), _par("ra1", "rate", 0.3), _par("ra2", "rate", 0.4)], [["c0", "c1", "ra0"], ["c1", "c0", "ra1"], ["c1", "c2", "ra2"]]),
        # the databook total is 5e-7 short of the parts entered: the solve gives c2 = -5e-7, inside the 1e-6 tolerance, so the run is accepted -- and must start from 0, not from -5e-7
        "init-negative-within-tolerance": dict(_spec(three, [_par("ra0", "rate", 0.2), _par("ra1", "rate", 0.3), _par("ra2", "rate", 0.4)], [["c0", "c1", "ra0"], ["c1", "c0", "ra1"], ["c2", "c0", "ra2"]]),
                                               comps=[{"name": "c0", "kind": "normal", "databook": True, "init": {"pa": 600.0}}, {"name": "c1", "kind": "normal", "databook": True, "init": {"pa": 400.0000005}},
                                                      {"name": "c2", "kind": "normal", "databook": False, "init": None}],
                                               characs=[{"name": "alive", "components": ["c0", "c1", "c2"], "denominator": None, "databook": True, "init": {"pa": 1000.0}}]),
        "daily-step": _spec(three, [_par("ra0", "rate", 400.0), _par("du1", "duration", 0.001), _par("nu2", "number", 1e5)], [["c0", "c1", "ra0"], ["c0", "c2", "du1"], ["c1", "c0", "nu2"]], dt=1 / 365, nsteps=6),
    }


def run_library(ctx):
    install_oracles(ctx)
    for name, spec in library().items():
        key = {"library": name}
        try:
            m = genfw.run(spec, capture_preflush=True)
        except Exception as e:  # the library is meant to be accepted by atomica
            ctx.brk("correspondence", f"library case {name}: atomica refused it: {type(e).__name__}: {e}", stage="wf", case=key)
            continue
        net = genfw.extract_net(m)
        ctx.count("library.cases")
        ctx.case(key, nontrivial=True)
        ctx.hyp_checked += 1
        if core.drive([f"ewf {genfw.net_tokens(net)}"])[0] != "true":
            ctx.brk("correspondence", f"library case {name}: extracted net fails wfCheck", stage="wf", case=key)
            continue
        ctx.hyp_held += 1
        brs = engine_corr.compare_trace(ctx, spec, m, net, key) + engine_corr.compare_flush(ctx, m, net)
        ors, illposed = engine_corr.oracles(m, net)
        for (p_, okey, what) in ors:
            if p_ == PROPERTY and not (illposed and okey.get("oracle") == "finite"):
                ctx.violation({"api": "Model.process", **okey}, f"library case {name}: {what}", {"spec": spec, "case": key, "how": "vlib.genfw.run(spec) then vlib.engine_corr.oracles"})
        for b in brs:
            if PROPERTY in engine_corr.STAGE_PROPS.get(b["stage"], set()):
                ctx.disagreements_checked += 1
                ctx.brk("correspondence", f"library case {name}: mode B {b['stage']}: {b['what']}", stage=b["stage"], case=key, spec=spec)


def run(ctx):
    engine_corr.selfcheck_ref(ctx, 2)
    run_library(ctx)
    _hook_stream()
    engine_corr.run_stream(ctx, PROPERTY, ctx.n(100, 3200), regimes=REGIMES, focus=focus, workers=1 if ctx.quick else 10)
    # a mode-B break on a case whose oracle already produced a concrete violation with a classified cause is the same event:
    # name the finding it belongs to, so that a known_findings entry (or the fix) settles both
    causes = {}
    for v in ctx.violations:
        k = v["key"]
        if k.get("oracle") == "finite" and k.get("cause") == "fraction-overflow":
            causes[core.json.dumps(v["replay"].get("case"), sort_keys=True, default=str)] = FINDING_FRACTION_OVERFLOW
    for b in ctx.breaks:
        fid = causes.get(core.json.dumps(b.get("case"), sort_keys=True, default=str))
        if fid and "impl nan" in b.get("what", ""):
            b["finding"] = fid
    ctx.exhaustive = False


def replay(ctx, data):
    """re-run the recorded spec on the implementation, print what the oracles and mode B say; exit 1 if it still fails"""
    rp = data.get("replay") or {}
    if "spec" not in rp:
        br = (data.get("broken") or [{}])[0]
        rp = {"spec": br.get("spec"), "case": br.get("case")}
    if not rp.get("spec"):
        print("nothing to replay in this file")
        return 0
    install_oracles(ctx)
    m = genfw.run(rp["spec"], capture_preflush=True)
    net = genfw.extract_net(m)
    ors, illposed = engine_corr.oracles(m, net)
    brs = engine_corr.compare_trace(ctx, rp["spec"], m, net, rp.get("case")) + engine_corr.compare_flush(ctx, m, net)
    bad = 0
    for (p_, k, what) in ors:
        if p_ == PROPERTY:
            print("ORACLE", k, what)
            bad += 1
    for b in brs:
        if PROPERTY in engine_corr.STAGE_PROPS.get(b["stage"], set()):
            print("MODE-B", b["stage"], b["what"])
            bad += 1
    print(f"replay: kinds={''.join(net['kinds'])} nrows={net['nrows']} links={len(net['links'])} steps={len(m.t)} -> {'FAILS' if bad else 'passes'}")
    return 1 if bad else 0


if __name__ == "__main__":
    core.main(sys.modules[__name__])
