"""
C17 probe -- importable helpers that must be picklable by reference from forked pool workers
(multiprocessing / multiprocess+dill): a Project subclass that records, for every simulation it is asked
to run, *who* ran it (pid, per-process call counter) and *with which sampled inputs*; an Ensemble mapping
function that carries the record through the PlotData reduction.  Nothing in /repo is modified.
"""
import os
import struct

import numpy as np

import atomica as at
from atomica.model import BadInitialization

CALLS = 0  # per-process counter of run_sim calls (forked workers inherit the parent's value; only the order matters)
PENDING = []  # fingerprints of the attempts that failed since the last successful run in this process

SERIES_ATTRS = ["spend_data", "unit_cost", "capacity_constraint", "saturation", "coverage"]  # order of Program.sample


def flat_parset(ps):
    """[(par name, key, TimeSeries)] in ParameterSet.all_pars() x ts.items() order (the order sample() draws in)."""
    out = []
    for par in ps.all_pars():
        for k, ts in par.ts.items():
            out.append((par.name, k, ts))
    return out


def series_values(ts):
    v = [float(x) for x in ts.vals]
    if ts.assumption is not None:
        v.append(float(ts.assumption))
    return v


def parset_values(ps):
    v = []
    for _, _, ts in flat_parset(ps):
        v.extend(series_values(ts))
    return tuple(v)


def covout_interactions(c):
    return getattr(c, "_interactions", {})


def progset_values(pg):
    v = []
    for prog in pg.programs.values():
        for a in SERIES_ATTRS:
            v.extend(series_values(getattr(prog, a)))
    for c in pg.covouts.values():
        v.extend(float(x) for x in c.progs.values())
        v.extend(float(x) for x in covout_interactions(c).values())
    return tuple(v)


def bits(x: float) -> int:
    return struct.unpack("<Q", struct.pack("<d", float(x)))[0]


def is_bad(values, mod: int) -> bool:
    """deterministic function of the sampled inputs standing in for 'these inputs give a bad initialisation'"""
    if not mod:
        return False
    h = 0
    for x in values:
        h = (h * 1000003 + bits(x)) % 2305843009213693951
    return h % mod == 0


class ProbeProject(at.Project):
    """at.Project whose run_sim records pid / call number / sampled inputs on the Result it returns."""

    c17_bad_mod = 0  # when > 0: raise BadInitialization for about 1/mod of the sampled inputs

    def run_sim(self, parset=None, progset=None, progset_instructions=None, store_results=False, result_name=None):
        global CALLS, PENDING
        CALLS += 1
        ps = self.parset(parset)
        pv = parset_values(ps)
        gv = progset_values(progset) if (progset is not None and not isinstance(progset, str)) else ()
        if is_bad(pv + gv, self.c17_bad_mod):
            PENDING.append(pv + gv)
            raise BadInitialization("C17 probe: inputs flagged as bad initialisation")
        try:
            res = super().run_sim(parset=parset, progset=progset, progset_instructions=progset_instructions, store_results=store_results, result_name=result_name)
        except BadInitialization:
            PENDING.append(pv + gv)
            raise
        res._c17 = {"pid": os.getpid(), "call": CALLS, "par": pv, "prog": gv, "failed": PENDING}
        PENDING = []
        return res


def first_output(result):
    pop = result.model.pops[0]
    return pop.comps[0].name, pop.name


def mapping_probe(results, **kwargs):
    """Ensemble mapping function: a small PlotData plus the probe records of the results it reduces."""
    out, pop = first_output(results[0])
    pd = at.PlotData(results, outputs=[out], pops=[pop])
    pd._c17 = [r._c17 for r in results]
    pd._c17_final = [result_signature(r) for r in results]
    return pd


def result_signature(result):
    """Everything a Result reports, as one tuple of floats (all compartments, characteristics, parameters, links)."""
    sig = []
    for pop in result.model.pops:
        for var in pop.comps + pop.characs + pop.pars + pop.links:
            vals = np.asarray(var.vals, dtype=float).ravel()
            sig.append((pop.name, type(var).__name__, var.name, vals.tobytes()))
    return tuple(sig)
