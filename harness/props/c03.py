"""
C03 -- Each step's flows follow the documented unit conversion on an exact dt grid.

Part 1 (this file, `run_grid`): ProjectSettings time grid vs Atomica.Grid (mode A).
Part 2 (`run_engine`, added with the engine model): per-step flows vs Atomica.Engine (mode B).
"""
import sys
from fractions import Fraction

import numpy as np

from vlib import closed_corr, core, engine_corr
from vlib.core import q, unq

PROPERTY = "C03"
LEAN_MODS = ["AtomicaProofs.Properties.C03Grid", "AtomicaProofs.Properties.C03Conv", "AtomicaProofs.Properties.C03Closed", "AtomicaProofs.Properties.C03ClosedExt"]
THEOREMS = [
    # conversion half: the engine computes exactly the documented rule (Spec.*)
    "Atomica.C03.convert_rate", "Atomica.C03.convert_duration", "Atomica.C03.convert_number", "Atomica.C03.convert_number_empty",
    "Atomica.C03.flow_source_number", "Atomica.C03.flow_is_stock_times_fraction", "Atomica.C03.flow_normalised",
    "Atomica.C03.flow_probability", "Atomica.C03.flow_duration", "Atomica.C03.flow_number",
    "Atomica.C03.update_end_snapped",
    "Atomica.C03.update_start_dt",
    "Atomica.C03.update_end_first",
    "Atomica.C03.grid_exact",
    "Atomica.C03.grid_length",
    "Atomica.C03.grid_last_ge",
    "Atomica.C03.grid_last_first",
    "Atomica.C03.grid_prefix",
    # closed loop: whole simulations from the specification alone (Closed.simulate)
    "Atomica.C03.simulate_is_process",
    "Atomica.C03.simulate_is_runFrom",
    "Atomica.C03.closed_total",
    "Atomica.C03.closed_nonneg",
    "Atomica.C03.closed_jempty",
    "Atomica.C03.closedPvs_propsNonneg",
    "Atomica.C03.evalPars_clipped",
    "Atomica.C03.evalPars_fixpoint",
    "Atomica.C03.evalPars_fixpoint_fn",
    "Atomica.C03.evalPars_data",
    "Atomica.C03.evalPars_static",
    "Atomica.C03.evalCharacs_fixpoint",
    "Atomica.C03.simulateN_prefix",
    "Atomica.C03.simulateN_length",
    "Atomica.C03.simulateN_none_mono",
    "Atomica.C03.evalPars_deriv",
    "Atomica.C03.nextD_within",
    # closed loop, extensions (C03ClosedExt): skip windows of parameter scenarios, derivative parameters
    "Atomica.C03.closed_skip_uses_data",                  # inside its window a parameter = clip(interp(data, t) * scale), on every state
    "Atomica.C03.closed_skip_uses_data_val",
    "Atomica.C03.skipped_iff",                            # the window is closed on both sides: lo <= t <= hi
    "Atomica.C03.closed_before_window_unchanged",         # C09: nothing used differs at the indices < m => same first m entries
    "Atomica.C03.closed_stock_at_window_start",           # ... and the stocks of index m
    "Atomica.C03.closed_derivative_value",                # every reader of index i sees value[i]
    "Atomica.C03.closed_derivative_step",                 # value[i+1] = clip(value[i] + scale*f(values of index i)*dt), f on the final values of index i
    "Atomica.C03.closed_derivative_step_val",
    "Atomica.C03.closed_derivative_next_value",
    "Atomica.C03.closed_derivative_run",                  # ... along every run, entry by entry
    "Atomica.C03.closed_derivative_constant",             # f == 0 => constant
    "Atomica.C03.closed_derivative_constant_sim",
    "Atomica.C03.closed_derivative_linear",               # f == c, no limits => v0 + k*scale*c*dt
    "Atomica.C03.evalParsD_fst",
]
TRUSTED = [
    "float rounding of start + k*dt vs numpy.linspace (compared to 1e-9 absolute)",
    "closed loop: extraction of the specification from the built Model + ParameterSet (vlib/closed_corr.extract: dependency resolution as Parameter.set_fcn / Population.get_variable did it, AST serialisation of props/c19.py)",
    "closed loop: float tvec vs exact start + i*dt (C03 grid half), float product y_factor*meta_y_factor, tolerance 1e-6 as the exact rational 1/10^6",
    "closed loop: exact rationals are cut off when a stock needs more than closed_corr.BUDGET_BITS bits; the computed prefix is compared (simulateN_prefix)",
    "closed loop: a skip-window bound that equals a point of the float time vector is sent as the exact grid point of that index, any other bound as the exact float; models where the float grid and the exact grid fall on different sides of a bound are counted ambiguous and not compared",
    "closed loop: the scenario parset is the one ParameterScenario.get_parset returns (pre-interpolated series are an input of the model, their interpolation method is checked by C06/C09)",
]
RULE = "engine: generated models, every step replayed through one exact model step (see C01); grid: cross product of start/end pairs x step sizes (incl. non-representable and non-dividing); non-trivial = span not an exact float multiple of dt or dt not a dyadic rational"
RULE = RULE + "; " + (
"closed loop: small generated models (<= 3 ordinary compartments per population, <= 2 populations, <= 11 time points, junctions / residual junctions / timed "
        "compartments / sources / sinks / transfers / aggregations, every unit type, functions of compartments, ratio characteristics, parameters and time, limits and scale factors); "
        "the real Model is processed and every stock row and link flow of every index is compared with csim (rtol 1e-8 + dust 1e-11 x people); non-trivial = a parameter of the run is "
        "state-dependent, aggregated, clipped, scaled or time-varying, or people move between populations; 40 % of the models carry derivative parameters (constant / zero / state-dependent / "
        "self-referencing rates, rates that read a dynamic function parameter of the same index, limits that the Euler steps reach, accumulators read by link-driving parameters and "
        "link-driving derivative parameters), 40 % parameter scenarios on function parameters (skip windows: linear / stepped, first year before the run / on / off the grid / first / last "
        "point, one or several populations, windows closed again on / off the grid), 25 % a second population type with cross-type aggregations (SRC_POP_AVG / SUM with and without "
        "interaction and weighting variable) driving a transition of the other type; direct oracles on a disagreement: skip-window value, derivative recurrence / initial value / straight "
        "line, no effect before the first scenario year (re-run without the scenario), two-type model must build when its first type alone does")
EXPECTED_BRANCHES = ["grid.divides", "grid.nondividing", "grid.dt_inexact", "rescale.active", "has.transfer", "has.source", "param.timevarying", "step.compared",
                     "closed.compared_models", "fn.dynamic", "fn.precompute", "fn.of_compartment", "fn.of_characteristic", "fn.of_ratio_characteristic", "fn.of_parameter", "fn.limits", "data.limits", "par.scaled", "par.timescale", "par.several_links", "link.several_parameters", "data.timevarying", "units.fraction", "units.duration", "units.number", "units.proportion", "has.transfer", "has.timed", "has.junction", "has.resjunction", "has.source", "rescale.active",
                     "deriv.any", "deriv.moves", "deriv.self_reference", "deriv.read_by_link_parameter", "deriv.drives_link", "deriv.limit_reached", "deriv.constant_rate",
                     "scen.par.dynamic", "scen.par.precompute", "scen.first_year.on_grid", "scen.first_year.off_grid", "scen.interp.linear", "scen.interp.previous", "scen.several_pops",
                     "scen.window_closed.on_grid", "scen.par.drives_link", "types.two", "types.cross_aggregation.interaction", "types.cross_aggregation.drives_link", "types.cross.SRC_POP_AVG", "types.cross.SRC_POP_SUM"]

STARTS_ENDS = [(2000, 2035), (2000, 2001), (2000, 2000.5), (1990, 2030), (2010.5, 2020), (2000, 2040), (2015, 2018), (2000.25, 2010.75), (2000, 2100), (1999, 2000.1)]
DTS = [1.0, 0.5, 0.25, 0.2, 0.1, 1 / 12, 1 / 52, 1 / 365, 0.3, 0.7, 0.05, 0.125, 1 / 3, 0.4, 0.15, 2.0, 7 / 365, 0.6, 1 / 24, 0.35, 0.01, 1 / 6, 0.9, 1.5, 0.45]


def grid_cases(ctx):
    cases = [(s, e, dt) for (s, e) in STARTS_ENDS for dt in DTS]
    r = ctx.rng
    for _ in range(ctx.n(100, 3000)):
        s = r.choice([2000, 2000.5, 1995, 2010.25, 2000 + r.randint(0, 20)])
        span = r.choice([r.randint(1, 40), r.random() * 30 + 0.1, r.randint(1, 10) + r.choice([0.5, 0.25, 0.1])])
        dt = r.choice(DTS + [r.choice([1, 2, 3, 5, 7]) / r.choice([4, 8, 10, 12, 16, 20, 30, 52, 100, 365])])
        cases.append((s, s + span, dt))
    # an end year a small fraction of a step PAST a grid point on a long span (hundreds of steps): the whole-number-of-steps guard of the sim_end setter is
    # absolute (1e-9 steps), so one more step is needed; a relative guard (np.isclose, seeded change R6-c03-1) rounds down and the run stops before the end year
    cases += [(2000, 2040.0003, 0.1), (2000, 2050.0005, 0.05), (2000.5, 2000.5 + 400.002 * 0.1, 0.1)]
    for _ in range(ctx.n(30, 600)):
        s = r.choice([2000, 2000.5, 1995, 2010.25])
        dt = r.choice([0.1, 0.05, 0.25, 0.2, 1 / 12, 1 / 52, 0.01, 0.125])
        k = r.randint(100, 3000)
        f = k * r.choice([5e-6, 2e-6, 8e-6, 5e-7])
        cases.append((s, s + (k + f) * dt, dt))
        ctx.count("grid.just_past_a_point")
    return cases


def run_project_grid(ctx):
    """the same grid when the times are given to the Project constructor (framework + databook + sim_start / sim_end / sim_dt in one call): the results of the run
    are reported at start + k*dt up to the first point >= end, whatever years the databook covers"""
    import atomica as at

    r = ctx.rng
    for name in (["udt", "sir"] if ctx.quick else ["udt", "sir", "tb_simple", "hypertension"]):
        try:
            P0 = at.demo(name, do_run=False)
        except Exception:
            continue
        first = float(P0.data.tvec[0])
        for _ in range(ctx.n(3, 12)):
            s = first + r.choice([2, 1.5, 5, -3])
            e = s + r.choice([4, 7.5, 12])
            dt = r.choice([1.0, 0.5, 0.25, 0.2])
            key = {"api": "Project.__init__", "demo": name, "start": s, "end": e, "dt": dt}
            try:
                P = at.Project(framework=P0.framework, databook=P0.data.to_spreadsheet(), sim_start=s, sim_end=e, sim_dt=dt, do_run=False)
                tv = np.asarray(P.settings.tvec, dtype=float)
                res = P.run_sim(P.parsets[0], store_results=False)
                rt = np.asarray(res.t, dtype=float)
            except Exception as ex:
                ctx.brk("correspondence", f"Project(..., sim_start={s}, sim_end={e}, sim_dt={dt}) on {name} raised {type(ex).__name__}: {str(ex)[:160]}", case=key)
                continue
            n_model, last_model = core.drive([f"grid {q(s)} {q(e)} {q(dt)}"])[0].split()
            ctx.count("grid.project_constructor")
            ctx.case(key, nontrivial=True)
            ok = len(rt) == int(n_model) and abs(rt[0] - s) <= 1e-9 and abs(rt[-1] - float(unq(last_model))) <= 1e-9 and len(tv) == len(rt)
            if not ok:
                ctx.violation({"api": "Project.__init__", "case": "constructor-times-not-honoured"},
                              f"{name}: Project(framework, databook, sim_start={s}, sim_end={e}, sim_dt={dt}) runs on {len(rt)} points from {rt[0]!r} to {rt[-1]!r}; the requested grid has {n_model} points from {s!r} to {float(unq(last_model))!r}", {"case": key, "kind": "project_grid"})


def run_grid(ctx):
    import atomica as at

    cases = grid_cases(ctx)
    reqs = [f"grid {q(s)} {q(e)} {q(dt)}" for (s, e, dt) in cases]
    reps = core.drive(reqs)
    for (s, e, dt), rep in zip(cases, reps):
        key = {"api": "ProjectSettings.tvec", "start": s, "end": e, "dt": dt}
        try:
            st = at.ProjectSettings(sim_start=s, sim_end=e, sim_dt=dt)
            tv = st.tvec
        except Exception as ex:  # the constructor has no failure mode for dt>0
            ctx.violation(key, f"ProjectSettings raised {type(ex).__name__}: {ex}", {"case": key})
            continue
        n_model, last_model = rep.split()
        n_model = int(n_model)
        last_model = unq(last_model)
        ratio = Fraction(e) - Fraction(s)
        divides = (ratio / Fraction(dt)).denominator == 1
        ctx.count("grid.divides" if divides else "grid.nondividing")
        if Fraction(dt).denominator & (Fraction(dt).denominator - 1) == 0 and Fraction(dt).denominator > 2**40:
            ctx.count("grid.dt_inexact")
        ctx.case(key, nontrivial=not divides or Fraction(dt).denominator > 2**20, sample=key)
        # direct oracle on the implementation (the property's own wording)
        k = np.arange(len(tv))
        exact = s + k * dt
        bad = None
        if len(tv) != n_model:
            bad = f"grid has {len(tv)} points, specification start+k*dt up to the first point >= end has {n_model}"
        elif not np.allclose(tv, exact, rtol=0, atol=1e-9):
            j = int(np.argmax(np.abs(tv - exact)))
            bad = f"t[{j}]={tv[j]!r} but start+{j}*dt={exact[j]!r}"
        elif tv[-1] < e - 1e-9 * dt or (len(tv) > 1 and tv[-2] >= e + 1e-9):
            bad = f"last point {tv[-1]!r} is not the first grid point at or after end={e}"
        elif not core.close(last_model, tv[-1], rtol=0, atol=1e-9):
            bad = f"last point {tv[-1]!r} differs from model {float(last_model)!r}"
        if bad:
            ctx.violation(key, f"ProjectSettings(start={s}, end={e}, dt={dt}).tvec: {bad}; spacing {np.diff(tv)[:2]}", {"case": key, "impl_len": len(tv), "impl_last": float(tv[-1]), "model_len": n_model, "model_last": float(last_model),
                                                                                                                     "script": f"import atomica as at; print(at.ProjectSettings({s},{e},{dt}).tvec)"})
    ctx.exhaustive = False


def run_settings_ops(ctx):
    """Histories of edits on one ProjectSettings object (sim_end=, sim_dt=, sim_start=, update_time_vector) vs the state-machine model."""
    import atomica as at

    r = ctx.rng
    hist = []
    for _ in range(ctx.n(150, 4000)):
        s0 = r.choice([2000, 2000.5, 1995, 2010.25])
        d0 = r.choice([0.25, 0.5, 1.0, 0.2, 0.1, 1 / 12])
        e0 = s0 + r.choice([1, 5, 10.3, 35])
        ops = []
        cur_start = s0
        for _k in range(r.randint(1, 4)):
            kind = r.choice("EDUUU")
            if kind == "E":
                ops.append(("E", s0 + r.choice([1.1, 2, 3.35, 7.77, 10, 20.5])))  # s0 >= every later start
            elif kind == "D":
                ops.append(("D", r.choice(DTS)))
            else:
                ns = r.choice([None, None, None, cur_start, cur_start - 5, cur_start - 4.4, cur_start - 0.6])  # never move the start past the end year (user error, outside the domain); also OFF the old grid
                if ns is not None:
                    cur_start = ns
                ne = r.choice([None, cur_start + 5 + r.choice([1.1, 2, 3.35, 7.77, 10, 20.5])])
                nd = r.choice([None, r.choice(DTS)])
                ops.append(("U", ns, ne, nd))
        hist.append((s0, e0, d0, ops))

    def tok(x):
        return "-" if x is None else q(x)

    reqs = []
    for s0, e0, d0, ops in hist:
        t = [f"gridops {q(s0)} {q(e0)} {q(d0)}"]
        for op in ops:
            t.append(op[0] + " " + " ".join(tok(x) for x in op[1:]))
        reqs.append(" ".join(t))
    reps = core.drive(reqs)
    for (s0, e0, d0, ops), rep in zip(hist, reps):
        key = {"api": "ProjectSettings.history", "start": s0, "end": e0, "dt": d0, "ops": [list(o) for o in ops]}
        st = at.ProjectSettings(sim_start=s0, sim_end=e0, sim_dt=d0)
        last_end_req = e0
        for op in ops:
            if op[0] == "E":
                st.sim_end = op[1]; last_end_req = op[1]
            elif op[0] == "D":
                st.sim_dt = op[1]
            else:
                st.update_time_vector(start=op[1], end=op[2], dt=op[3])
                if op[2] is not None:
                    last_end_req = op[2]
        ms, me, md, mn = rep.split()
        ctx.count("settings.history")
        ctx.case(key, nontrivial=len(ops) > 1 or ops[0][0] == "U", sample=key if ctx.evaluations % 97 == 0 else None)
        tv = st.tvec
        bad = None
        if not core.close(unq(me), st.sim_end, rtol=0, atol=1e-9) or len(tv) != int(mn) or not core.close(unq(md), st.sim_dt, rtol=0, atol=0) or not core.close(unq(ms), st.sim_start, rtol=0, atol=0):
            bad = f"after {ops}: implementation (start={st.sim_start}, end={st.sim_end!r}, dt={st.sim_dt}, {len(tv)} points) differs from the settings model (end={float(unq(me))!r}, {mn} points)"
        # direct oracle for the last operation when it requested an end year: first grid point at or after it
        lastop = ops[-1]
        if bad is None and lastop[0] in "EU" and (lastop[0] == "E" or lastop[2] is not None):
            if st.sim_end < last_end_req - 1e-9 or st.sim_end - st.sim_dt >= last_end_req + 1e-9:
                bad = f"after {ops}: end {st.sim_end!r} is not the first grid point (start {st.sim_start}, dt {st.sim_dt}) at or after the requested end {last_end_req}"
        # whatever the last operation was: the grid starts at the start year, is spaced dt, and reaches the end year requested most recently
        short = len(tv) >= 1 and float(tv[-1]) < last_end_req - 1e-9
        off = len(tv) >= 1 and abs(float(tv[0]) - st.sim_start) > 1e-9
        if short or off:
            ctx.violation({"api": "ProjectSettings.history", "case": "grid-does-not-cover-the-requested-years"},
                          f"after {ops} on ProjectSettings({s0}, {e0}, {d0}): the time vector runs from {float(tv[0])!r} to {float(tv[-1])!r} (dt {st.sim_dt}); start year {st.sim_start}, end year requested {last_end_req}", {"case": key})
            continue
        if bad:
            is_oracle = "first grid point" in bad or (st.sim_end - st.sim_dt >= last_end_req + 1e-9 and lastop[0] in "EU" and (lastop[0] == "E" or lastop[2] is not None))
            if is_oracle:
                ctx.violation({"api": "ProjectSettings.history", "lastop": lastop[0]}, bad, {"case": key})
            else:
                ctx.brk("correspondence", "settings history: " + bad, case=key)


def run(ctx):
    run_grid(ctx)
    run_project_grid(ctx)
    run_settings_ops(ctx)
    # conversion half: mode B on generated models (stage "resolve": parameter value -> per-step fraction -> people) + documented-conversion oracle
    engine_corr.run_stream(ctx, PROPERTY, ctx.n(60, 2000), focus=lambda r: {"functions": r.random() < 0.5, **({"npops": r.choice([2, 3]), "aggregation": True, "agg_weight_par": 0.4} if r.random() < 0.35 else {})})
    # closed loop: whole trajectories from the specification alone (no value of the implementation fed in)
    closed_corr.closed_selfcheck(ctx, n=ctx.n(2, 6))
    closed_corr.run_closed(ctx, PROPERTY, ctx.n(60, 2000))


def replay(ctx, data):
    import atomica as at

    c = (data.get("replay") or {}).get("case") or (data.get("broken") or [{}])[0].get("case")
    if isinstance(c, dict) and c.get("closed"):
        return closed_corr.replay_case(c)
    if (data.get("replay") or {}).get("kind") == "project_grid":
        import atomica as at
        P0 = at.demo(c["demo"], do_run=False)
        P = at.Project(framework=P0.framework, databook=P0.data.to_spreadsheet(), sim_start=c["start"], sim_end=c["end"], sim_dt=c["dt"], do_run=False)
        tv = P.settings.tvec
        print("settings.tvec:", len(tv), tv[0], tv[-1], "requested", c)
        return 0 if abs(tv[0] - c["start"]) < 1e-9 and tv[-1] >= c["end"] - 1e-9 else 1
    if "spec" in (data.get("replay") or {}) or (data.get("broken") and (data["broken"][0] or {}).get("spec")):
        return engine_corr.replay_spec(ctx, PROPERTY, data)
    if not isinstance(c, dict) or "start" not in c:
        print("nothing to replay in this file:", str(data.get("what"))[:300])
        return 0
    tv = at.ProjectSettings(sim_start=c["start"], sim_end=c["end"], sim_dt=c["dt"]).tvec
    print("impl:", len(tv), tv[:3], tv[-1], "spacing", np.diff(tv)[:1])
    print("model:", core.drive([f"grid {q(c['start'])} {q(c['end'])} {q(c['dt'])}"]))
    return 0


if __name__ == "__main__":
    core.main(sys.modules[__name__])
