"""
C03 -- Each step's flows follow the documented unit conversion on an exact dt grid.

Part 1 (this file, `run_grid`): ProjectSettings time grid vs Atomica.Grid (mode A).
Part 2 (`run_engine`, added with the engine model): per-step flows vs Atomica.Engine (mode B).
"""
import sys
from fractions import Fraction

import numpy as np

from vlib import core, engine_corr
from vlib.core import q, unq

PROPERTY = "C03"
LEAN_MODS = ["AtomicaProofs.Properties.C03Grid"]
THEOREMS = [
    "Atomica.C03.grid_exact",
    "Atomica.C03.grid_length",
    "Atomica.C03.grid_last_ge",
    "Atomica.C03.grid_last_first",
    "Atomica.C03.grid_prefix",
]
TRUSTED = ["float rounding of start + k*dt vs numpy.linspace (compared to 1e-9 absolute)"]
RULE = "engine: generated models, every step replayed through one exact model step (see C01); grid: cross product of start/end pairs x step sizes (incl. non-representable and non-dividing); non-trivial = span not an exact float multiple of dt or dt not a dyadic rational"
EXPECTED_BRANCHES = ["grid.divides", "grid.nondividing", "grid.dt_inexact", "rescale.active", "has.transfer", "has.source", "param.timevarying", "step.compared"]

STARTS_ENDS = [(2000, 2035), (2000, 2001), (2000, 2000.5), (1990, 2030), (2010.5, 2020), (2000, 2040), (2015, 2018), (2000.25, 2010.75), (2000, 2100), (1999, 2000.1)]
DTS = [1.0, 0.5, 0.25, 0.2, 0.1, 1 / 12, 1 / 52, 1 / 365, 0.3, 0.7, 0.05, 0.125, 1 / 3, 0.4, 0.15, 2.0, 7 / 365, 0.6, 1 / 24, 0.35, 0.01, 1 / 6, 0.9, 1.5, 0.45]


def grid_cases(ctx):
    cases = [(s, e, dt) for (s, e) in STARTS_ENDS for dt in DTS]
    r = ctx.rng
    for _ in range(ctx.n(100, 3000)):
        s = r.choice([2000, 2000.5, 1995, 2010.25, 2000 + r.randint(0, 20)])
        span = r.choice([r.randint(1, 40), r.random() * 30 + 0.1, r.randint(1, 10) + r.choice([0.5, 0.25, 0.1])])
        dt = r.choice(DTS + [r.choice([1, 2, 3, 5, 7]) / r.choice([4, 8, 10, 12, 16, 20, 30, 52, 100, 365])])
        cases.append((s, s + span, dt))
    return cases


def run_grid(ctx):
    import atomica as at

    cases = grid_cases(ctx)
    reqs = [f"grid {q(s)} {q(e)} {q(dt)}" for (s, e, dt) in cases]
    reps = core.drive(reqs)
    for (s, e, dt), rep in zip(cases, reps):
        key = {"api": "ProjectSettings.tvec", "start": s, "end": e, "dt": dt}
        try:
            st = at.ProjectSettings(sim_start=s, sim_end=e, sim_dt=dt)
            tv = st.tvec
        except Exception as ex:  # the constructor has no failure mode for dt>0
            ctx.violation(key, f"ProjectSettings raised {type(ex).__name__}: {ex}", {"case": key})
            continue
        n_model, last_model = rep.split()
        n_model = int(n_model)
        last_model = unq(last_model)
        ratio = Fraction(e) - Fraction(s)
        divides = (ratio / Fraction(dt)).denominator == 1
        ctx.count("grid.divides" if divides else "grid.nondividing")
        if Fraction(dt).denominator & (Fraction(dt).denominator - 1) == 0 and Fraction(dt).denominator > 2**40:
            ctx.count("grid.dt_inexact")
        ctx.case(key, nontrivial=not divides or Fraction(dt).denominator > 2**20, sample=key)
        # direct oracle on the implementation (the property's own wording)
        k = np.arange(len(tv))
        exact = s + k * dt
        bad = None
        if len(tv) != n_model:
            bad = f"grid has {len(tv)} points, specification start+k*dt up to the first point >= end has {n_model}"
        elif not np.allclose(tv, exact, rtol=0, atol=1e-9):
            j = int(np.argmax(np.abs(tv - exact)))
            bad = f"t[{j}]={tv[j]!r} but start+{j}*dt={exact[j]!r}"
        elif tv[-1] < e - 1e-9 * dt or (len(tv) > 1 and tv[-2] >= e + 1e-9):
            bad = f"last point {tv[-1]!r} is not the first grid point at or after end={e}"
        elif not core.close(last_model, tv[-1], rtol=0, atol=1e-9):
            bad = f"last point {tv[-1]!r} differs from model {float(last_model)!r}"
        if bad:
            ctx.violation(key, f"ProjectSettings(start={s}, end={e}, dt={dt}).tvec: {bad}; spacing {np.diff(tv)[:2]}", {"case": key, "impl_len": len(tv), "impl_last": float(tv[-1]), "model_len": n_model, "model_last": float(last_model),
                                                                                                                     "script": f"import atomica as at; print(at.ProjectSettings({s},{e},{dt}).tvec)"})
    ctx.exhaustive = False


def run(ctx):
    run_grid(ctx)
    # conversion half: mode B on generated models (stage "resolve": parameter value -> per-step fraction -> people) + documented-conversion oracle
    engine_corr.run_stream(ctx, PROPERTY, ctx.n(60, 2000), focus=lambda r: {"functions": r.random() < 0.5})


def replay(ctx, data):
    import atomica as at

    c = data["replay"]["case"]
    tv = at.ProjectSettings(sim_start=c["start"], sim_end=c["end"], sim_dt=c["dt"]).tvec
    print("impl:", len(tv), tv[:3], tv[-1], "spacing", np.diff(tv)[:1])
    print("model:", core.drive([f"grid {q(c['start'])} {q(c['end'])} {q(c['dt'])}"]))
    return 0


if __name__ == "__main__":
    core.main(sys.modules[__name__])
