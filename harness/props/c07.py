"""
C07 -- Initial state matches the databook or the run is refused; sums stay consistent.

Model:    lean/AtomicaModel/Init.lean       (accept / acceptCurrent, rhs, expand, reported / valsWith, applySaved)
Theorems: lean/AtomicaProofs/Properties/C07.lean
Check (this file):
  * the least-squares solver is an ORACLE: `np.linalg.lstsq` is wrapped while `Model(...)` is constructed, so A, b and the x the
    solver returned are captured per population (and, in the adversarial regime, x is *replaced* by an arbitrary vector: the
    theorems hold for every x, so the real acceptance code is exercised with every kind of x);
  * mode A at index 0: A, b, x -> driver `init-accept` (specification-shaped `accept` and the code-shaped `acceptCurrent`);
    accept/refuse kind and the stocks (row by row for timed compartments) are compared with what the real code did;
  * system construction: A (transitive includes) and b (= databook entry at the start year x calibration factors, fractions x
    their denominator) are recomputed from the generated spec in exact arithmetic, independently of atomica;
  * direct oracles on the implementation: accepted => stocks >= 0 and every row reproduced to 1e-6 by the stocks the run starts
    from (before the junction flush); the flush itself is compared with `Engine.flushAll`; rows that the flush cannot change are
    also checked on the processed model at index 0; refused => exception type is BadInitialization;
  * characteristic consistency at every index of every run (reported value vs sum of members / denominator, 0 below 1e-6) and
    the in-loop scalar form (`Characteristic.update`), both against the model (`charac` request) and against an exact
    recomputation in Python;
  * saved initialisation identity; callers (calibration objective, sampled runs) treat BadInitialization as "reject".
"""
import copy
import math
import random as _random
import sys
import traceback
from collections import Counter
from contextlib import contextmanager
from fractions import Fraction

import numpy as np

from vlib import core, engine_corr, genfw, initgen
from vlib.core import q, unq

PROPERTY = "C07"
LEAN_MODS = ["AtomicaProofs.Properties.C07", "AtomicaProofs.Properties.C07Bridge"]
THEOREMS = [
    "Atomica.C07.accept_sound",
    "Atomica.C07.accept_stocks",
    "Atomica.C07.accept_ok_iff",
    "Atomica.C07.acceptCurrent_ok_iff",
    "Atomica.C07.acceptCurrent_sound",
    "Atomica.C07.clipWeight_binary",
    "Atomica.C07.acceptCurrent_sound_exact",
    "Atomica.C07.accept_eq_current_of_nonneg",
    "Atomica.C07.refuse_kinds",
    "Atomica.C07.refuse_complete",
    "Atomica.C07.refuse_complete_current",
    "Atomica.C07.no_assignment_refused",
    "Atomica.C07.clip_after_accept_witness",
    "Atomica.C07.rhs_scaled",
    "Atomica.C07.rhs_fraction",
    "Atomica.C07.spread_total",
    "Atomica.C07.saved_init_identity",
    "Atomica.C07.expand_correct",
    "Atomica.C07.nodup_sum",
    "Atomica.C07.count_sum",
    "Atomica.C07.row_expSum",
    "Atomica.C07.rowCurrent_memberSum",
    "Atomica.C07.sysRow_current_of_nodup",
    "Atomica.C07.expand_sum",
    "Atomica.C07.charac_sum",
    "Atomica.C07.accept_reproduces_charac",
    "Atomica.C07.accept_reproduces_charac_current",
    "Atomica.C07.overlap_counts_twice",
    "Atomica.C07.value_small_numerator",
    "Atomica.C07.value_zero_over_zero",
    "Atomica.C07.value_quotient",
    "Atomica.C07.value_step_agree",
    "Atomica.C07.value_step_differs",
    # the closed loop's characteristic rule (Closed.charVal, C03/C06/C13) is the same rule as Init.valueStep / Init.value (C07Bridge.lean)
    "Atomica.C07Bridge.closed_tol_eq",
    "Atomica.C07Bridge.charVal_ratio",
    "Atomica.C07Bridge.charVal_plain",
    "Atomica.C07Bridge.ratioRule_eq_valueStep",
    "Atomica.C07Bridge.ratioRule_eq_value_of",
    "Atomica.C07Bridge.ratioRule_ne_value_iff",
]
TRUSTED = [
    "np.linalg.lstsq (LAPACK) is an oracle: the candidate solution it returns is an input of the model; its quality decides only WHETHER a run is accepted",
    "float rounding inside A@x, the residual and the row errors: compared exactly except within a rounding margin of a threshold (counted as ambiguous)",
    "the databook entry at the start year is taken through Parameter.interpolate (C06) and compared with the exact chord recomputed from the spec to 1e-11",
]
ASSUMPTIONS = [
    "finite databook values and calibration factors; NaN/inf entries are outside the model",
    "characteristics used for initialisation contain no source or sink compartments (the framework validator crashes on them with ValueError before any run; noted for C18)",
    "the converse 'an admissible assignment exists => accepted' depends on the solver (minimum-norm solutions of under-determined systems can be negative) and is only observed (branch init.refused_though_assignment_exists)",
]
RULE = (
    "structures: dynamics from vlib.genfw.random_spec (junctions, timed compartments, one or two population types) with a generated inclusion structure "
    "(nested characteristics, fractions with compartment/characteristic denominators, exact/over-/under-determined choice of databook quantities, zero "
    "defaults, quantities with setup weight 0, calibration factors, entries on/off data years); variants per structure: consistent, inconsistent, "
    "negative-implying, tolerance-boundary databooks and an adversarial solver (x replaced by perturbed / dust-negative / far-off vectors); "
    "one case = (structure, variant, population); non-trivial = the system has a nested characteristic or a fraction row or is not square, "
    "or the outcome is a refusal, or some solver component is negative"
)
EXPECTED_BRANCHES = [
    "outcome.accepted", "outcome.refuse.residual", "outcome.refuse.negative", "outcome.refuse.tolerance",
    "system.nested", "system.fraction", "system.overdetermined", "system.underdetermined", "system.square", "system.zero_default", "system.setup0",
    "system.yfactor", "system.meta_yfactor", "system.offyear", "system.two_types", "system.junction_row", "system.timed_col",
    "solver.natural", "solver.adversarial", "x.dust_negative", "clip.zone_spec_refuses", "flush.nonempty_junction",
    "charac.compared", "charac.fraction", "charac.zero_numerator", "charac.nested", "charac.update_compared", "saved.identity", "callers.objective_inf", "callers.sampled_retry",
    "hyp.nodup_fails", "library.compared",
]

TOL = Fraction(1, 10**6)
KINDS = {"Global residual": "residual", "Negative initial popsizes": "negative", "Characteristics failed to meet tolerances": "tolerance", "Initialization error": "fallback"}


def F(x):
    return Fraction(*float(x).as_integer_ratio())


# ----------------------------------------------------------------------------------------------------------
# a picklable recorder with the Ctx recording API (workers fill one, the parent merges)
# ----------------------------------------------------------------------------------------------------------
class Rec:
    def __init__(self):
        self.counts = Counter()
        self.cases = []
        self.breaks = []
        self.violations = []
        self.traces = 0
        self.hyp_checked = 0
        self.hyp_held = 0
        self.ambiguous = 0
        self.disagreements_checked = 0
        self.notes = []
        self.rejected = 0

    def count(self, b, k=1):
        self.counts[b] += k

    def case(self, key, nontrivial, sample=None):
        self.cases.append((key, bool(nontrivial), sample))

    def brk(self, kind, what, **data):
        self.breaks.append({"kind": kind, "what": what, **data})

    def violation(self, key, what, replay):
        self.violations.append({"key": key, "what": what, "replay": replay})

    def merge_into(self, ctx):
        for b, k in self.counts.items():
            ctx.count(b, k)
        for key, nt, sample in self.cases:
            ctx.case(key, nt, sample)
        ctx.breaks += self.breaks
        ctx.violations += self.violations
        ctx.traces += self.traces
        ctx.hyp_checked += self.hyp_checked
        ctx.hyp_held += self.hyp_held
        ctx.ambiguous += self.ambiguous
        ctx.disagreements_checked += self.disagreements_checked
        ctx.notes += self.notes[:5]
        ctx.extra["generator_rejections"] = ctx.extra.get("generator_rejections", 0) + self.rejected


# ----------------------------------------------------------------------------------------------------------
# wrapping callees from outside
# ----------------------------------------------------------------------------------------------------------
@contextmanager
def wrap_lstsq(caps, forced=None):
    """capture (A, b, x) of every `np.linalg.lstsq` call; `forced[k]` (a list) replaces the k-th returned solution"""
    orig = np.linalg.lstsq

    def wrapped(A, b, rcond=None):
        out = orig(A, b, rcond=rcond)
        k = len(caps)
        x_ls = np.array(out[0], dtype=float).ravel()
        x = x_ls
        if forced is not None and k < len(forced) and forced[k] is not None and len(forced[k]) == len(x_ls):
            x = np.array(forced[k], dtype=float)
        caps.append({"A": np.array(A, dtype=float), "b": np.array(b, dtype=float).ravel(), "x": x.copy(), "x_ls": x_ls.copy()})
        return (x.copy(),) + tuple(out[1:])

    np.linalg.lstsq = wrapped
    try:
        yield
    finally:
        np.linalg.lstsq = orig


@contextmanager
def record_updates(store):
    """record the value `Characteristic.update(ti)` stores (the last call per index wins, as in the code)"""
    from atomica.model import Characteristic

    orig = Characteristic.update

    def upd(self, ti):
        orig(self, ti)
        store[(self.pop.name, self.name, int(ti))] = float(self._vals[ti])

    Characteristic.update = upd
    try:
        yield
    finally:
        Characteristic.update = orig


def refusal_kind(exc):
    msg = str(exc)
    for prefix, kind in KINDS.items():
        if msg.startswith(prefix):
            return kind
    return "unknown"


# ----------------------------------------------------------------------------------------------------------
# the system as the SPEC defines it (independent of atomica): rows, columns, A, b
# ----------------------------------------------------------------------------------------------------------
def setup_weight(c):
    if "setup" in c and c["setup"] is not None:
        return c["setup"]
    return 1 if (c.get("databook") or c.get("default") is not None) else 0


def spec_type(spec, item):
    return initgen._type_of(spec, item)


def pop_type(spec, pop):
    if not spec.get("pop_types"):
        return None
    return (spec.get("pop_type_of") or {}).get(pop) or spec["pop_types"][0]


def charac_table(spec, t):
    return {c["name"]: c for c in spec.get("characs", []) if spec_type(spec, c) == t}


def expand_list(table, name, depth=0):
    """transitive expansion WITH multiplicity in the code's order (None if cyclic)"""
    if depth > len(table) + 1:
        return None
    out = []
    for c in table[name]["components"]:
        if c in table:
            sub = expand_list(table, c, depth + 1)
            if sub is None:
                return None
            out += sub
        else:
            out.append(c)
    return out


def entry_value(spec, item, pop, t0):
    """databook entry of `item` for `pop` at t0, exact"""
    if item.get("databook"):
        return initgen.interp_exact((item.get("init") or {}).get(pop, 0.0), t0)
    return Fraction(float(item.get("default") or 0.0))


def factors(spec, name, pop):
    yf = (spec.get("y_factors") or {}).get(name, {})
    return F(yf.get(pop, 1.0)), F(yf.get("_meta", 1.0))


def spec_system(spec, pop):
    """-> rows (names), cols (names), A (list of lists 0/1), b (Fractions), rhs_inputs (per row: [v, y, ym] or [v, y, ym, dv, dy, dym]), nodup flags"""
    t = pop_type(spec, pop)
    t0 = spec["settings"][0]
    table = charac_table(spec, t)
    comps_t = [c for c in spec["comps"] if spec_type(spec, c) == t]
    by_name = {c["name"]: c for c in comps_t}
    cols = [c["name"] for c in comps_t if c["kind"] not in ("source", "sink")]
    rows_c = [c for c in spec.get("characs", []) if spec_type(spec, c) == t and setup_weight(c) > 0]
    rows_k = [c for c in comps_t if setup_weight(c) > 0]
    rows, A, b, rin, nodup = [], [], [], [], []
    for c in rows_c + rows_k:
        is_char = c["name"] in table
        mem = expand_list(table, c["name"]) if is_char else [c["name"]]
        rows.append(c["name"])
        A.append([float(mem.count(col)) for col in cols])  # specification: multiplicity with which the reported value counts the compartment
        nodup.append(len(set(mem)) == len(mem))
        v = entry_value(spec, c, pop, t0)
        y, ym = factors(spec, c["name"], pop)
        inputs = [v, y, ym]
        val = v * y * ym
        if is_char and c.get("denominator"):
            d = table.get(c["denominator"]) or by_name[c["denominator"]]
            dv = entry_value(spec, d, pop, t0)
            dy, dym = factors(spec, d["name"], pop)
            inputs += [dv, dy, dym]
            val *= dv * dy * dym
        b.append(val)
        rin.append(inputs)
    return rows, cols, A, b, rin, nodup


def charac_request(spec, pop, comp_names, stocks_by_t):
    """`charac nC nK defs T stocks` for the characteristics of `pop`'s type; comp_names = every compartment of the population, in order"""
    t = pop_type(spec, pop)
    chars = [c for c in spec.get("characs", []) if spec_type(spec, c) == t]
    cidx = {n: i for i, n in enumerate(comp_names)}
    kidx = {c["name"]: i for i, c in enumerate(chars)}

    def ref(n):
        return f"k{kidx[n]}" if n in kidx else f"c{cidx[n]}"

    toks = ["charac", str(len(comp_names)), str(len(chars))]
    for c in chars:
        toks.append(str(len(c["components"])))
        toks += [ref(n) for n in c["components"]]
        toks.append(ref(c["denominator"]) if c.get("denominator") else "-")
    toks.append(str(len(stocks_by_t)))
    for row in stocks_by_t:
        toks += [q(v) for v in row]
    return " ".join(toks), chars


def parse_charac_reply(rep, K, T):
    segs = [s.strip() for s in rep.split("|")]
    if len(segs) != 1 + 5 * K:
        return None
    wf = [x[0] == "1" for x in segs[0].split()] if K else []
    nodup = [x[1] == "1" for x in segs[0].split()] if K else []
    ex = [None if s == "cyclic" else [int(x) for x in s.split()] for s in segs[1:1 + K]]

    def vals(block):
        out = []
        for s in segs[1 + block * K:1 + (block + 1) * K]:
            out.append([("cyclic" if x == "cyclic" else unq(x)) for x in s.split()])
        return out

    return {"wf": wf, "nodup": nodup, "expand": ex, "reported": vals(1), "step": vals(2), "vals_cur": vals(3), "step_cur": vals(4)}


# ----------------------------------------------------------------------------------------------------------
# evaluation of one (spec, forced solver output) on the real code + model + oracles
# ----------------------------------------------------------------------------------------------------------
def margins(A, b, x):
    """exact errors and rounding margins for the three acceptance tests (floats in, Fractions out)"""
    m, n = A.shape
    xs = [F(v) for v in x]
    errs, emarg = [], []
    for i in range(m):
        tot = sum((F(A[i, j]) * xs[j] for j in range(n)), Fraction(0))
        mag = sum(abs(float(A[i, j]) * float(x[j])) for j in range(n)) + abs(float(b[i]))
        errs.append(tot - F(b[i]))
        emarg.append(Fraction(4e-16 * (n + 2) * mag) if mag else Fraction(0))
    res = sum((e * e for e in errs), Fraction(0))
    rmarg = sum(((2 * abs(e) * g + g * g) for e, g in zip(errs, emarg)), Fraction(0)) + abs(res) * Fraction(1, 10**14)
    return xs, errs, emarg, res, rmarg


def near_threshold(A, b, x):
    xs, errs, emarg, res, rmarg = margins(A, b, x)
    if abs(res - TOL) <= rmarg:
        return True
    if any(abs(abs(e) - TOL) <= g for e, g in zip(errs, emarg)):
        return True
    cl = np.maximum(np.asarray(x, dtype=float), 0.0)
    _, errs2, emarg2, _, _ = margins(A, b, cl)
    return any(abs(abs(e) - TOL) <= g for e, g in zip(errs2, emarg2))


def pop_stock_rows(pop):
    from atomica import model as M

    out = []
    for c in pop.comps:
        if isinstance(c, M.TimedCompartment):
            out.append([float(v) for v in c._vals[:, 0]])
        else:
            out.append([float(c.vals[0])])
    return out


def evaluate_gen(rec, spec, forced=None, tag=None, built=None, do_process=True):
    """
    Runs the real code on `spec` (optionally with the solver's answers replaced by `forced`), the model, and the oracles.
    Returns a dict: status in {reject, refused, accepted, error}, fails (list of (key, what)) and details for replay.
    """
    import atomica as at
    from atomica import model as M
    from atomica.model import BadInitialization, Model

    info = {"status": None, "fails": [], "tag": tag}
    rp = {"spec": strip(spec), "forced": forced, "tag": tag}

    def fail(key, what):
        info["fails"].append((key, what))
        rec.violation(key, what, dict(rp, how="harness/props/c07.py replay: evaluate(spec, forced)"))

    try:
        fw, data, parset, settings = built if built is not None else initgen.build(spec)
    except Exception as e:  # the generator produced something the library refuses before any run
        info["status"] = "reject"
        info["why"] = f"{type(e).__name__}: {str(e)[:160]}"
        rec.rejected += 1
        return info
    caps = []
    exc = None
    m = None
    try:
        with wrap_lstsq(caps, forced):
            m = Model(settings, fw, parset)
    except BadInitialization as e:
        exc = e
    except Exception as e:
        tbs = traceback.format_exc()
        if "initialize_compartments" in tbs:
            info["status"] = "error"
            fail({"api": "initialize_compartments", "case": "wrong-exception", "type": type(e).__name__},
                 f"initialisation raised {type(e).__name__} instead of BadInitialization: {str(e)[:200]}")
        else:  # dynamics the library refuses by an assert (C18's business)
            info["status"] = "reject"
            info["why"] = f"{type(e).__name__}: {str(e)[:160]}"
            rec.rejected += 1
        return info

    pops = list(spec["pops"])
    t0 = spec["settings"][0]
    kind_impl = refusal_kind(exc) if exc is not None else None
    info["status"] = "refused" if exc is not None else "accepted"
    info["kind"] = kind_impl
    info["caps"] = caps
    if exc is not None and kind_impl in ("fallback", "unknown"):
        fail({"api": "initialize_compartments", "case": "refusal-kind"}, f"BadInitialization with an unexpected message kind: {str(exc)[:120]!r}")
    if exc is None and len(caps) != len(pops):
        rec.brk("correspondence", f"{len(caps)} lstsq calls for {len(pops)} populations (accepted run)", replay=rp)
        return info
    two = bool(spec.get("pop_types"))
    # ---- per population: system construction, acceptance (mode A), soundness oracle
    lines, metas = [], []
    for k, cap in enumerate(caps):
        pop = pops[k]
        rows, cols, A_exp, b_exp, rin, nodup = spec_system(spec, pop)
        A, b, x = cap["A"], cap["b"], cap["x"]
        refused_here = exc is not None and k == len(caps) - 1
        sysinfo = {"pop": pop, "rows": rows, "cols": cols}
        # system construction vs the spec
        if A.shape != (len(rows), len(cols)):
            fail({"api": "initialize_compartments", "case": "system-shape"}, f"pop {pop}: A has shape {A.shape}, the databook has {len(rows)} initialisation quantities and {len(cols)} compartments to solve")
            continue
        if len(rows) and A.tolist() != A_exp:
            bad = next(i for i in range(len(rows)) if A.tolist()[i] != A_exp[i])
            if not nodup[bad] and [min(v, 1.0) for v in A_exp[bad]] == A.tolist()[bad]:
                fail({"api": "initialize_compartments", "case": "overlapping-includes"},
                     f"pop {pop}: {rows[bad]} reaches a compartment along two include paths; its reported value counts the compartments {A_exp[bad]} times over {cols}, "
                     f"the initialisation matrix row is {A.tolist()[bad]} (A[i, j] = 1.0 instead of += 1.0), so the solve does not aim at the reported value")
            else:
                fail({"api": "initialize_compartments", "case": "system-matrix"}, f"pop {pop}: row {rows[bad]} of the includes matrix is {A.tolist()[bad]}, transitive includes give {A_exp[bad]} over {cols}")
        for i in range(len(rows)):
            sc = float(abs(b_exp[i])) if b_exp[i] else 1.0
            if not core.close(b_exp[i], b[i], scale=sc, rtol=1e-11):
                fail({"api": "initialize_compartments", "case": "system-rhs", "fraction": len(rin[i]) > 3},
                     f"pop {pop}: right-hand side of {rows[i]} is {b[i]!r}; databook entry at t0={t0} x calibration factors{' x denominator' if len(rin[i]) > 3 else ''} = {float(b_exp[i])!r}")
        # real Parameter.interpolate values for the model's rhs
        rhs_lines = []
        for i, name in enumerate(rows):
            par = parset.pars[name]
            ins = [float(par.interpolate(t0, pop_name=pop)[0]), float(par.y_factor[pop]), float(par.meta_y_factor)]
            if len(rin[i]) > 3:
                item = next(c for c in spec["characs"] if c["name"] == name)
                dpar = parset.pars[item["denominator"]]
                ins += [float(dpar.interpolate(t0, pop_name=pop)[0]), float(dpar.y_factor[pop]), float(dpar.meta_y_factor)]
            rhs_lines.append("init-rhs " + " ".join(q(v) for v in ins))
        # nrows of the solved compartments
        if m is not None:
            p_obj = m.pops[k]
            solved = [c for c in p_obj.comps if not isinstance(c, (M.SourceCompartment, M.SinkCompartment))]
            if [c.name for c in solved] != cols:
                rec.brk("correspondence", f"pop {pop}: solved compartments {[c.name for c in solved]} differ from the spec's {cols}", replay=rp)
                continue
            nrows = [c._vals.shape[0] if isinstance(c, M.TimedCompartment) else 1 for c in solved]
        else:
            nrows = [1] * len(cols)
        mm, nn = A.shape
        line = f"init-accept {mm} {nn} " + " ".join(str(v) for v in nrows) + (" " if nn else "") + " ".join(q(v) for v in A.ravel()) + (" " if mm * nn else "") + " ".join(q(v) for v in b) + (" " if mm else "") + " ".join(q(v) for v in x)
        lines.append(" ".join(line.split()))
        lines += rhs_lines
        metas.append((k, pop, rows, cols, A, b, x, cap["x_ls"], nrows, refused_here, len(rhs_lines), rin, nodup))
    replies = (yield lines) if lines else []
    pos = 0
    for (k, pop, rows, cols, A, b, x, x_ls, nrows, refused_here, n_rhs, rin, nodup) in metas:
        rep = replies[pos]
        rhs_reps = replies[pos + 1:pos + 1 + n_rhs]
        pos += 1 + n_rhs
        spec_out, cur_out = [s.strip() for s in rep.split("|")]
        adversarial = not np.array_equal(x, x_ls)
        rec.count("solver.adversarial" if adversarial else "solver.natural")
        # branch bookkeeping
        mm, nn = A.shape
        rank = int(np.linalg.matrix_rank(A)) if mm and nn else 0
        rec.count("system.square" if (mm == nn and rank == nn) else ("system.underdetermined" if rank < nn else "system.overdetermined"))
        t = pop_type(spec, pop)
        table = charac_table(spec, t)
        nested = any(any(cc in table for cc in table[r_]["components"]) for r_ in rows if r_ in table)
        fraction = any(len(z) > 3 for z in rin)
        if nested:
            rec.count("system.nested")
        if fraction:
            rec.count("system.fraction")
        if two:
            rec.count("system.two_types")
        byname = {c["name"]: c for c in spec["comps"]}
        if any(byname[c]["kind"] == "junction" and float(A[:, j].sum()) > 0 for j, c in enumerate(cols)):
            rec.count("system.junction_row")
        if any(v > 1 for v in nrows):
            rec.count("system.timed_col")
        if any(byname.get(r_, {}).get("default") is not None or table.get(r_, {}).get("default") is not None for r_ in rows):
            rec.count("system.zero_default")
        if any(c.get("setup") == 0 for c in spec["comps"] + spec.get("characs", [])):
            rec.count("system.setup0")
        yfs = spec.get("y_factors") or {}
        if any(pop in yfs.get(r_, {}) for r_ in rows):
            rec.count("system.yfactor")
        if any("_meta" in yfs.get(r_, {}) for r_ in rows):
            rec.count("system.meta_yfactor")
        items = {c["name"]: c for c in spec["comps"] + spec.get("characs", [])}
        if any(isinstance((items[r_].get("init") or {}).get(pop), dict) and t0 not in (items[r_]["init"][pop].get("t") or []) for r_ in rows):
            rec.count("system.offyear")
        dust = any(-1e-6 <= v < 0 for v in x)
        if dust:
            rec.count("x.dust_negative")
        # model rhs vs captured b
        for i, rr in enumerate(rhs_reps):
            sc = abs(float(b[i])) if b[i] else 1.0
            if not core.close(unq(rr), b[i], scale=sc, rtol=1e-12):
                rec.disagreements_checked += 1
                rec.brk("correspondence", f"pop {pop}: model rhs of {rows[i]} = {float(unq(rr))!r}, implementation b = {b[i]!r}", replay=rp)
        # hypothesis of row_memberSum / charac_sum on this structure
        for nd in nodup:
            rec.hyp_checked += 1
            if nd:
                rec.hyp_held += 1
            else:
                rec.count("hyp.nodup_fails")
        # ---- acceptance: implementation vs specification-shaped model
        impl_out = f"refuse {kind_impl}" if refused_here else "ok"
        stocks_rows = None
        if not refused_here and m is not None:
            p_obj = m.pops[k]
            allrows = pop_stock_rows(p_obj)
            solved_idx = [i for i, c in enumerate(p_obj.comps) if not isinstance(c, (M.SourceCompartment, M.SinkCompartment))]
            stocks_rows = [allrows[i] for i in solved_idx]
        rec.count("outcome.accepted" if not refused_here else f"outcome.refuse.{kind_impl}")
        rec.traces += 1

        def agrees(model_out):
            if refused_here:
                return model_out == impl_out
            if not model_out.startswith("ok"):
                return False
            if stocks_rows is None:  # an earlier population of a run that a later population refused: only the outcome is observable
                return True
            vals = [unq(z) for z in model_out.split()[1:]]
            flat = [v for rws in stocks_rows for v in rws]
            if len(vals) != len(flat):
                return False
            scale = max([1.0] + [abs(v) for v in flat])
            return all(core.close(a, bb, scale=scale, rtol=1e-12) for a, bb in zip(vals, flat))

        ok_spec = agrees(spec_out)
        ok_cur = agrees(cur_out)
        amb = None
        # ---- direct oracle (a): accepted => stocks >= 0 and every row reproduced to 1e-6 by the stocks the run starts from
        worst = None
        if not refused_here and stocks_rows is not None:
            tot = [sum((F(v) for v in rws), Fraction(0)) for rws in stocks_rows]
            if any(v < 0 for rws in stocks_rows for v in rws):
                fail({"api": "initialize_compartments", "case": "negative-stock"}, f"pop {pop}: accepted with a negative initial stock {stocks_rows}")
            for i, name in enumerate(rows):
                e = sum((F(A[i, j]) * tot[j] for j in range(nn)), Fraction(0)) - F(b[i])
                mag = sum(abs(float(A[i, j]) * float(tot[j])) for j in range(nn)) + abs(float(b[i]))
                slack = Fraction(4e-16 * (nn + 2) * mag) if mag else Fraction(0)
                if abs(e) > TOL + slack and (worst is None or abs(e) > abs(worst[1])):
                    worst = (name, e, i)
                elif abs(abs(e) - TOL) <= slack:
                    amb = True
            if worst is not None:
                name, e, i = worst
                clipped_members = [cols[j] for j in range(nn) if A[i, j] != 0 and x[j] < 0]
                beyond = [cols[j] for j in range(nn) if x[j] < -1e-6]
                case = "negative-solution-accepted" if beyond else ("clip-after-accept" if clipped_members else "accepted-off-tolerance")
                fail({"api": "initialize_compartments", "case": case},
                     f"pop {pop}: run accepted but it starts with {name} = {float(F(b[i]) + e)!r} while the databook x factors say {b[i]!r} (off by {float(e):.3e} > 1e-6); "
                     f"solver output {[float(v) for v in x]} over {cols}; members clipped from (-1e-6,0) to 0: {clipped_members}")
        if not ok_spec:
            rec.disagreements_checked += 1
            if near_threshold(A, b, x) or amb:
                rec.ambiguous += 1
                rec.count("acceptance.ambiguous_at_threshold")
            elif ok_cur and spec_out == "refuse tolerance" and not refused_here:
                rec.count("clip.zone_spec_refuses")
                if stocks_rows is None:
                    rec.count("clip.zone_in_a_run_refused_by_a_later_population")  # the run as a whole was refused: nothing started
                elif worst is None:  # the model refuses but the oracle accepts the implementation: the model would be wrong
                    rec.brk("correspondence", f"pop {pop}: specification-shaped accept refuses (tolerance on the clipped vector) but the oracle finds every row within 1e-6", replay=rp)
            else:
                rec.brk("correspondence", f"pop {pop}: implementation {impl_out} {stocks_rows if stocks_rows else ''}; model accept -> {spec_out[:80]!r}, acceptCurrent -> {cur_out[:80]!r}", replay=rp)
        # a feasible assignment existed but the solver's answer was refused (observed only)
        if refused_here and not adversarial and spec.get("_truth") and spec.get("init_regime") in ("consistent", "underdetermined"):
            rec.count("init.refused_though_assignment_exists")
        nontrivial = nested or fraction or not (mm == nn and rank == nn) or refused_here or bool((np.asarray(x) < 0).any())
        key = {"tag": tag, "pop": pop, "rows": rows, "cols": cols, "b": [float(v) for v in b], "x": [float(v) for v in x]}
        rec.case(key, nontrivial, sample={"tag": tag, "pop": pop, "rows": rows, "cols": cols, "b": [float(v) for v in b][:6], "x": [float(v) for v in x][:6], "outcome": impl_out})
    if exc is not None or m is None or not do_process:
        return info
    # ---- run the model: flush, index-0 oracle on the processed model, characteristic consistency at every index
    pre = {}
    orig_flush = m.flush_junctions

    def wrapped_flush():
        pre["stock"] = genfw.snapshot_stock(m, 0)
        pre["pv"] = {par.id: float(par.vals[0]) for pop_ in m.pops for par in pop_.pars if par.vals is not None}
        orig_flush()

    m.flush_junctions = wrapped_flush
    updates = {}
    try:
        with record_updates(updates):
            m.process()
    except Exception as e:
        info["status"] = "reject"
        info["why"] = f"process: {type(e).__name__}: {str(e)[:120]}"
        rec.rejected += 1
        return info
    m._verif_preflush = pre
    info["model"] = m
    info["parset"] = parset
    flush_line, net = None, None
    try:
        net = genfw.extract_net(m)
        pv = [pre["pv"].get(p_.id, 0.0) for p_ in net["pars"]]
        if all(math.isfinite(v) for v in pv) and all(math.isfinite(v) for rws in pre["stock"] for v in rws):
            rec.count("flush.nonempty_junction" if any(pre["stock"][c][0] > 0 for c in range(len(pre["stock"])) if net["kinds"][c] in "jr") else "flush.nothing_to_flush")
            flush_line = f"eflush {genfw.net_tokens(net)} " + " ".join(q(v) for v in pv) + " " + " ".join(q(v) for rws in pre["stock"] for v in rws)
    except Exception as e:
        rec.notes.append(f"flush comparison skipped: {type(e).__name__}: {str(e)[:100]}")
    finite = all(np.isfinite(np.asarray(c.vals, dtype=float)).all() for p_ in m.pops for c in p_.comps)
    if not finite:
        rec.count("run.nonfinite(skipped)")
        return info
    res = at.Result(model=m, parset=parset, name="c07")
    clines, cmetas = [], []
    ci = 0
    for k, pop in enumerate(pops):
        p_obj = m.pops[k]
        comp_names = [c.name for c in p_obj.comps]
        post0 = {c.name: float(np.asarray(c.vals, dtype=float)[0]) for c in p_obj.comps}
        pre0 = {}
        for c in p_obj.comps:
            pre0[c.name] = float(sum(pre["stock"][ci]))
            ci += 1
        # (c) rows the flush cannot change, on the Result at index 0
        rows, cols, A_exp, b_exp, rin, nodup = spec_system(spec, pop)
        juncs_full = [c.name for c in p_obj.comps if isinstance(c, M.JunctionCompartment) and pre0[c.name] > 0]
        dests = {}
        for j in juncs_full:
            seen, todo = set(), [j]
            while todo:
                cur = todo.pop()
                for l in p_obj.get_comp(cur).outlinks:
                    d = l.dest
                    if d.pop is not p_obj:
                        seen.add("<other pop>")
                        continue
                    if d.name not in seen:
                        seen.add(d.name)
                        if isinstance(d, M.JunctionCompartment):
                            todo.append(d.name)
            dests[j] = seen
        t_ = pop_type(spec, pop)
        table_ = charac_table(spec, t_)
        for i, name in enumerate(rows):
            mem = {cols[j] for j in range(len(cols)) if A_exp[i][j]}
            mult = {cols[j]: A_exp[i][j] for j in range(len(cols))}
            # the flush moves a junction's content ONCE into its (transitive) destinations: the row's sum is unchanged only if the junction
            # and every destination are counted with the SAME multiplicity (overlapping includes can count a junction twice), or neither is counted
            invariant = all((j in mem and all(mult.get(d, 0) == mult[j] for d in dests[j])) or (j not in mem and not (dests[j] & mem)) for j in juncs_full)
            if not invariant:
                rec.count("index0.row_changed_by_flush(compared via flushAll)")
                continue
            item = table_.get(name)
            if item is not None and not item.get("denominator"):
                # a number characteristic: what the Result reports at the first time point
                got = F(res.get_variable(name, pop)[0].vals[0])
            else:
                # a compartment, or the numerator of a fraction (fractions are multiplied by their denominator): counted as reported
                got = sum((F(res.get_variable(cols[j], pop)[0].vals[0]) * int(A_exp[i][j]) for j in range(len(cols)) if A_exp[i][j]), Fraction(0))
            mag = sum(abs(post0[cn]) for cn in mem) + abs(float(b_exp[i]))
            slack = Fraction(4e-16 * (len(mem) + 2) * mag) + abs(b_exp[i]) * Fraction(1, 10**11)
            rec.count("index0.row_checked_on_result")
            if abs(got - b_exp[i]) > TOL + slack:
                x = caps[k]["x"]
                clipped_members = [cols[j] for j in range(len(cols)) if cols[j] in mem and x[j] < 0]
                beyond = [cols[j] for j in range(len(cols)) if x[j] < -1e-6]
                incfrac = item is not None and any((cc in table_ and table_[cc].get("denominator")) for cc in item["components"])
                if incfrac and nodup[i]:
                    rec.count("index0.included_fraction(reported under Characteristic.vals)")
                    continue
                case = "overlapping-includes" if not nodup[i] else ("included-fraction" if incfrac else ("negative-solution-accepted" if beyond else ("clip-after-accept" if clipped_members else "index0-off-databook")))
                fail({"api": "initialize_compartments", "case": case},
                     f"pop {pop}: the processed run reports {name} = {float(got)!r} at the first time point; databook x factors = {float(b_exp[i])!r} (off by {float(got - b_exp[i]):.3e} > 1e-6)"
                     + (f"; {name} counts a compartment twice ({A_exp[i]} over {cols}) but the initialisation matrix counts it once" if not nodup[i] else "")
                     + (f"; {name} includes a fraction, which the initialisation treats as its numerator compartments" if incfrac and nodup[i] else ""))
        # (d) characteristic consistency at every index
        T = len(m.t)
        stocks_by_t = np.array([np.asarray(c.vals, dtype=float) for c in p_obj.comps]).T  # T x nC
        line, chars = charac_request(spec, pop, comp_names, stocks_by_t.tolist())
        if chars:
            clines.append(line)
            cmetas.append((k, pop, comp_names, chars, stocks_by_t, T))
    allreps = (yield clines + ([flush_line] if flush_line else [])) if (clines or flush_line) else []
    creps = allreps[:len(clines)]
    if flush_line:
        frep = allreps[-1]
        post = genfw.snapshot_stock(m, 0)
        if frep == "nan":
            if all(math.isfinite(v) for rws in post for v in rws):
                rec.brk("correspondence", "initial flush: model flush undefined (0/0) but implementation stocks finite", replay=rp)
        elif not frep.startswith("ok"):
            rec.brk("correspondence", f"initial flush: driver replied {frep[:60]}", replay=rp)
        else:
            st = frep[3:].split()
            scale = max(1.0, sum(abs(v) for rws in pre["stock"] for v in rws))
            flat = [v for rws in post for v in rws]
            if len(st) != len(flat) or any(not core.close(unq(a), v, scale=scale, rtol=engine_corr.RTOL) for a, v in zip(st, flat)):
                rec.disagreements_checked += 1
                rec.brk("correspondence", f"initial flush: Engine.flushAll of the accepted stocks {[float(unq(a)) for a in st]} differs from the implementation's index-0 stocks {flat}", replay=rp)
    for (k, pop, comp_names, chars, stocks_by_t, T), rep in zip(cmetas, creps):
        p_obj = m.pops[k]
        K = len(chars)
        parsed = parse_charac_reply(rep, K, T)
        if parsed is None:
            rec.brk("correspondence", f"charac reply malformed: {rep[:80]!r}", replay=rp)
            continue
        t = pop_type(spec, pop)
        table = charac_table(spec, t)
        cidx = {n: i for i, n in enumerate(comp_names)}
        for kk, c in enumerate(chars):
            obj = p_obj.charac_lookup[c["name"]]
            # structure: real get_included_comps vs model expand vs the spec
            real_inc = [cidx[z.name] for z in obj.get_included_comps()]
            if parsed["expand"][kk] != real_inc:
                rec.disagreements_checked += 1
                rec.brk("correspondence", f"get_included_comps of {c['name']} = {real_inc}, model expand = {parsed['expand'][kk]}", replay=rp)
            impl = np.asarray(res.get_variable(c["name"], pop)[0].vals, dtype=float)
            mem = [cidx[z] for z in (expand_list(table, c["name"]) or [])]  # with multiplicity, from the spec
            if c.get("denominator"):
                rec.count("charac.fraction")
                dn = c["denominator"]
                dmem = [cidx[z] for z in (expand_list(table, dn) if dn in table else [dn])]
            else:
                dmem = None
            if any(cc in table for cc in c["components"]):
                rec.count("charac.nested")
            rec.hyp_checked += 1
            if parsed["wf"][kk]:
                rec.hyp_held += 1
            bad = None
            for ti in range(T):
                num = sum((F(stocks_by_t[ti, j]) for j in mem), Fraction(0))
                mag = sum(abs(stocks_by_t[ti, j]) for j in mem)
                amb = False
                if dmem is None:
                    want = num
                else:
                    den = sum((F(stocks_by_t[ti, j]) for j in dmem), Fraction(0))
                    if abs(num - TOL) <= Fraction(4e-16 * (len(mem) + 1) * mag):
                        amb = True
                    if num < TOL:
                        want = Fraction(0)
                        rec.count("charac.zero_numerator")
                    elif den > 0:
                        want = num / den
                    else:
                        want = math.inf
                got = float(impl[ti])
                scale = max(1.0, mag) if dmem is None else max(1e-300, abs(float(want)) if want != math.inf else 1.0)
                ok = core.close(want, got, scale=scale, rtol=1e-11)
                mval = parsed["reported"][kk][ti]
                magree = mval != "cyclic" and core.close(mval, got, scale=scale, rtol=1e-11)
                rec.count("charac.compared")
                if amb and not (ok and magree):
                    rec.ambiguous += 1
                    continue
                if not ok and bad is None:
                    bad = (ti, got, want)
                if not magree:
                    rec.disagreements_checked += 1
                    if ok:
                        rec.brk("correspondence", f"charac {c['name']} pop {pop} index {ti}: model reported {mval}, implementation {got!r}; the direct oracle accepts the implementation", replay=rp)
                # in-loop scalar form
                u = updates.get((pop, c["name"], ti))
                if u is not None:
                    sval = parsed["step"][kk][ti]
                    rec.count("charac.update_compared")
                    if parsed["wf"][kk] and not (sval != "cyclic" and core.close(sval, u, scale=scale, rtol=1e-11)) and not amb:
                        rec.disagreements_checked += 1
                        rec.brk("correspondence", f"Characteristic.update of {c['name']} pop {pop} index {ti}: stored {u!r}, model valueStep {sval}", replay=rp)
            if bad is not None:
                ti, got, want = bad
                incfrac = any((cc in table and table[cc].get("denominator")) for cc in c["components"])
                case = "included-fraction" if incfrac else "charac-sum"
                cur = parsed["vals_cur"][kk][ti]
                fail({"api": "Characteristic.vals", "case": case},
                     f"pop {pop}: reported characteristic {c['name']} at index {ti} is {got!r}; sum of its member compartments{' / denominator' if dmem is not None else ''} = {float(want) if want != math.inf else 'inf'!r}"
                     f" (components {c['components']}, members {[comp_names[j] for j in mem]}; code-shaped nested sum in the model: {cur})")
            rec.traces += 1
    info["result"] = res
    return info


def run_gens(gens):
    """drive several evaluate_gen generators together: one driver call per round for all of them"""
    results = [None] * len(gens)
    active = []
    for i, g in enumerate(gens):
        try:
            active.append((i, g, next(g)))
        except StopIteration as stop:
            results[i] = stop.value
    while active:
        lines = [ln for (_, _, ls) in active for ln in ls]
        reps = core.drive(lines)
        nxt, pos = [], 0
        for (i, g, ls) in active:
            mine = reps[pos:pos + len(ls)]
            pos += len(ls)
            try:
                nxt.append((i, g, g.send(mine)))
            except StopIteration as stop:
                results[i] = stop.value
        active = nxt
    return results


def evaluate(rec, spec, forced=None, tag=None, built=None, do_process=True):
    return run_gens([evaluate_gen(rec, spec, forced=forced, tag=tag, built=built, do_process=do_process)])[0]


def strip(spec):
    return {k: v for k, v in spec.items() if not k.startswith("_")}


# ----------------------------------------------------------------------------------------------------------
# adversarial solver outputs
# ----------------------------------------------------------------------------------------------------------
def adversarial_x(r, A, b, x_ls):
    """a candidate the solver 'returned': any vector is a legal oracle answer"""
    n = len(x_ls)
    x = np.array(x_ls, dtype=float)
    if n == 0:
        return x
    mode = r.choice(["dust", "dust", "dust_comp", "neg", "off_small", "off_big", "exactish", "zero", "tol_edge"])
    idx = list(range(n))
    if mode == "dust":
        for j in r.sample(idx, r.randint(1, min(3, n))):
            x[j] += -r.choice([0.9e-6, 0.5e-6, 0.99e-6, 1e-6, 1.0000001e-6, 0.3e-6]) if x[j] <= 1e-9 else r.choice([1e-7, -1e-7, 5e-7, -5e-7])
    elif mode == "dust_comp":
        # dust-negative entries compensated on another member so that rows still match before clipping
        zs = [j for j in idx if abs(x[j]) <= 1e-9]
        ps = [j for j in idx if x[j] > 1]
        if zs and ps:
            ks = r.sample(zs, r.randint(1, min(3, len(zs))))
            d = r.choice([0.9e-6, 0.6e-6, 0.99e-6, 0.45e-6])
            for j in ks:
                x[j] -= d
            x[r.choice(ps)] += d * len(ks)
        else:
            x[r.choice(idx)] -= 0.7e-6
    elif mode == "neg":
        x[r.choice(idx)] -= r.choice([2e-6, 1.5e-6, 1.0, 100.0, 1.1e-6])
    elif mode == "off_small":
        x[r.choice(idx)] += r.choice([3e-6, -3e-6, 1.5e-6, 1e-5, 2e-4, 9e-4]) * r.choice([1, 1, -1])
    elif mode == "off_big":
        x[r.choice(idx)] += r.choice([1.0, 0.01, 2e-3, 1.2e-3, 50.0])
    elif mode == "zero":
        x[:] = 0.0
    elif mode == "tol_edge":
        x[r.choice(idx)] += r.choice([1e-6, -1e-6, 0.999999e-6, 1.000001e-6]) * r.choice([1, -1])
    return x


# ----------------------------------------------------------------------------------------------------------
# fixed candidates (deterministic replays of the known defects and of the documentation's examples)
# ----------------------------------------------------------------------------------------------------------
def base_spec(n=3):
    comps = [{"name": f"c{i}", "kind": "normal", "databook": False, "init": None} for i in range(n)]
    return {"comps": comps, "characs": [], "pars": [{"name": "ra0", "format": "rate", "timescale": None, "function": None, "min": None, "max": None, "timed": False, "targetable": False, "databook": True, "value": {"pa": 0.1}}],
            "transitions": [["c0", "c1", "ra0"]], "pops": ["pa"], "transfers": [], "settings": [2000, 2002, 0.5],
            "cascades": {"main": [["everyone", [f"c{i}" for i in range(n)]]]}}


def spec_d13(total=10.0, k=2, u=0.9):
    """databook: tot = c0 + ... + ck = total, c0 = total + k*u*1e-6; the other k compartments are not in the databook"""
    s = base_spec(k + 1)
    s["characs"] = [{"name": "tot", "components": [f"c{i}" for i in range(k + 1)], "denominator": None, "databook": True, "init": {"pa": total}}]
    s["comps"][0].update(databook=True, init={"pa": total + k * u * 1e-6})
    return s


def spec_overlap():
    s = base_spec(3)
    s["characs"] = [{"name": "yy", "components": ["c0", "c1"], "denominator": None, "databook": True, "init": {"pa": 30.0}},
                    {"name": "xx", "components": ["c0", "yy"], "denominator": None, "databook": True, "init": {"pa": 30.0}}]
    s["comps"][0].update(databook=True, init={"pa": 10.0})
    s["comps"][2].update(databook=True, init={"pa": 5.0})
    return s


def spec_included_fraction():
    s = base_spec(3)
    s["characs"] = [{"name": "tot", "components": ["c0", "c1", "c2"], "denominator": None, "databook": True, "init": {"pa": 100.0}},
                    {"name": "fr", "components": ["c0"], "denominator": "tot", "databook": True, "init": {"pa": 0.25}},
                    {"name": "xx", "components": ["c1", "fr"], "denominator": None, "databook": True, "init": {"pa": 50.0}}]
    return s


def spec_doc(kind):
    """the examples of docs/general/Compartment-Initialization.md"""
    s = base_spec(2)
    s["characs"] = [{"name": "alive", "components": ["c0", "c1"], "denominator": None, "databook": True, "init": {"pa": 100.0}}]
    if kind == "negative":  # alive = 100, vac = 120
        s["comps"][1].update(databook=True, init={"pa": 120.0})
    elif kind == "overdetermined":  # alive = 100, sus = 60, vac = 50
        s["comps"][0].update(databook=True, init={"pa": 60.0})
        s["comps"][1].update(databook=True, init={"pa": 50.0})
    elif kind == "consistent":
        s["comps"][0].update(databook=True, init={"pa": 60.0})
        s["comps"][1].update(databook=True, init={"pa": 40.0})
    elif kind == "underdetermined":
        pass
    return s


def spec_tiny():
    """numerator below 1e-6 people (reported 0), 0/0 (reported 0), positive numerator over an empty denominator (reported inf)"""
    s = base_spec(3)
    s["comps"][0].update(databook=True, init={"pa": 5e-7})
    s["comps"][1].update(databook=True, init={"pa": 100.0})
    s["comps"][2].update(databook=True, init={"pa": 0.0})
    s["characs"] = [{"name": "tot", "components": ["c0", "c1", "c2"], "denominator": None, "databook": False, "init": None},
                    {"name": "fr", "components": ["c0"], "denominator": "tot", "databook": False, "init": None},
                    {"name": "zz", "components": ["c2"], "denominator": "c2", "databook": False, "init": None},
                    {"name": "rr", "components": ["c1"], "denominator": "c2", "databook": False, "init": None},
                    {"name": "uu", "components": ["c0"], "denominator": "c2", "databook": False, "init": None},
                    {"name": "hh", "components": ["c1"], "denominator": "tot", "databook": False, "init": None}]
    s["pars"][0]["function"] = "0.1*hh+0*fr+0*zz+0*uu"
    s["pars"][0]["databook"] = False
    s["pars"][0]["value"] = {}
    return s


def run_fixed(rec):
    info = evaluate(rec, spec_tiny(), tag="tiny-numerator")
    rec.count("fixed.tiny")
    if info["status"] != "accepted":
        rec.brk("correspondence", f"fixed case tiny-numerator was not accepted: {info['status']} {info.get('why', '')}")
    exp = {"negative": ("refused", "negative"), "overdetermined": ("refused", "residual"), "consistent": ("accepted", None), "underdetermined": ("accepted", None)}
    for kind, (st, kd) in exp.items():
        info = evaluate(rec, spec_doc(kind), tag=f"doc-{kind}")
        rec.count(f"fixed.doc.{kind}")
        if (info["status"], info.get("kind")) != (st, kd):
            rec.brk("correspondence", f"documentation example '{kind}': expected {st}/{kd}, implementation gave {info['status']}/{info.get('kind')}", replay={"spec": spec_doc(kind)})
    evaluate(rec, spec_d13(), tag="d13")
    evaluate(rec, spec_d13(total=2500.0, k=3, u=0.8), tag="d13-k3")
    evaluate(rec, spec_overlap(), tag="overlap")
    evaluate(rec, spec_included_fraction(), tag="included-fraction")


# ----------------------------------------------------------------------------------------------------------
# generated structures x variants
# ----------------------------------------------------------------------------------------------------------
def make_variant(r, spec, caps0):
    """-> (variant kind, variant spec, forced solver outputs) or None"""
    sp = copy.deepcopy(spec)
    vk = r.choice(["inconsistent", "negative", "boundary", "adversarial", "adversarial", "adversarial", "clipzone"])
    forced = None
    if vk in ("inconsistent", "negative", "boundary"):
        initgen.perturb(r, sp, vk)
    elif vk == "adversarial":
        if not caps0:
            return None
        forced = []
        for cp in caps0:
            forced.append([float(z) for z in adversarial_x(r, cp["A"], cp["b"], cp["x_ls"])] if r.random() < 0.8 else None)
    elif vk == "clipzone":
        # solver components of dust size below zero on compartments that are (near) empty
        if not caps0:
            return None
        ci_ = r.randrange(len(caps0))
        cp = caps0[ci_]
        n = len(cp["x_ls"])
        x = np.array(cp["x_ls"], dtype=float)
        zs = [j for j in range(n) if abs(x[j]) <= 1e-9]
        if n < 2 or not zs:
            return None
        forced = [None] * len(caps0)
        ks = r.sample(zs, r.randint(1, min(3, len(zs))))
        d = r.choice([0.9e-6, 0.7e-6, 0.99e-6, 0.55e-6])
        for j in ks:
            x[j] = -d
        forced[ci_] = [float(z) for z in x]
    sp["init_regime"] = vk
    return vk, sp, forced


def run_chunk(args):
    """worker: structures from sub-seeds x variants; returns a Rec.  Driver calls are batched over groups of structures."""
    seeds, variants = args
    import logging
    import atomica
    import atomica as at

    atomica.logger.setLevel(logging.ERROR)
    rec = Rec()
    GROUP = 6
    for g0 in range(0, len(seeds), GROUP):
        items = []
        for sub_seed in seeds[g0:g0 + GROUP]:
            r = _random.Random(sub_seed)
            regime = r.choice(["consistent", "consistent", "underdetermined", "overlap", "consistent"])
            if regime == "overlap" and r.random() < 0.5:
                regime = "consistent"
            try:
                spec = initgen.random_init_spec(r, regime)
            except Exception as e:
                rec.notes.append(f"generator error (sub_seed {sub_seed}): {type(e).__name__}: {str(e)[:100]}")
                rec.count("gen.error")
                continue
            tag = {"sub_seed": sub_seed, "regime": regime}
            try:
                built = initgen.build(spec)
            except Exception:
                rec.rejected += 1
                rec.count("gen.rejected_by_library")
                continue
            items.append((r, spec, tag, built, regime))
        infos = run_gens([evaluate_gen(rec, spec, tag=dict(tag, variant="base"), built=built) for (r, spec, tag, built, regime) in items])
        vgens = []
        for (r, spec, tag, built, regime), info in zip(items, infos):
            if info["status"] == "reject":
                rec.count("gen.rejected_by_library")
                continue
            rec.count("regime." + regime)
            fw, data, parset0, settings = built
            caps0 = info.get("caps") or []
            for v in range(variants):
                mv = make_variant(r, spec, caps0)
                if mv is None:
                    continue
                vk, sp, forced = mv
                # apply the variant's databook entries to a fresh parset (the framework and databook objects are reused)
                parset = at.ParameterSet(fw, data, "default")
                for c in sp["comps"] + sp["characs"]:
                    if c.get("databook") and c.get("init"):
                        for pop, val in c["init"].items():
                            genfw._set_ts(parset.pars[c["name"]].ts[pop], val)
                initgen.apply_y_factors(sp, parset)
                rec.count("variant." + vk)
                vgens.append(evaluate_gen(rec, sp, forced=forced, tag=dict(tag, variant=vk, v=v), built=(fw, data, parset, settings), do_process=(r.random() < 0.35)))
        run_gens(vgens)
        for (r, spec, tag, built, regime), info in zip(items, infos):
            if info.get("result") is not None and r.random() < 0.5:
                check_saved(rec, spec, built, info, r)
    return rec


def check_saved(rec, spec, built, info, r, year=None):
    """saved initialisation: the stocks at index 0 (before the flush) are exactly the saved ones; no solve takes place"""
    import atomica as at
    from atomica import model as M
    from atomica.model import Model

    fw, data, parset0, settings = built
    m0 = info["model"]
    res = info["result"]
    parset = at.ParameterSet(fw, data, "saved")
    initgen.apply_y_factors(spec, parset)
    year = float(r.choice(list(m0.t))) if year is None else float(year)
    try:
        parset.set_initialization(res, year=year)
    except Exception as e:
        rec.notes.append(f"set_initialization failed: {type(e).__name__}: {str(e)[:100]}")
        return
    idx = int(np.nonzero(m0.t == year)[0][0])
    caps = []
    try:
        with wrap_lstsq(caps):
            m = Model(settings, fw, parset)
    except Exception as e:
        rec.violation({"api": "Initialization.apply", "case": "raises"}, f"building a model from a saved initialisation raised {type(e).__name__}: {str(e)[:150]}", {"spec": strip(spec), "year": year})
        return
    rec.count("saved.identity")
    if caps:
        rec.violation({"api": "initialize_compartments", "case": "saved-init-solves"}, "a saved initialisation was present but the databook system was solved", {"spec": strip(spec), "year": year})
    nC, nrows, present, rows_tok, want = 0, [], [], [], []
    for p0, p1 in zip(m0.pops, m.pops):
        for c0, c1 in zip(p0.comps, p1.comps):
            saved = [float(v) for v in c0._vals[:, idx]] if isinstance(c0, M.TimedCompartment) else [float(c0.vals[idx])]
            got = [float(v) for v in c1._vals[:, 0]] if isinstance(c1, M.TimedCompartment) else [float(c1.vals[0])]
            nC += 1
            nrows.append(len(saved))
            present.append(1)
            rows_tok += [q(v) for v in saved]
            want += saved
            if saved != got:
                rec.violation({"api": "Initialization.apply", "case": "identity"}, f"saved initialisation of {c0.id} from year {year}: saved {saved}, model starts with {got}", {"spec": strip(spec), "year": year})
    rep = core.drive([f"init-saved {nC} " + " ".join(map(str, nrows)) + " " + " ".join(map(str, present)) + " " + " ".join(rows_tok)])[0]
    if [unq(z) for z in rep.split()] != [F(v) for v in want]:
        rec.brk("correspondence", "init-saved: model stock differs from the saved values")
    rec.traces += 1


# ----------------------------------------------------------------------------------------------------------
# callers: BadInitialization means "reject these parameters"
# ----------------------------------------------------------------------------------------------------------
def run_callers(rec, r):
    import atomica as at
    from atomica import calibration
    from atomica import project as projmod
    from atomica.model import BadInitialization

    spec = spec_doc("consistent")
    fw, data, parset, settings = initgen.build(spec)
    P = at.Project(framework=fw, databook=data, do_run=False)
    P.settings.update_time_vector(start=2000, end=2002, dt=0.5)
    ps = P.parsets[0]
    # calibration objective: a y-factor that makes the compartment exceed the total => refused => objective is +inf
    for yf in (3.0, 10.0):
        try:
            val = calibration._calculate_objective([yf], [("c1", "pa")], [("alive", "pa", 1.0, "fractional")], ps.copy(), P)
        except Exception as e:
            rec.violation({"api": "calibration._calculate_objective", "case": "bad-init-wrong-exception", "type": type(e).__name__},
                          f"an inadmissible initialisation (c1 x {yf}) raised {type(e).__name__} ({str(e)[:160]}) instead of being refused with BadInitialization (which calibration turns into objective = inf)", {"spec": spec, "y_factor": yf})
            continue
        ok = val == np.inf
        rec.count("callers.objective_inf")
        rec.case({"caller": "_calculate_objective", "y": yf}, True)
        if not ok:
            rec.violation({"api": "calibration._calculate_objective", "case": "bad-init-not-rejected"}, f"objective for an inadmissible initialisation (c1 x {yf}) is {val!r}, expected inf", {"spec": spec, "y_factor": yf})
    try:
        val = calibration._calculate_objective([1.0], [("c1", "pa")], [("alive", "pa", 1.0, "fractional")], ps.copy(), P)
    except Exception as e:
        val = f"{type(e).__name__}: {str(e)[:160]}"
    if isinstance(val, str) or not np.isfinite(val):
        rec.violation({"api": "calibration._calculate_objective", "case": "good-init-rejected"}, f"objective for the consistent databook is {val!r}", {"spec": spec})
    # sampled runs: refusals are retried, anything else propagates
    calls = {"n": 0}
    orig = P.run_sim

    def flaky(*a, **kw):
        calls["n"] += 1
        if calls["n"] <= 3:
            raise BadInitialization("Negative initial popsizes:\n(injected)")
        return orig(*a, **kw)

    P.run_sim = flaky
    try:
        out = projmod._run_sampled_sim(P, ps, None, None, ["s"], max_attempts=10)
        rec.count("callers.sampled_retry")
        rec.case({"caller": "_run_sampled_sim", "refusals": 3}, True)
        if calls["n"] != 4 or len(out) != 1:
            rec.violation({"api": "project._run_sampled_sim", "case": "retry"}, f"3 refused samples then a good one: {calls['n']} attempts, {len(out)} results", {"spec": spec})
    except Exception as e:
        rec.violation({"api": "project._run_sampled_sim", "case": "retry"}, f"refused samples were not retried: {type(e).__name__}: {e}", {"spec": spec})
    finally:
        P.run_sim = orig


# ----------------------------------------------------------------------------------------------------------
# library models (real frameworks and databooks): index 0 vs databook, characteristic sums at every index
# ----------------------------------------------------------------------------------------------------------
def run_library(rec, names):
    import atomica as at
    from atomica import model as M
    from atomica.model import Model

    for name in names:
        try:
            P = at.Project(framework=at.LIBRARY_PATH / f"{name}_framework.xlsx", databook=at.LIBRARY_PATH / f"{name}_databook.xlsx", do_run=False)
            if name == "tb":
                P.settings.sim_dt = 0.5
        except Exception as e:
            rec.notes.append(f"library model {name} not loadable: {type(e).__name__}")
            continue
        ps = P.parsets[0]
        caps = []
        try:
            with wrap_lstsq(caps):
                m = Model(P.settings, P.framework, ps)
            pre = [pop_stock_rows(p) for p in m.pops]
            m.process()
        except Exception as e:
            rec.notes.append(f"library model {name} did not run: {type(e).__name__}: {str(e)[:80]}")
            continue
        rec.count("library.compared")
        live = [p for p in m.pops if p.comps]
        lines = []
        for p, cap in zip(live, caps):
            solved = [c for c in p.comps if not isinstance(c, (M.SourceCompartment, M.SinkCompartment))]
            nrows = [c._vals.shape[0] if isinstance(c, M.TimedCompartment) else 1 for c in solved]
            A, b, x = cap["A"], cap["b"], cap["x"]
            mm, nn = A.shape
            lines.append(" ".join((f"init-accept {mm} {nn} " + " ".join(map(str, nrows)) + " " + " ".join(q(v) for v in A.ravel()) + " " + " ".join(q(v) for v in b) + " " + " ".join(q(v) for v in x)).split()))
        reps = core.drive(lines)
        for p, cap, rep, prows in zip(live, caps, reps, [pr for pr, pp in zip(pre, m.pops) if pp.comps]):
            spec_out = rep.split("|")[0].strip()
            solved_idx = [i for i, c in enumerate(p.comps) if not isinstance(c, (M.SourceCompartment, M.SinkCompartment))]
            flat = [v for i in solved_idx for v in prows[i]]
            A, b, x = cap["A"], cap["b"], cap["x"]
            rec.traces += 1
            rec.case({"library": name, "pop": p.name}, True, sample={"library": name, "pop": p.name, "rows": int(A.shape[0]), "cols": int(A.shape[1])})
            tot = [sum(F(v) for v in prows[i]) for i in solved_idx]
            for i in range(A.shape[0]):
                e = sum((F(A[i, j]) * tot[j] for j in range(A.shape[1])), Fraction(0)) - F(b[i])
                if abs(e) > TOL * (1 + Fraction(1, 10**6)) + Fraction(1e-12 * abs(float(b[i]))):
                    rec.violation({"api": "initialize_compartments", "case": "clip-after-accept" if (x < 0).any() else "accepted-off-tolerance", "library": name},
                                  f"library model {name}, pop {p.name}: row {i} of the initialisation system is off by {float(e):.3e} at the start", {"library": name, "pop": p.name})
            ok = spec_out.startswith("ok") and len(spec_out.split()) - 1 == len(flat) and all(core.close(unq(a), v, scale=max(1.0, max(map(abs, flat), default=1.0)), rtol=1e-12) for a, v in zip(spec_out.split()[1:], flat))
            if not ok and not near_threshold(A, b, x):
                rec.brk("correspondence", f"library model {name}, pop {p.name}: model accept -> {spec_out[:60]!r}, implementation accepted with {flat[:5]}…")
        # characteristic sums at every index (real frameworks: nested characteristics, denominators)
        for p in m.pops:
            for ch in p.characs:
                inc = ch.get_included_comps()
                vals = np.asarray(ch.vals, dtype=float)
                num = np.zeros(len(m.t))
                for c in {id(c): c for c in inc}.values():
                    num = num + np.asarray(c.vals, dtype=float)
                if ch.denominator is not None:
                    d = ch.denominator
                    den = np.zeros(len(m.t))
                    for c in ({id(c): c for c in d.get_included_comps()}.values() if isinstance(d, M.Characteristic) else [d]):
                        den = den + np.asarray(c.vals, dtype=float)
                    with np.errstate(all="ignore"):
                        want = np.where(num < 1e-6, 0.0, np.where(den > 0, num / np.where(den > 0, den, 1), np.inf))
                    edge = np.abs(num - 1e-6) < 1e-15 * np.maximum(1, np.abs(num))
                else:
                    want = num
                    edge = np.zeros(len(m.t), dtype=bool)
                rec.count("charac.compared", len(m.t))
                with np.errstate(all="ignore"):
                    bad = ~edge & ~((vals == want) | (np.abs(vals - want) <= 1e-9 * np.maximum(1e-300, np.maximum(np.abs(want), np.abs(num) if ch.denominator is None else 0))))
                if bad.any():
                    ti = int(np.argmax(bad))
                    dup = len(inc) != len({id(c) for c in inc})
                    rec.violation({"api": "Characteristic.vals", "case": "overlapping-includes" if dup else "charac-sum", "library": name},
                                  f"library model {name}: characteristic {ch.id} at index {ti} reports {vals[ti]!r}, sum of member compartments (/denominator) = {want[ti]!r}", {"library": name, "charac": list(ch.id)})


# ----------------------------------------------------------------------------------------------------------
# run / replay
# ----------------------------------------------------------------------------------------------------------
def run(ctx):
    rec = Rec()
    run_fixed(rec)
    run_callers(rec, ctx.rng)
    run_library(rec, ["udt", "tb_simple"] if ctx.quick else ["udt", "udt_dyn", "usdt", "tb_simple", "tb_simple_dyn", "hypertension", "hypertension_dyn", "dt", "hiv", "hiv_dyn", "diabetes", "service", "cervicalcancer", "tb"])
    rec.merge_into(ctx)
    n_struct = ctx.n(90, 1500)
    variants = ctx.n(4, 6)
    seeds = [ctx.rng.randrange(1 << 30) for _ in range(n_struct)]
    if ctx.quick:
        run_chunk((seeds, variants)).merge_into(ctx)
    else:
        import multiprocessing as mp

        nproc = 14
        chunks = [(seeds[i::nproc * 4], variants) for i in range(nproc * 4)]
        with mp.get_context("fork").Pool(nproc) as pool:
            for rec2 in pool.imap_unordered(run_chunk, chunks):
                rec2.merge_into(ctx)
    ctx.exhaustive = False


def replay(ctx, data):
    rp = data["replay"]
    rec = Rec()
    if "library" in rp:
        run_library(rec, [rp["library"]])
    elif "spec" in rp and "year" in rp:
        built = initgen.build(rp["spec"])
        info = evaluate(rec, rp["spec"], built=built)
        rec.violations = []
        check_saved(rec, rp["spec"], built, info, _random.Random(0), year=rp["year"])
    elif "y_factor" in rp:
        run_callers(rec, _random.Random(0))
    else:
        info = evaluate(rec, rp["spec"], forced=rp.get("forced"), tag=rp.get("tag"))
        print("status:", info["status"], info.get("kind"), info.get("why", ""))
        for cp in info.get("caps") or []:
            print(" A =", cp["A"].tolist())
            print(" b =", cp["b"].tolist())
            print(" x =", cp["x"].tolist(), "(solver:", cp["x_ls"].tolist(), ")")
        if info.get("model") is not None:
            for p in info["model"].pops:
                print(" pop", p.name, {c.name: float(np.asarray(c.vals)[0]) for c in p.comps}, {c.name: float(np.asarray(c.vals)[0]) for c in p.characs})
    want = data.get("key") or {}
    same = [v for v in rec.violations if all(v["key"].get(k_) == val for k_, val in want.items() if k_ in ("api", "case"))]
    for v in rec.violations:
        print("FAILS:" if v in same else "(other finding):", v["key"], "--", v["what"])
    for b in rec.breaks:
        print("BREAK:", b["what"])
    print("FAILS" if same else "passes")
    return 1 if same else 0


if __name__ == "__main__":
    core.main(sys.modules[__name__])
