"""
C16 mode E: the property as stated, evaluated on the implementation.

Jobs are independent and picklable (run in a process pool): each returns a `Rec` that the parent merges into the Ctx.
  ("library", name)                      round trips of one library project (framework, databook, progbook, project file,
                                         result file, calibration file), paired simulations
  ("generated", seed)                    generated databook + program book on a library framework (arbitrary names, several
                                         population types, sparse/dense years, assumptions, uncertainties, transfers, interactions)
  ("ops", project, [op names], seed)     a sequence of editing operations, then the round trip of everything
"""
from __future__ import annotations

import io
import math
import os
import random
import tempfile
import zlib
import traceback

import numpy as np

import c16_util as U

TOL = 1e-9


# ------------------------------------------------------------------------------------------------
# recorder (worker side) and merge (parent side)
# ------------------------------------------------------------------------------------------------
class Rec:
    def __init__(self):
        self.cases, self.counts, self.violations, self.breaks, self.notes = [], {}, [], [], []
        self.traces = 0

    def case(self, key, nontrivial, sample=None):
        self.cases.append((key, bool(nontrivial), sample))

    def count(self, b, k=1):
        self.counts[b] = self.counts.get(b, 0) + k

    def violation(self, key, what, replay):
        self.violations.append((key, what, replay))

    def brk(self, kind, what, **data):
        self.breaks.append((kind, what, data))


def merge(ctx, rec: Rec):
    for key, nt, sample in rec.cases:
        ctx.case(key, nt, sample)
    for b, k in rec.counts.items():
        ctx.count(b, k)
    for key, what, replay in rec.violations:
        ctx.violation(key, what, replay)
    for kind, what, data in rec.breaks:
        ctx.brk(kind, what, **data)
    ctx.traces += rec.traces


# ------------------------------------------------------------------------------------------------
# visible content
# ------------------------------------------------------------------------------------------------
def _f(x):
    return None if x is None else float(x)


def unit_content(u):
    """standard units are case-insensitive for the library (`from_rows` lower-cases them, `write` title-cases them)"""
    if isinstance(u, str) and u.strip().lower() in U.STD_UNITS:
        return u.strip().lower()
    return u


def ts_content(ts):
    return {"t": [float(x) for x in ts.t], "vals": [float(x) for x in ts.vals], "units": unit_content(ts.units), "assumption": _f(ts.assumption), "sigma": _f(ts.sigma)}


def attr_content(t):
    out = {}
    for a, v in t.ts_attributes.items():
        if isinstance(v, dict):
            d = {str(k): x for k, x in v.items() if x is not None}
            if d:
                out[a] = d
        elif v is not None:
            out[a] = v
    return out


def data_content(d):
    out = {"pops": {k: {"label": v["label"], "type": v["type"]} for k, v in d.pops.items()}}
    out["tvec"] = sorted(float(x) for x in d.tvec) if d.tvec is not None else None
    page_of = {}
    for page, names in d.tdve_pages.items():
        for n in names:
            page_of[n] = page
    out["tdve"] = {k: {"name": t.name, "page": page_of.get(k), "pop_type": getattr(t, "pop_type", "<attribute missing>"), "tvec": sorted(float(x) for x in t.tvec), "ts": {p: ts_content(ts) for p, ts in t.ts.items()}, "attr": attr_content(t)} for k, t in d.tdve.items()}
    for nm, l in (("transfers", d.transfers), ("interpops", d.interpops)):
        out[nm] = {
            t.code_name: {
                "full_name": t.full_name,
                "from_pop_type": t.from_pop_type,
                "to_pop_type": t.to_pop_type,
                "from_pops": sorted(t.from_pops),
                "to_pops": sorted(t.to_pops),
                "tvec": sorted(float(x) for x in t.tvec),
                "ts": {str(p): ts_content(ts) for p, ts in t.ts.items()},
                "attr": attr_content(t),
                "attributes": {k: v for k, v in t.attributes.items() if v is not None},
            }
            for t in l
        }
    return out


def progset_content(g):
    out = {
        "pops": {k: {"label": v["label"], "type": v["type"]} for k, v in g.pops.items()},
        "comps": {k: {"label": v["label"], "type": v["type"]} for k, v in g.comps.items()},
        "pars": {k: {"label": v["label"], "type": v["type"]} for k, v in g.pars.items()},
        "tvec": sorted(float(x) for x in g.tvec),
        "currency": g.currency,
    }
    out["programs"] = {
        k: {"label": p.label, "target_pops": sorted(p.target_pops), "target_comps": sorted(p.target_comps), "spend_data": ts_content(p.spend_data), "unit_cost": ts_content(p.unit_cost), "capacity_constraint": ts_content(p.capacity_constraint), "saturation": ts_content(p.saturation), "coverage": ts_content(p.coverage)}
        for k, p in g.programs.items()
    }
    out["covouts"] = {str(k): {"baseline": _f(c.baseline), "cov_interaction": c.cov_interaction, "imp_interaction": c.imp_interaction, "sigma": _f(c.sigma), "progs": {n: float(v) for n, v in c.progs.items()}} for k, c in g.covouts.items()}
    return out


def parset_content(ps):
    def par(p):
        return {"ts": {k: ts_content(ts) for k, ts in p.ts.items()}, "y_factor": {k: float(v) for k, v in p.y_factor.items()}, "meta_y_factor": float(p.meta_y_factor), "skip_function": {k: v for k, v in p.skip_function.items() if v is not None}}

    out = {"pop_names": list(ps.pop_names), "pop_labels": list(ps.pop_labels), "pop_types": list(ps.pop_types)}
    out["pars"] = {k: par(p) for k, p in ps.pars.items()}
    out["transfers"] = {k: {s: par(p) for s, p in d.items()} for k, d in ps.transfers.items()}
    out["interactions"] = {k: {s: par(p) for s, p in d.items()} for k, d in ps.interactions.items()}
    return out


def _cellval(v):
    if v is None:
        return None
    try:
        if isinstance(v, float) and math.isnan(v):
            return None
    except Exception:
        pass
    try:
        import pandas as pd

        if pd.isna(v):
            return None
    except Exception:
        pass
    if isinstance(v, (np.floating, np.integer)):
        return float(v)
    if isinstance(v, (int, float)) and not isinstance(v, bool):
        return float(v)
    return v


def framework_content(f):
    out = {}
    for name, dfs in f.sheets.items():
        if name == "transitions":
            continue
        tabs = []
        for df in dfs:
            d = df.reset_index() if df.index.name else df
            cols = [str(c) for c in d.columns]
            keycol = cols[0] if cols else None
            tab = {}
            for r, row in enumerate(d.to_dict(orient="records")):
                rk = str(row.get(d.columns[0])) if keycol is not None and name not in ("cascades", "plots") else r
                if name in ("cascades", "plots", "about"):
                    rk = r
                for c, v in row.items():
                    v = _cellval(v)
                    if v is not None:
                        tab[f"{rk}|{c}"] = v
            tabs.append(tab)
        out[name] = {str(i): t for i, t in enumerate(tabs)}
    out["transitions"] = {k: sorted(map(tuple, v)) for k, v in f.transitions.items()}
    out["pop_types"] = {k: dict(v) if isinstance(v, dict) else str(v) for k, v in f.pop_types.items()}
    return out


def diff_content(a, b, exact=False, path=""):
    """list of (path, a, b) where the contents differ; numbers to 16 significant digits unless `exact`"""
    out = []
    if isinstance(a, dict) and isinstance(b, dict):
        for k in list(a) + [k for k in b if k not in a]:
            if k not in a:
                out.append((f"{path}/{k}", "<absent>", b[k]))
            elif k not in b:
                out.append((f"{path}/{k}", a[k], "<absent>"))
            else:
                out += diff_content(a[k], b[k], exact, f"{path}/{k}")
    elif isinstance(a, (list, tuple)) and isinstance(b, (list, tuple)):
        if len(a) != len(b):
            out.append((path, a, b))
        else:
            for i, (x, y) in enumerate(zip(a, b)):
                out += diff_content(x, y, exact, f"{path}[{i}]")
    elif isinstance(a, float) and isinstance(b, float):
        if not (a == b or (not exact and U.same16(a, b)) or (math.isnan(a) and math.isnan(b))):
            out.append((path, a, b))
    elif a != b:
        out.append((path, a, b))
    return out


def short(d, n=4):
    return "; ".join(f"{p}: {str(a)[:60]!s} -> {str(b)[:60]!s}" for p, a, b in d[:n]) + (f" (+{len(d) - n} more)" if len(d) > n else "")


# ------------------------------------------------------------------------------------------------
# round trips
# ------------------------------------------------------------------------------------------------
def rt_framework(f):
    import atomica as at

    return at.ProjectFramework(f.to_spreadsheet())


def rt_data(d, fw):
    import atomica as at

    return at.ProjectData.from_spreadsheet(d.to_spreadsheet(), fw)


def rt_progset(g, fw, data):
    import atomica as at

    return at.ProgramSet.from_spreadsheet(g.to_spreadsheet(), framework=fw, data=data, name=g.name)


def rt_parset(ps, fw, data):
    """the parameter set rebuilt from exported spreadsheets: values from the databook, y-factors from the calibration file"""
    import atomica as at

    new = at.ParameterSet(fw, data, ps.name)
    new.load_calibration(ps.calibration_spreadsheet())
    return new


def simulate(settings, fw, parset, progset=None, instructions=None):
    import atomica as at

    return at.run_model(settings=settings, framework=fw, parset=parset, progset=progset, program_instructions=instructions, name="r")


def try_sim(settings, fw, parset, progset=None, instructions=None):
    try:
        return simulate(settings, fw, parset, progset, instructions), None
    except Exception as ex:  # noqa
        return None, f"{type(ex).__name__}: {str(ex)[:160]}"


def quiet():
    import logging
    import warnings

    import atomica

    warnings.filterwarnings("ignore")
    atomica.logger.setLevel(logging.ERROR)


# ------------------------------------------------------------------------------------------------
# job: library project
# ------------------------------------------------------------------------------------------------
def job_library(name, get_project):
    import atomica as at
    import sciris as sc

    rec = Rec()
    P = get_project(name)
    fw, data, parset = P.framework, P.data, P.parsets[0]
    progset = P.progsets[0] if len(P.progsets) else None
    settings = P.settings
    ins = at.ProgramInstructions(start_year=settings.sim_start + 2 * settings.sim_dt) if progset is not None else None
    base = {"api": "library", "project": name}

    def check(what, key_api, a_content, b_content, exact, replay):
        d = diff_content(a_content, b_content, exact=exact)
        rec.case({**base, "what": what}, nontrivial=True, sample={"project": name, "what": what})
        rec.traces += 1
        if d:
            rec.violation({"api": key_api, "case": "content changed" + (" on the second round trip" if exact else "")}, f"{name}: {what}: {short(d)}", replay)
        return not d

    # framework
    f2 = rt_framework(fw)
    check("framework round trip", "ProjectFramework.to_spreadsheet", framework_content(fw), framework_content(f2), False, {"kind": "library", "project": name, "step": "framework"})
    f3 = rt_framework(f2)
    check("framework second round trip", "ProjectFramework.to_spreadsheet", framework_content(f2), framework_content(f3), True, {"kind": "library", "project": name, "step": "framework2"})
    # databook
    d2 = rt_data(data, fw)
    check("databook round trip", "ProjectData.to_spreadsheet", data_content(data), data_content(d2), False, {"kind": "library", "project": name, "step": "databook"})
    d3 = rt_data(d2, f2)
    check("databook second round trip (read with the rebuilt framework)", "ProjectData.to_spreadsheet", data_content(d2), data_content(d3), True, {"kind": "library", "project": name, "step": "databook2"})
    # program book
    g2 = g3 = None
    if progset is not None:
        g2 = rt_progset(progset, fw, data)
        check("program book round trip", "ProgramSet.to_spreadsheet", progset_content(progset), progset_content(g2), False, {"kind": "library", "project": name, "step": "progbook"})
        g3 = rt_progset(g2, f2, d2)
        check("program book second round trip (read with the rebuilt framework and databook)", "ProgramSet.to_spreadsheet", progset_content(g2), progset_content(g3), True, {"kind": "library", "project": name, "step": "progbook2"})
    # paired simulations
    ps2 = rt_parset(parset, f2, d2)
    check("parameter set rebuilt from databook + calibration file", "ParameterSet.calibration_spreadsheet", parset_content(parset), parset_content(ps2), False, {"kind": "library", "project": name, "step": "parset"})
    ps3 = rt_parset(ps2, f3, d3)
    r1, e1 = try_sim(settings, fw, parset, progset, ins)
    r2, e2 = try_sim(settings, f2, ps2, g2, ins)
    r3, e3 = try_sim(settings, f3, ps3, g3, ins)
    rec.case({**base, "what": "paired simulation"}, nontrivial=True)
    if e1 or e2 or e3:
        if not (e1 and e2 and e3):
            rec.violation({"api": "round trip", "case": "simulation runs on one side only"}, f"{name}: original: {e1}; rebuilt: {e2}; rebuilt twice: {e3}", {"kind": "library", "project": name, "step": "sim"})
        else:
            rec.count("library.sim_fails_everywhere")
    else:
        d12, w12 = U.result_diff(r1, r2)
        d23, w23 = U.result_diff(r2, r3)
        rec.count("library.sim_pairs", 2)
        if d12 > TOL:
            rec.violation({"api": "round trip", "case": "simulation differs after spreadsheet round trip"}, f"{name}: results differ by {d12:.3g} at {w12} after framework+databook+progbook round trip", {"kind": "library", "project": name, "step": "sim"})
        if d23 != 0.0:
            rec.violation({"api": "round trip", "case": "second spreadsheet round trip is not bit-identical"}, f"{name}: results differ by {d23:.3g} at {w23} between first and second round trip", {"kind": "library", "project": name, "step": "sim2"})
        # binary files: project and result
        with tempfile.TemporaryDirectory() as tmp:
            P.results.append(r1) if hasattr(P.results, "append") else None
            path = P.save(os.path.join(tmp, "p.prj"))
            Q = at.Project.load(path)
            ok = check("project file: framework", "Project.save", framework_content(fw), framework_content(Q.framework), True, {"kind": "library", "project": name, "step": "prj"})
            ok &= check("project file: databook", "Project.save", data_content(data), data_content(Q.data), True, {"kind": "library", "project": name, "step": "prj"})
            ok &= check("project file: parset", "Project.save", parset_content(parset), parset_content(Q.parsets[0]), True, {"kind": "library", "project": name, "step": "prj"})
            if progset is not None:
                ok &= check("project file: progset", "Project.save", progset_content(progset), progset_content(Q.progsets[0]), True, {"kind": "library", "project": name, "step": "prj"})
            rq, eq = try_sim(Q.settings, Q.framework, Q.parsets[0], Q.progsets[0] if progset is not None else None, ins)
            dq = (math.inf, eq) if eq else U.result_diff(r1, rq)
            rec.case({**base, "what": "project file: simulation"}, nontrivial=True)
            if dq[0] != 0.0:
                rec.violation({"api": "Project.save", "case": "simulation not bit-identical after save/load"}, f"{name}: {dq}", {"kind": "library", "project": name, "step": "prj-sim"})
            rpath = os.path.join(tmp, "r.obj")
            sc.save(rpath, r1)
            rl = sc.load(rpath)
            dr = U.result_diff(r1, rl)
            rec.case({**base, "what": "result file"}, nontrivial=True)
            if dr[0] != 0.0:
                rec.violation({"api": "Result save/load", "case": "arrays not bit-identical"}, f"{name}: {dr}", {"kind": "library", "project": name, "step": "result"})
    rec.count("library.projects")
    return rec


# ------------------------------------------------------------------------------------------------
# job: generated FRAMEWORK (junctions with residual outflows, duration groups, sources/sinks, transfers): export, re-import, compare, simulate
# ------------------------------------------------------------------------------------------------
def job_genfw(seed):
    import random as _random

    import atomica as at
    from vlib import genfw

    rec = Rec()
    r = _random.Random(seed)
    spec = None
    for _ in range(20):
        sp = genfw.random_spec(r, "calibrated", {"junctions": r.choice([1, 2, 3]), "residual": r.random() < 0.7, "timed": r.choice([0, 1]), "max_rows": 8, "nsteps": 6,
                                                 "npops": r.choice([1, 2]), "functions": r.random() < 0.5})
        try:
            fw, data, parset, settings = genfw.build(sp)
            # the generator dates some values between the databook's year columns; a databook holds one column per entry of its tvec (values dated elsewhere are
            # outside the domain of the round-trip law, see Tables.WF / tdve_drop_witness), so the year vector is widened to every date in use first
            times = {float(t) for t in data.tvec}
            for tab in list(data.tdve.values()) + list(data.transfers) + list(data.interpops):
                for ts in tab.ts.values():
                    times |= {float(t) for t in ts.t}
            data.change_tvec(np.array(sorted(times)))
            parset = at.ParameterSet(fw, data, "default")
            r1, e1 = try_sim(settings, fw, parset)
            if e1 is None:
                spec = sp
                break
        except Exception:
            continue
    if spec is None:
        rec.count("genfw.none_accepted")
        return rec
    # a second parameter on one link whose code name CONTAINS the code name of the first (rec_rate_tx / rec_rate): both must survive the export
    import copy as _copy
    kinds = {c["name"]: c["kind"] for c in spec["comps"]}
    byname = {p_["name"]: p_ for p_ in spec["pars"]}
    cand = [i for i, (a, b, pn) in enumerate(spec["transitions"]) if pn != ">" and kinds.get(a) == "normal" and pn in byname and not byname[pn].get("timed")
            and byname[pn]["format"] in ("rate", "probability") and not byname[pn].get("function")]
    if cand and r.random() < 0.6:
        sp2 = _copy.deepcopy(spec)
        i = r.choice(cand)
        a, b, pn = sp2["transitions"][i]
        twin = _copy.deepcopy(next(p_ for p_ in sp2["pars"] if p_["name"] == pn))
        twin["name"] = pn + "_b"
        sp2["pars"].append(twin)
        sp2["transitions"].insert(i, [a, b, pn + "_b"])   # the longer name stands first in the cell
        try:
            fw2, data2, parset2, settings2 = genfw.build(sp2)
            times = {float(t) for t in data2.tvec}
            for tab in list(data2.tdve.values()) + list(data2.transfers) + list(data2.interpops):
                for ts in tab.ts.values():
                    times |= {float(t) for t in ts.t}
            data2.change_tvec(np.array(sorted(times)))
            parset2 = at.ParameterSet(fw2, data2, "default")
            r1b, e1b = try_sim(settings2, fw2, parset2)
            if e1b is None:
                spec, fw, data, parset, settings, r1 = sp2, fw2, data2, parset2, settings2, r1b
                rec.count("genfw.with_substring_named_parameters_on_one_link")
        except Exception:
            pass
    base = {"api": "generated framework", "seed": seed}
    replay = {"kind": "genfw", "seed": seed, "spec": spec}
    n_res = sum(1 for t in spec["transitions"] if t[2] == ">")
    rec.count("genfw.frameworks")
    if n_res:
        rec.count("genfw.with_residual_link")
    if any(p.get("timed") for p in spec["pars"]):
        rec.count("genfw.with_duration_group")
    try:
        f2 = rt_framework(fw)
        f3 = rt_framework(f2)
    except Exception as ex:
        rec.violation({"api": "ProjectFramework.to_spreadsheet", "case": "generated framework cannot be read back"}, f"generated framework (seed {seed}): {type(ex).__name__}: {str(ex)[:300]}", replay)
        return rec
    rec.case({**base, "what": "framework round trip"}, nontrivial=True, sample={"seed": seed, "residual_links": n_res})
    rec.traces += 1
    d = diff_content(framework_content(fw), framework_content(f2))
    if d:
        rec.violation({"api": "ProjectFramework.to_spreadsheet", "case": "content changed"}, f"generated framework (seed {seed}): {short(d)}", replay)
        return rec
    dd = diff_content(framework_content(f2), framework_content(f3), exact=True)
    if dd:
        rec.violation({"api": "ProjectFramework.to_spreadsheet", "case": "content changed on the second round trip"}, f"generated framework (seed {seed}): {short(dd)}", replay)
    try:
        d2 = rt_data(data, f2)
        ps2 = at.ParameterSet(f2, d2, "rebuilt")
        r2, e2 = try_sim(settings, f2, ps2)
    except Exception as ex:
        r2, e2 = None, f"{type(ex).__name__}: {str(ex)[:200]}"
    rec.case({**base, "what": "paired simulation"}, nontrivial=True)
    if e2:
        rec.violation({"api": "round trip", "case": "simulation runs on one side only"}, f"generated framework (seed {seed}): original runs; rebuilt from its own spreadsheets: {e2}", replay)
    else:
        d12, w12 = U.result_diff(r1, r2)
        rec.count("genfw.sim_pairs")
        if d12 > TOL:
            # a population-weighted average is discontinuous where its weights vanish: when the weighting compartment is drained to floating-point dust in one run and to exactly 0 in the
            # other (the 16th digit of an input decides), the two averages differ by O(1) although the inputs agree to 16 digits. Such a model is ill-conditioned, not a round-trip failure.
            def dust_weights(res):
                for pop in res.model.pops:
                    for par in pop.pars:
                        ag = getattr(par, "pop_aggregation", None)
                        if ag and len(ag) > 3:
                            for v in res.model._vars_by_pop[ag[3]]:
                                x = np.abs(np.asarray(v.vals, dtype=float))
                                if np.any((x < 1e-9) ):
                                    return True
                return False
            if dust_weights(r1) or dust_weights(r2):
                rec.count("genfw.ill_conditioned_weighted_average(skipped)")
                return rec
            rec.violation({"api": "round trip", "case": "simulation differs after spreadsheet round trip"}, f"generated framework (seed {seed}): results differ by {d12:.3g} at {w12} after framework+databook round trip", replay)
    return rec


# ------------------------------------------------------------------------------------------------
# job: objects stamped with the version at which their last migration was introduced (files written by that release): loading them must not run that migration again
# ------------------------------------------------------------------------------------------------
def job_versions(name, get_project):
    import atomica as at
    import sciris as sc
    from atomica import migration as MG

    rec = Rec()
    P = sc.dcp(get_project(name))
    r0, e0 = try_sim(P.settings, P.framework, P.parsets[0])
    if e0 is None:
        P.parsets[0].set_initialization(r0, year=float(r0.t[len(r0.t) // 2]))   # a saved initial state travels with the parameter set
    objs = {"ParameterSet": P.parsets[0], "ProgramSet": P.progsets[0] if len(P.progsets) else None, "ProjectFramework": P.framework}
    content = {"ParameterSet": lambda o: (parset_content(o), None if o.initialization is None else {str(k): np.asarray(v, dtype=float).tolist() for k, v in o.initialization.values.items()}),
               "ProgramSet": progset_content, "ProjectFramework": framework_content}
    for cls, obj in objs.items():
        if obj is None or cls not in MG.migrations:
            continue
        last = sorted(MG.migrations[cls], key=lambda m: MG.LooseVersion(m.new_version))[-1].new_version
        before = content[cls](obj)
        o2 = sc.dcp(obj)
        o2.version = last          # what a file written by release `last` holds: an object that is already in the format that release introduced
        try:
            o3 = MG.migrate(sc.loadstr(sc.dumpstr(o2)))
            after = content[cls](o3)
        except Exception as ex:
            rec.violation({"api": "migration.migrate", "case": "raises on an object of the release that introduced its last migration", "class": cls}, f"{name}: {cls} stamped {last}: {type(ex).__name__}: {str(ex)[:200]}", {"kind": "versions", "project": name, "class": cls})
            continue
        rec.count("versions." + cls)
        rec.case({"api": "migration.migrate", "project": name, "class": cls, "version": last}, nontrivial=True)
        rec.traces += 1
        if before != after:
            d = diff_content(before[0], after[0], exact=True) if cls == "ParameterSet" else diff_content(before, after, exact=True)
            what = short(d) if d else "the saved initialization: " + ("dropped" if after[1] is None else "changed")
            rec.violation({"api": "migration.migrate", "case": "object of the release that introduced its last migration is migrated again", "class": cls},
                          f"{name}: a {cls} written by release {last} (already in that format) changes when it is loaded: {what}", {"kind": "versions", "project": name, "class": cls})
    return rec


# ------------------------------------------------------------------------------------------------
# job: program names that contain each other (ACF / ACF-p): removing one program must not touch the explicit interaction outcomes of the others
# ------------------------------------------------------------------------------------------------
def job_substring_programs(name, get_project):
    import atomica as at
    import sciris as sc
    from atomica.programs import Covout

    rec = Rec()
    P = sc.dcp(get_project(name))
    if not len(P.progsets):
        return rec
    g = P.progsets[0]
    fw, data = P.framework, P.data
    pop = list(g.pops.keys())[0]
    par = next((p_ for (p_, q_) in g.covouts.keys() if q_ == pop), None) or list(g.covouts.keys())[0][0]
    for code in ("zq", "zq-p", "zw"):
        g.add_program(code, "Program " + code)
        pr = g.programs[code]
        pr.target_pops = [pop]
        pr.target_comps = [c for c, v in g.comps.items() if not v["non_targetable"]][:1]
        pr.spend_data.insert(None, 1000.0)
        pr.unit_cost.insert(None, 10.0)
    g.covouts[(par, pop)] = Covout(par=par, pop=pop, progs={"zq": 0.5, "zq-p": 0.6, "zw": 0.7}, cov_interaction="additive", imp_interaction="zq-p+zw=0.9,zq+zw=0.8", baseline=0.1)
    g.remove_program("zq")
    c = g.covouts[(par, pop)]
    rec.count("substring.programs")
    rec.case({"api": "ProgramSet.remove_program", "project": name, "case": "names containing each other"}, nontrivial=True)
    rec.traces += 1
    kept = {frozenset(x.strip() for x in t.split("=")[0].split("+")): float(t.split("=")[1]) for t in (c.imp_interaction or "").split(",") if "=" in t}
    want = {frozenset({"zq-p", "zw"}): 0.9}
    replay = {"kind": "substring_programs", "project": name}
    if kept != want:
        rec.violation({"api": "ProgramSet.remove_program", "case": "interaction of other programs changed"},
                      f"{name}: programs zq, zq-p, zw with explicit outcomes 'zq-p+zw=0.9,zq+zw=0.8'; after remove_program('zq') the covout keeps {c.imp_interaction!r}; the outcome of zq-p+zw (0.9) belongs to programs that are still there", replay)
        return rec
    try:
        g2 = rt_progset(g, fw, data)
        d = diff_content(progset_content(g), progset_content(g2))
    except Exception as ex:
        rec.violation({"api": "ProgramSet.to_spreadsheet", "case": "cannot be read back"}, f"{name}: after remove_program on programs whose names contain each other: {type(ex).__name__}: {str(ex)[:200]}", replay)
        return rec
    if d:
        rec.violation({"api": "ProgramSet.to_spreadsheet", "case": "content changed"}, f"{name}: after remove_program on programs whose names contain each other: {short(d)}", replay)
    return rec


# ------------------------------------------------------------------------------------------------
# job: generated databook + program book
# ------------------------------------------------------------------------------------------------
PROG_ALPHA = [c for c in U.INNER if c not in "+,=:"]


def gen_prog_name(rng, used):
    for _ in range(100):
        s = U.gen_name(rng, None, lo=2, hi=12)
        if any(c in s for c in "+,=:") or s.lower() in used or s.lower() in ("baseline value", "coverage interaction", "impact interaction", "uncertainty"):
            continue
        used.add(s.lower())
        return s
    raise RuntimeError("prog name")


def gen_data(rng, fw, lib_data, rec=None):
    """ProjectData.new on `fw` with arbitrary population / transfer names, values taken from the library databook of the
    same framework (so that the model can run), re-dated on sparse or dense years, with assumptions and uncertainties."""
    import atomica as at
    from atomica.utils import TimeSeries

    used = set(k.lower() for k in list(fw.comps.index) + list(fw.pars.index) + list(fw.characs.index))
    pop_types = list(fw.pop_types.keys())
    lib_by_type = {}
    for k, v in lib_data.pops.items():
        lib_by_type.setdefault(v["type"], []).append(k)
    pops, origin = {}, {}
    for pt in pop_types:
        if pt not in lib_by_type:
            continue
        for _ in range(rng.choice([1, 1, 2, 3]) if len(pop_types) == 1 else rng.choice([1, 2])):
            code = U.gen_name(rng, used, lo=2, hi=10)
            label = U.gen_name(rng, used, lo=3, hi=16)
            pops[code] = {"label": label, "type": pt}
            origin[code] = rng.choice(lib_by_type[pt])
    transfers = {}
    for _ in range(rng.choice([0, 0, 1, 2])):
        transfers[U.gen_name(rng, used, lo=2, hi=8, plain=(rng.random() < 0.5))] = {"label": U.gen_name(rng, used, lo=3, hi=14), "type": rng.choice([pt for pt in pop_types if pt in lib_by_type])}
    years = rng.choice(["dense", "sparse", "single", "fractional", "monthly"])
    start = float(rng.choice([2000, 2010, 2014, 2016]))
    tvec = {"dense": [start + i for i in range(rng.randint(3, 9))], "sparse": sorted({start + rng.randint(0, 15) for _ in range(4)}), "single": [start], "fractional": [start + 0.5 * i for i in range(5)],
            "monthly": [start + i / 12 for i in range(6)]}[years]   # years that need all 16 significant digits
    data = at.ProjectData.new(fw, np.array(tvec, dtype=float), pops=pops, transfers=transfers)
    scale = {code: rng.choice([1.0, 1.0, 0.5, 2.0, 1.37]) for code in pops}
    for name, tdve in data.tdve.items():
        lib = lib_data.tdve.get(name)
        is_stock = name in fw.comps.index or name in fw.characs.index
        ttimes = [float(t) for t in tdve.tvec]
        for code in list(tdve.ts.keys()):
            ts = tdve.ts[code]
            src = None
            if lib is not None:
                src = lib.ts.get(origin.get(code)) or lib.ts.get("all") or lib.ts.get("All") or (list(lib.ts.values())[0] if len(lib.ts) else None)
            mode = rng.choice(["assumption", "all", "some", "one"]) if ttimes else "assumption"
            fac = scale.get(code, 1.0) if (is_stock and (src is None or (src.units or "").lower().startswith("number"))) else 1.0

            def val(t):
                if src is not None and src.has_data:
                    v = float(src.interpolate(np.array([t if t is not None else (ttimes[0] if ttimes else 2016.0)]))[0])
                    return v * fac
                return 0.0

            new = TimeSeries(units=ts.units)
            if mode == "assumption":
                new.insert(None, val(None))
            else:
                pick = ttimes if mode == "all" else ([rng.choice(ttimes)] if mode == "one" else [t for t in ttimes if rng.random() < 0.5] or [ttimes[0]])
                for t in pick:
                    new.insert(t, val(t))
                if rng.random() < 0.2:
                    new.insert(None, val(None))  # assumption next to time values (ignored by the model, but content)
            # an uncertainty can be entered for every quantity except the duration of a timed parameter (decided from the FRAMEWORK, not from the flag ProjectData.new happened to set)
            is_timed_par = name in fw.pars.index and fw.pars.at[name, "timed"] == "y"
            if rng.random() < 0.3 and not is_timed_par:
                new.sigma = rng.choice([0.0, 0.1, 0.05])
            tdve.ts[code] = new
            if rng.random() < 0.2:
                tdve.ts_attributes["Provenance"][code] = rng.choice(["WHO 2019", "assumed", "étude 2020"])
    for tdc in data.transfers + data.interpops:
        pairs = [(a, b) for a in tdc.from_pops for b in tdc.to_pops if (tdc.type == "interaction" or a != b)]
        for a, b in pairs:
            if tdc.type == "interaction" or rng.random() < 0.5:
                ts = TimeSeries(units=rng.choice(tdc.allowed_units[:2]) if tdc.type == "transfer" else tdc.allowed_units[0])
                if rng.random() < 0.5 or not tvec:
                    ts.insert(None, rng.choice([0.0, 0.01, 1.0, 0.5]))
                else:
                    for t in tvec:
                        if rng.random() < 0.6:
                            ts.insert(t, rng.choice([0.0, 0.01, 0.02, 1.0]))
                    if not ts.has_data:
                        ts.insert(tvec[0], 0.01)
                if rng.random() < 0.2:
                    ts.sigma = 0.0
                tdc.ts[(a, b)] = ts
    return data, {"years": years, "npops": len(pops), "ntransfers": len(transfers), "poptypes": len(pop_types)}


def gen_progset(rng, fw, data, tvec=None):
    import atomica as at
    from atomica.programs import Covout

    used = set()
    nprogs = rng.choice([1, 2, 3, 4])
    progs = {}
    for _ in range(nprogs):
        progs[gen_prog_name(rng, used)] = gen_prog_name(rng, used)
    if tvec is None:
        start = float(rng.choice([2014, 2016, 2017]))
        tvec = rng.choice([[start + i for i in range(4)], [start], sorted({start + rng.randint(0, 6) for _ in range(3)})])
    g = at.ProgramSet.new(name="gen", tvec=np.array(tvec, dtype=float), progs=progs, framework=fw, data=data)
    targetable = [k for k, v in g.comps.items() if not v["non_targetable"]]
    for prog in g.programs.values():
        pt = rng.choice(sorted({v["type"] for v in g.pops.values()}))
        cand_pops = [k for k, v in g.pops.items() if v["type"] == pt]
        prog.target_pops = rng.sample(cand_pops, rng.randint(1, len(cand_pops)))
        cand_comps = [k for k in targetable if g.comps[k]["type"] == pt]
        prog.target_comps = rng.sample(cand_comps, rng.randint(1, len(cand_comps))) if cand_comps else []
        special = [k for k, v in g.comps.items() if v["non_targetable"] and v["type"] == pt]
        if special and prog.target_comps and zlib.crc32(repr((prog.name, sorted(prog.target_comps))).encode()) % 4 == 0:
            # a program may also reach people in a sink / source / junction compartment (the program book lists such a compartment only when it is in use)
            prog.target_comps = prog.target_comps + [special[zlib.crc32(prog.name.encode()) % len(special)]]
        mode = rng.choice(["assumption", "times"]) if len(tvec) else "assumption"
        if mode == "assumption":
            prog.spend_data.insert(None, rng.choice([0.0, 1e4, 2.5e5, 1234567.891]))
            prog.unit_cost.insert(None, rng.choice([1.0, 10.0, 99.5, 0.33]))
        else:
            for t in tvec:
                if rng.random() < 0.7:
                    prog.spend_data.insert(t, rng.choice([0.0, 1e4, 2.5e5, rng.uniform(1e3, 1e6)]))
            if not prog.spend_data.has_data:
                prog.spend_data.insert(tvec[0], 1e4)
            prog.unit_cost.insert(rng.choice(tvec), rng.choice([1.0, 10.0, 99.5, rng.uniform(1, 100)]))
        if rng.random() < 0.3:
            prog.unit_cost.units = g.currency + "/person/year"
        if rng.random() < 0.3:
            prog.capacity_constraint.insert(None if (rng.random() < 0.5 or not len(tvec)) else rng.choice(tvec), rng.choice([100.0, 1e4]))
        if rng.random() < 0.3:
            prog.saturation.insert(None, rng.choice([0.5, 0.9, 1.0]))
        if rng.random() < 0.2:
            prog.coverage.insert(rng.choice(tvec) if len(tvec) else None, rng.choice([10.0, 1000.0]))
        for ts in (prog.spend_data, prog.unit_cost):
            if rng.random() < 0.3:
                ts.sigma = 0.0
    names = list(g.programs.keys())
    for par, pspec in g.pars.items():
        for pop, popspec in g.pops.items():
            if popspec["type"] != pspec["type"] or rng.random() < 0.5:
                continue
            sub = [n for n in names if pop in g.programs[n].target_pops and rng.random() < 0.8]
            baseline = rng.choice([0.0, 0.1, 0.25])
            outs = {n: rng.choice([0.2, 0.5, 0.75, 0.0, round(rng.uniform(0, 1), 3)]) for n in sub}   # an outcome of exactly 0 is a value, not an empty cell
            inter = None
            if len(sub) >= 2 and rng.random() < 0.3:
                inter = "+".join(rng.sample(sub, 2)) + "=" + repr(rng.choice([0.6, 0.8, 0.95]))
            g.covouts[(par, pop)] = Covout(par=par, pop=pop, progs=outs, cov_interaction=rng.choice(["additive", "random", "nested"]), imp_interaction=inter, uncertainty=rng.choice([None, None, 0.0]), baseline=baseline)
    return g


CHANGE_TVEC_KEY = {"api": "ProjectData.change_tvec", "case": "list argument: time-specific values dropped on export"}
GEN_FRAMEWORKS = ["combined", "tb_simple", "udt", "hypertension", "usdt", "udt_dyn"]


def job_generated(seed, get_project):
    import atomica as at

    rec = Rec()
    rng = random.Random(seed)
    np.random.seed(seed % (2**32))
    name = rng.choice(GEN_FRAMEWORKS)
    P = get_project(name)
    fw, settings = P.framework, P.settings
    data, info = gen_data(rng, fw, P.data)
    variant = rng.choice(["plain"] * 6 + ["change_tvec_array", "change_tvec_list"])
    if variant != "plain":
        # ProjectData.change_tvec: "A float, list, or array containing time values (in years) for the databook"
        years = sorted({float(t) for tab in data.tables() for t in tab.tvec} | {float(t) for tab in data.tables() for ts in tab.ts.values() for t in ts.t} | {2030.0})
        data.change_tvec(np.array(years) if variant == "change_tvec_array" else list(years))
    rec.count("generated.variant=" + variant)
    replay = {"kind": "generated", "seed": seed}
    base = {"api": "generated", "framework": name, "seed": seed}
    rec.count("generated.framework=" + name)
    rec.count("generated.years=" + info["years"])
    rec.count("generated.transfers=%d" % info["ntransfers"])
    rec.count("generated.poptypes=%d" % info["poptypes"])
    rec.case({**base, "what": "databook"}, nontrivial=True, sample={"framework": name, **info})
    rec.traces += 1
    try:
        d2 = rt_data(data, fw)
    except Exception as ex:  # noqa
        if variant == "change_tvec_list":
            rec.violation(CHANGE_TVEC_KEY, f"generated databook on {name} (seed {seed}) after change_tvec(list): to_spreadsheet/from_spreadsheet raised {type(ex).__name__}: {str(ex)[:200]}", replay)
        else:
            rec.violation({"api": "ProjectData.to_spreadsheet", "case": "generated databook cannot be read back"}, f"{name} seed {seed}: {type(ex).__name__}: {str(ex)[:300]}", replay)
        return rec
    d = diff_content(data_content(data), data_content(d2))
    if d and variant == "change_tvec_list":
        rec.violation(CHANGE_TVEC_KEY, f"generated databook on {name} (seed {seed}) after change_tvec(list): {short(d)}", replay)
        return rec
    elif d:
        rec.violation({"api": "ProjectData.to_spreadsheet", "case": "content changed"}, f"generated databook on {name} (seed {seed}): {short(d)}", replay)
    d3 = rt_data(d2, fw)
    dd = diff_content(data_content(d2), data_content(d3), exact=True)
    if dd:
        rec.violation({"api": "ProjectData.to_spreadsheet", "case": "content changed on the second round trip"}, f"generated databook on {name} (seed {seed}): {short(dd)}", replay)
    # program book on the generated databook
    no_years = rng.random() < 0.08
    g = gen_progset(rng, fw, data, tvec=[] if no_years else None)
    rec.count("generated.progbook_years=" + ("none" if no_years else "some"))
    rec.case({**base, "what": "progbook"}, nontrivial=True)
    rec.traces += 1
    g2 = g3 = None
    try:
        g2 = rt_progset(g, fw, data)
    except Exception as ex:  # noqa
        if no_years and "Could not find an assumption or time-specific value" in str(ex):
            rec.violation({"api": "TimeDependentValuesEntry.from_rows", "case": "program book without year columns ('Assumption' heading) is rejected"}, f"{name} seed {seed}: a ProgramSet with assumption-only data and no data years is written by to_spreadsheet but from_spreadsheet raises: {str(ex)[-160:]}", replay)
        else:
            rec.violation({"api": "ProgramSet.to_spreadsheet", "case": "generated program book cannot be read back"}, f"{name} seed {seed}: {type(ex).__name__}: {str(ex)[:300]}", replay)
    if g2 is not None:
        d = diff_content(progset_content(g), progset_content(g2))
        if d:
            rec.violation({"api": "ProgramSet.to_spreadsheet", "case": "content changed"}, f"generated program book on {name} (seed {seed}): {short(d)}", replay)
        g3 = rt_progset(g2, fw, d2)
        dd = diff_content(progset_content(g2), progset_content(g3), exact=True)
        if dd:
            rec.violation({"api": "ProgramSet.to_spreadsheet", "case": "content changed on the second round trip"}, f"generated program book on {name} (seed {seed}): {short(dd)}", replay)
    # paired simulations (when the generated data is complete enough for the model)
    try:
        ps1, ps2, ps3 = at.ParameterSet(fw, data), at.ParameterSet(fw, d2), at.ParameterSet(fw, d3)
    except Exception as ex:  # noqa
        rec.count("generated.parset_fails")
        return rec
    ins = at.ProgramInstructions(start_year=settings.sim_start + 2 * settings.sim_dt)
    for tag, progs in (("parset", (None, None, None)), ("progset", (g, g2, g3))):
        if tag == "progset" and g2 is None:
            continue
        i = ins if tag == "progset" else None
        (r1, e1), (r2, e2), (r3, e3) = try_sim(settings, fw, ps1, progs[0], i), try_sim(settings, fw, ps2, progs[1], i), try_sim(settings, fw, ps3, progs[2], i)
        rec.case({**base, "what": "sim " + tag}, nontrivial=not (e1 and e2))
        if e1 or e2 or e3:
            if not (e1 and e2 and e3):
                rec.violation({"api": "round trip", "case": "simulation runs on one side only"}, f"generated {name} seed {seed} ({tag}): original: {e1}; rebuilt: {e2}; twice: {e3}", replay)
            else:
                rec.count("generated.sim_fails_everywhere")
            continue
        rec.count("generated.sim_pairs", 2)
        d12, w12 = U.result_diff(r1, r2)
        d23, w23 = U.result_diff(r2, r3)
        if d12 > TOL:
            rec.violation({"api": "round trip", "case": "simulation differs after spreadsheet round trip"}, f"generated {name} seed {seed} ({tag}): {d12:.3g} at {w12}", replay)
        if d23 != 0.0:
            rec.violation({"api": "round trip", "case": "second spreadsheet round trip is not bit-identical"}, f"generated {name} seed {seed} ({tag}): {d23:.3g} at {w23}", replay)
    return rec


# ------------------------------------------------------------------------------------------------
# job: sequences of editing operations, then the round trip of everything
# ------------------------------------------------------------------------------------------------
OPS = ["copy", "add_pop", "remove_pop", "add_prog", "remove_prog", "add_par", "remove_par", "sample_parset", "sample_progset", "reconcile", "load_calibration"]
OP_API = {
    "copy": "copy",
    "add_pop": "add_pop",
    "remove_pop": "remove_pop",
    "add_prog": "ProgramSet.add_program",
    "remove_prog": "ProgramSet.remove_program",
    "add_par": "ProgramSet.add_par",
    "remove_par": "ProgramSet.remove_par",
    "sample_parset": "ParameterSet.sample",
    "sample_progset": "ProgramSet.sample",
    "reconcile": "reconciliation.reconcile",
    "load_calibration": "ParameterSet.load_calibration",
}


TRANSFER_KEY = {"api": "ProgramSet.add_par", "case": "transfer parameter: export cannot be read back (and the Model cannot be built)"}


class Skip(Exception):
    """the operation has no valid instance in the current state (e.g. removing the only population)"""


class OpFailed(Exception):
    def __init__(self, key, what):
        super().__init__(what)
        self.key, self.what = key, what


class State:
    def __init__(self, P):
        self.P = P  # Project: framework, settings (reconcile needs a Project)
        self.fw, self.settings = P.framework, P.settings
        self.data, self.parset, self.progset = P.data, P.parsets[0], P.progsets[0]
        self.removed_pars = []
        self.transfer_pars = []

    def rebuild_parset(self):
        """after a change of populations: new ParameterSet from the data, y-factors carried over through a calibration file"""
        import atomica as at

        old = self.parset
        new = at.ParameterSet(self.fw, self.data, old.name)
        new.load_calibration(old.calibration_spreadsheet())
        self.parset = new
        self.P.data = self.data
        self.P.parsets[0] = new


def stale_covouts(progset):
    """(par, pop) of every Covout whose private cache is not what a Covout built from its visible data would hold"""
    out = []
    for k, c in progset.covouts.items():
        try:
            from atomica.programs import Covout

            r = Covout(par=c.par, pop=c.pop, cov_interaction=c.cov_interaction, imp_interaction=c.imp_interaction, uncertainty=c.sigma, baseline=c.baseline, progs=dict(c.progs))
        except AssertionError:
            out.append((k, "imp_interaction"))
            continue
        if list(r._cached_progs.keys()) != list(c._cached_progs.keys()) or not np.array_equal(np.asarray(r._deltas), np.asarray(c._deltas)) or not np.array_equal(np.asarray(r._combination_outcomes), np.asarray(c._combination_outcomes)):
            out.append((k, "cache"))
    return out


def apply_op(st: State, op: str, rng):
    """apply one editing operation through the library's public API (values are edited the way a user script would)"""
    import atomica as at
    import sciris as sc

    if op == "copy":
        st.data = sc.dcp(st.data)
        st.parset = st.parset.copy()
        st.progset = st.progset.copy()
        st.P.data, st.P.parsets[0], st.P.progsets[0] = st.data, st.parset, st.progset
    elif op == "add_pop":
        used = set(k.lower() for k in st.data.pops.keys()) | set(v["label"].lower() for v in st.data.pops.values())
        code, label = U.gen_name(rng, used, lo=2, hi=8), U.gen_name(rng, used, lo=3, hi=12)
        like = rng.choice(list(st.data.pops.keys()))
        ptype = st.data.pops[like]["type"]
        st.data.add_pop(code, label, pop_type=ptype)
        for tdve in st.data.tdve.values():
            if code in tdve.ts and like in tdve.ts:
                tdve.ts[code] = tdve.ts[like].copy()
        st.progset.add_pop(code, label, pop_type=ptype)
        st.rebuild_parset()
    elif op == "remove_pop":
        by_type = {}
        for k, v in st.data.pops.items():
            by_type.setdefault(v["type"], []).append(k)
        cands = [k for ks in by_type.values() if len(ks) > 1 for k in ks]
        if not cands:
            raise Skip()
        pop = rng.choice(cands)
        # a population that is only on the receiving side of an interaction between two population types: it must leave that table as well
        cross = [p_ for p_ in cands if any(p_ in i_.to_pops and p_ not in i_.from_pops for i_ in list(st.data.transfers) + list(st.data.interpops))]
        if cross and rng.random() < 0.7:
            pop = rng.choice(sorted(cross))
        try:
            st.data.remove_pop(pop)
        except ValueError as ex:
            raise OpFailed({"api": "ProjectData.remove_pop", "case": "raises ValueError with several population types"}, f"ProjectData.remove_pop({pop!r}) raised ValueError: {ex} (databook with population types {sorted(by_type)}); the population was already deleted from data.pops")
        st.progset.remove_pop(pop)
        st.rebuild_parset()
    elif op == "add_prog":
        used = set(k.lower() for k in st.progset.programs.keys()) | set(p.label.lower() for p in st.progset.programs.values())
        code, label = gen_prog_name(rng, used), gen_prog_name(rng, used)
        st.progset.add_program(code, label)
        prog = st.progset.programs[code]
        like = rng.choice([p for p in st.progset.programs.values() if p.name != code] or [prog])
        prog.target_pops = list(like.target_pops) or [list(st.progset.pops.keys())[0]]
        prog.target_comps = list(like.target_comps)
        tv = [float(t) for t in st.progset.tvec]
        prog.spend_data.insert(rng.choice(tv) if tv else None, rng.choice([1e4, 5e5]))
        prog.unit_cost.insert(rng.choice(tv) if tv else None, rng.choice([10.0, 55.5]))
    elif op == "remove_prog":
        if len(st.progset.programs) < 2:
            raise Skip()
        st.progset.remove_program(rng.choice(list(st.progset.programs.keys())))
    elif op == "remove_par":
        cands = [k for k in st.progset.pars.keys()]
        if len(cands) < 2:
            raise Skip()
        k = rng.choice(cands)
        st.removed_pars.append((k, dict(st.progset.pars[k])))
        st.progset.remove_par(k)
    elif op == "add_par":
        transfer_pars = ["%s_%s_to_%s" % (t.code_name, a, b) for t in st.data.transfers for (a, b) in t.ts.keys()]
        transfer_pars = [x for x in transfer_pars if x not in st.progset.pars]
        if st.removed_pars and (not transfer_pars or rng.random() < 0.5):
            k, spec = st.removed_pars.pop()
            st.progset.add_par(k, spec["label"], pop_type=spec["type"])
        elif transfer_pars:
            k = rng.choice(transfer_pars)
            tname = [t for t in st.data.transfers if k.startswith(t.code_name + "_")][0]
            st.progset.add_par(k, k, pop_type=tname.from_pop_type)
            st.transfer_pars.append(k)
        else:
            raise Skip()
    elif op == "sample_parset":
        st.parset = st.parset.sample()
        st.P.parsets[0] = st.parset
    elif op == "sample_progset":
        st.progset = st.progset.sample()
        st.P.progsets[0] = st.progset
    elif op == "reconcile":
        # precondition of reconcile(): a valid program set and a model that runs with it (a program set whose programs target
        # nothing, or that holds a transfer parameter, cannot be simulated at all -- not a round-trip matter)
        try:
            st.progset.validate()
            simulate(st.settings, st.fw, st.parset, st.progset, at.ProgramInstructions(start_year=st.settings.sim_start + 2 * st.settings.sim_dt))
        except Exception:  # noqa
            raise Skip()
        year = float(rng.choice([t for t in st.progset.tvec if st.settings.sim_start <= t <= st.settings.sim_end] or [st.settings.sim_start + 1]))
        new, _, _ = at.reconcile(st.P, st.parset, st.progset, year, max_time=0.3, unit_cost_bounds=0.1, baseline_bounds=0.2, outcome_bounds=0.2)
        st.progset = new
        st.P.progsets[0] = new
    elif op == "load_calibration":
        other = st.parset.copy()
        for par in other.all_pars():
            if par.name in st.fw.comps.index or par.name in st.fw.characs.index:
                continue  # scaling initial conditions can make the initialisation infeasible (not a round-trip matter)
            if rng.random() < 0.3:
                par.meta_y_factor = rng.choice([0.5, 1.5, 0.9])
            for k in par.y_factor.keys():
                if rng.random() < 0.3:
                    par.y_factor[k] = rng.choice([0.8, 1.2, 1.1])
        st.parset.load_calibration(other.calibration_spreadsheet())
    else:
        raise ValueError(op)


def zero_uncertainty(st: State, rng):
    """'zero-uncertainty sampling': every uncertainty is absent or exactly 0"""
    for tab in st.data.tables():
        for ts in tab.ts.values():
            ts.sigma = None if ts.sigma is None else 0.0
    for par in st.parset.all_pars():
        for ts in par.ts.values():
            ts.sigma = None if ts.sigma is None else 0.0
    for prog in st.progset.programs.values():
        for ts in (prog.spend_data, prog.unit_cost, prog.capacity_constraint, prog.saturation, prog.coverage):
            ts.sigma = None if ts.sigma is None else 0.0
    for c in st.progset.covouts.values():
        c.sigma = None if (c.sigma is None or c._interactions) else 0.0


def run_sequence(project, ops, seed, get_project):
    """returns None if everything held, else (key, what) of the first failure"""
    import atomica as at

    np.random.seed(seed % (2**32))
    P = get_project(project)
    st = State(P)
    zero_uncertainty(st, None)
    stale_by = None  # the operation after which some Covout cache first disagreed with its visible data
    orphan_by = None  # the operation after which the program set holds covouts of a population it no longer has
    STALE_API = {"remove_prog": "ProgramSet.remove_program", "reconcile": "reconciliation._update_progset"}
    for i, op in ops:
        rng = random.Random(f"{seed}/{i}/{op}")
        try:
            apply_op(st, op, rng)
        except Skip:
            continue
        except OpFailed as ex:
            return ex.key, ex.what
        except Exception as ex:  # noqa
            if "Sampling has already been performed" in str(ex):
                continue  # documented: a sampled object cannot be sampled again
            if type(ex).__name__ == "UnboundLocalError" and op in ("load_calibration", "add_pop", "remove_pop"):
                return {"api": "ParameterSet.load_calibration", "case": "unknown entry before any known entry"}, f"{op}: load_calibration raised {ex}"
            if any(tp in str(ex) for tp in st.transfer_pars):
                return TRANSFER_KEY, f"operation {op} raised {type(ex).__name__}: {str(ex)[:120]} after add_par of {st.transfer_pars!r}"
            if orphan_by is not None:
                return {"api": "ProgramSet.remove_pop", "case": "covouts of the removed population kept"}, f"operation {op} raised {type(ex).__name__}: {str(ex)[:120]} on a program set that still holds covouts of a population removed by {orphan_by}"
            if stale_by is not None:
                return {"api": STALE_API.get(stale_by, OP_API[stale_by]), "case": "stale Covout cache"}, f"operation {op} raised {type(ex).__name__}: {str(ex)[:120]} on a program set whose Covout caches are stale since {stale_by}"
            return {"api": OP_API[op], "case": f"raises {type(ex).__name__}"}, f"operation {op} raised {type(ex).__name__}: {str(ex)[:200]}"
        if stale_by is None and any(w == "cache" for _, w in stale_covouts(st.progset)):
            stale_by = op
        if orphan_by is None and any(k[1] not in st.progset.pops for k in st.progset.covouts.keys()):
            orphan_by = op
    fw, settings = st.fw, st.settings
    ins = at.ProgramInstructions(start_year=settings.sim_start + 2 * settings.sim_dt)
    stale = stale_covouts(st.progset)
    last = {o: i for i, o in ops}

    def culprit(cands):
        c = [o for o in cands if o in last]
        return max(c, key=lambda o: last[o]) if c else None

    # export everything and rebuild
    try:
        d2 = rt_data(st.data, fw)
    except Exception as ex:  # noqa
        return {"api": "ProjectData.to_spreadsheet", "case": "cannot be read back"}, f"databook export cannot be re-imported: {type(ex).__name__}: {str(ex)[:200]}"
    dd = diff_content(data_content(st.data), data_content(d2))
    if dd:
        return {"api": "ProjectData.to_spreadsheet", "case": "content changed"}, "databook: " + short(dd)
    try:
        g2 = rt_progset(st.progset, fw, d2)
    except Exception as ex:  # noqa
        msg = f"{type(ex).__name__}: {str(ex)[:240]}"
        if any(w == "imp_interaction" for _, w in stale):
            return {"api": "ProgramSet.remove_program", "case": "imp_interaction still names a removed program"}, "program book export cannot be re-imported: " + msg
        if any(tp in msg for tp in st.transfer_pars):
            return TRANSFER_KEY, f"after add_par of {st.transfer_pars!r} the program book export cannot be re-imported: " + msg
        return {"api": "ProgramSet.to_spreadsheet", "case": "cannot be read back"}, "program book export cannot be re-imported: " + msg
    # the lists of available parameters / compartments are rebuilt from the framework on reading: a parameter removed
    # with remove_par is listed again (without effects); that is not content
    dd = [x for x in diff_content(progset_content(st.progset), progset_content(g2)) if not ((x[0].startswith("/pars/") or x[0].startswith("/comps/")) and x[1] == "<absent>")]
    if dd:
        if all(p.startswith("/covouts/") for p, _, _ in dd) and "remove_pop" in last and all(b == "<absent>" for _, _, b in dd):
            return {"api": "ProgramSet.remove_pop", "case": "covouts of the removed population kept"}, "program book: " + short(dd)
        return {"api": "ProgramSet.to_spreadsheet", "case": "content changed"}, "program book: " + short(dd)
    try:
        ps2 = rt_parset(st.parset, fw, d2)
    except Exception as ex:  # noqa
        return {"api": "ParameterSet.load_calibration", "case": f"own file raises {type(ex).__name__}"}, f"calibration export cannot be re-imported: {ex}"
    dd = diff_content(parset_content(st.parset), parset_content(ps2))
    if dd:
        return {"api": "ParameterSet", "case": "content differs from the parset rebuilt from databook + calibration file"}, "parset: " + short(dd)
    for tag, (a, b) in (("parset", (None, None)), ("progset", (st.progset, g2))):
        i = ins if a is not None else None
        (r1, e1), (r2, e2) = try_sim(settings, fw, st.parset, a, i), try_sim(settings, fw, ps2, b, i)
        if e1 and e2:
            continue
        bad = None
        if e1 or e2:
            bad = f"simulation ({tag}) of the edited objects: {e1 or 'ok'}; of the objects rebuilt from their spreadsheets: {e2 or 'ok'}"
        else:
            d12, w12 = U.result_diff(r1, r2)
            if d12 > TOL:
                bad = f"simulation ({tag}) differs by {d12:.3g} at {w12} from the simulation of the objects rebuilt from their spreadsheets"
        if bad:
            if tag == "progset" and stale_by is not None and any(w == "cache" for _, w in stale):
                return {"api": STALE_API.get(stale_by, OP_API[stale_by]), "case": "stale Covout cache"}, bad + f"; Covout caches stale since {stale_by}: {[k for k, _ in stale][:3]}"
            return {"api": "round trip", "case": "simulation differs from the rebuilt objects (" + tag + ")"}, bad
    return None


def shrink(project, ops, seed, get_project, key):
    """greedy: drop operations while the same failure key persists"""
    cur = list(ops)
    changed = True
    while changed and len(cur) > 1:
        changed = False
        for j in range(len(cur)):
            cand = cur[:j] + cur[j + 1 :]
            try:
                r = run_sequence(project, cand, seed, get_project)
            except Exception:  # noqa
                r = None
            if r is not None and r[0] == key:
                cur, changed = cand, True
                break
    return cur


def is_subseq(small, big):
    it = iter(big)
    return all(x in it for x in small)


def job_ops(project, opnames, seed, get_project, known=None):
    rec = Rec()
    ops = list(enumerate(opnames))
    rec.case({"api": "ops", "project": project, "ops": list(opnames), "seed": seed}, nontrivial=len(opnames) > 0, sample={"project": project, "ops": list(opnames)})
    rec.traces += 1
    rec.count("ops.len=%d" % len(opnames))
    for o in opnames:
        rec.count("ops.op." + o)
    r = run_sequence(project, ops, seed, get_project)
    if r is None:
        rec.count("ops.held")
        return rec
    key, what = r
    rec.count("ops.failed")
    kk = repr(sorted(key.items()))
    if known and any(is_subseq(m, list(opnames)) for m in known.get(kk, [])):
        rec.count("ops.failed_contains_known_minimal")
        minimal = ops
    else:
        minimal = shrink(project, ops, seed, get_project, key) if len(ops) > 1 else ops
        r2 = run_sequence(project, minimal, seed, get_project)
        if r2 is not None and r2[0] == key:
            what = r2[1]
        rec.notes.append(("minimal", kk, [o for _, o in minimal]))
    rec.violation(key, f"{project}: after {[o for _, o in minimal]}: {what}", {"kind": "ops", "project": project, "ops": [[i, o] for i, o in minimal], "seed": seed, "original_ops": list(opnames)})
    return rec


# ------------------------------------------------------------------------------------------------
# job: project files written by old versions (binary persistence with migration on load)
# ------------------------------------------------------------------------------------------------
MIGRATION_KEY = {"api": "migration._add_pop_type", "case": "migrated ProjectData lacks _pop_types / TDVE.pop_type"}
MIGRATION_FILES = ["migration_test_with_result.prj", "migration_test_with_scenarios.prj", "migration_test_without_result.prj"]


def job_migrated(fname):
    import atomica as at
    import sciris as sc
    from vlib import core

    rec = Rec()
    path = core.REPO / "tests" / fname
    if not path.exists():
        rec.count("migrated.file_missing")
        return rec
    base = {"api": "migrated", "file": fname}
    replay = {"kind": "migrated", "file": fname}
    P = at.Project.load(str(path))
    fw, data, parset, settings = P.framework, P.data, P.parsets[0], P.settings
    rec.count("migrated.files")
    # binary round trip of the migrated project: bit-identical simulation
    r1, e1 = try_sim(settings, fw, parset)
    with tempfile.TemporaryDirectory() as tmp:
        Q = at.Project.load(P.save(os.path.join(tmp, "m.prj")))
    r2, e2 = try_sim(Q.settings, Q.framework, Q.parsets[0])
    rec.case({**base, "what": "save/load"}, nontrivial=True, sample=base)
    rec.traces += 1
    if (e1 is None) != (e2 is None) or (e1 is None and U.result_diff(r1, r2)[0] != 0.0):
        rec.violation({"api": "Project.save", "case": "simulation not bit-identical after save/load"}, f"{fname}: {e1} / {e2}", replay)
    # the migrated databook behaves as its visible data: same content as, and same operations available as, the databook
    # rebuilt from its own export
    if any(len(set(v)) != len(v) for v in data.tdve_pages.values()):
        # two of the fixtures list one table twice on a page (state written by the old version that made the file; the current
        # reader refuses such a databook, so the current code cannot produce it): exported once
        rec.count("migrated.legacy_duplicate_page_entry")
        for page in data.tdve_pages.keys():
            data.tdve_pages[page] = list(dict.fromkeys(data.tdve_pages[page]))
    d2 = rt_data(data, fw)
    dd = diff_content(data_content(data), data_content(d2))
    rec.case({**base, "what": "content"}, nontrivial=True)
    missing = [x for x in dd if "<attribute missing>" in str(x[1])]
    if missing:
        rec.violation(MIGRATION_KEY, f"{fname}: after Project.load the TDVE tables have no `pop_type` attribute (the migration sets `.type`): {short(missing, 2)}", replay)
    def legacy_units(x):
        # databooks written before units carried a timescale hold e.g. "number" where the framework now says "Number (per year)";
        # ProjectData.from_spreadsheet upgrades such units on reading (documented there as a migration)
        return x[0].endswith("/units") and isinstance(x[1], str) and isinstance(x[2], str) and x[1].strip().lower() == x[2].strip().split()[0].lower()

    if any(legacy_units(x) for x in dd):
        rec.count("migrated.legacy_units_upgraded_on_read")
    other = [x for x in dd if x not in missing and not legacy_units(x)]
    if other:
        rec.violation({"api": "ProjectData.to_spreadsheet", "case": "content changed"}, f"{fname} (migrated): {short(other)}", replay)
    for opname, op in (("validate", lambda d: d.validate(fw)), ("add_pop", lambda d: d.add_pop("newpop", "New population")), ("add_transfer", lambda d: d.add_transfer("newtr", "New transfer"))):
        res = []
        after = []
        for d in (sc.dcp(data), sc.dcp(d2)):
            try:
                op(d)
                res.append("ok")
                after.append(d)
            except Exception as ex:  # noqa
                res.append(f"{type(ex).__name__}: {str(ex)[:100]}")
        rec.case({**base, "what": opname}, nontrivial=True)
        if res == ["ok", "ok"] and opname != "validate":
            # the same edit on the loaded (migrated) databook and on the one rebuilt from its own spreadsheet must give the same content, also after export and re-import
            try:
                ca, cb = data_content(rt_data(after[0], fw)), data_content(rt_data(after[1], fw))
                dd2 = [x for x in diff_content(ca, cb) if not legacy_units(x)]
            except Exception as ex:  # noqa
                dd2 = [("export after " + opname, f"{type(ex).__name__}: {str(ex)[:120]}", "ok on the rebuilt databook")]
            if dd2:
                rec.violation({"api": "migration", "case": "edit of a migrated databook differs from the same edit of the rebuilt one", "op": opname}, f"{fname}: after ProjectData.{opname}: {short(dd2)}", replay)
        if res[0] != res[1]:
            if "_pop_types" in res[0] or "pop_type" in res[0]:
                rec.violation(MIGRATION_KEY, f"{fname}: ProjectData.{opname} on the loaded (migrated) databook: {res[0]}; on the databook rebuilt from its own spreadsheet: {res[1]}", replay)
            else:
                # the two oldest fixtures also carry tables without `allowed_units` (state of a version long before the current
                # one); recorded as an observation, not as a verdict on the current code
                rec.count("migrated.legacy_difference." + opname)
    return rec


# ------------------------------------------------------------------------------------------------
# dispatcher
# ------------------------------------------------------------------------------------------------
def run_job(job):
    """Executed in a worker process. Never raises: an unexpected exception is reported as a break."""
    import c16

    quiet()
    kind = job[0]
    try:
        if kind == "library":
            return job, job_library(job[1], c16.get_project)
        if kind == "ops":
            return job, job_ops(job[1], job[2], job[3], c16.get_project, job[4] if len(job) > 4 else None)
        if kind == "generated":
            return job, job_generated(job[1], c16.get_project)
        if kind == "migrated":
            return job, job_migrated(job[1])
        if kind == "genfw":
            return job, job_genfw(job[1])
        if kind == "versions":
            return job, job_versions(job[1], c16.get_project)
        if kind == "substring":
            return job, job_substring_programs(job[1], c16.get_project)
        raise ValueError(kind)
    except Exception:  # noqa
        rec = Rec()
        rec.brk("correspondence", f"mode E job {job!r} raised: " + traceback.format_exc()[-700:], job=repr(job))
        return job, rec
