"""
C13 -- Active programs set targeted parameters exactly, and reports match the run.

Theorems: lean/AtomicaProofs/Properties/C13.lean (+ the precedence / clip theorems of C06Params.lean) about
`Atomica.Params` (lean/AtomicaModel/Params.lean).  Correspondence (mode C) and oracles: harness/vlib/params_corr.py.
"""
import sys

from vlib import core, params_corr

PROPERTY = "C13"
LEAN_MODS = ["AtomicaProofs.Properties.C13", "AtomicaProofs.Properties.C06Params"]
THEOREMS = [
    "Atomica.C13.program_value",            # active + targeted: stored value = clip(convert(outcome(coverages of this step)))
    "Atomica.C13.coverage_from_spending",   # the coverage of the step comes from this step's spending, unit cost and current target sizes
    "Atomica.C13.coverage_overwrite",
    "Atomica.C13.convert_number",
    "Atomica.C13.convert_perTime",
    "Atomica.C13.convert_other",
    "Atomica.C13.outcome_single",
    "Atomica.C13.frame",                    # no covout: computed as without programs
    "Atomica.C13.frame_inactive",
    "Atomica.C13.frame_not_in_loop",
    "Atomica.C13.report_eq_used",           # no junction target: reported eligible / coverage = the ones used in the loop
    "Atomica.C13.report_capacity",
    "Atomica.C13.report_alloc",
    "Atomica.C13.report_alloc_overwrite",
    "Atomica.C13.report_number",
    "Atomica.C13.junction_gap",             # witness of the documented exclusion
    "Atomica.C13.number_units_roundtrip",   # * popsize/dt here and / popsize * dt/T in update_links cancel
    "Atomica.C06.precedence_program",
    "Atomica.C06.precedence_function",
    "Atomica.C06.precedence_data",
    "Atomica.C06.precedence_skip",
    "Atomica.C06.precedence_aggregation",
    "Atomica.C06.clip_before_use",
]
TRUSTED = [
    "the value of a parameter function on given dependency values, exp() in the saturation curve, and the interpolated databook value are oracle inputs (the harness evaluates the implementation's parsed function / numpy.exp / ParameterSet.interpolate on the finished arrays); only their placement in the pipeline is modelled",
    "in-loop quantities are observed by wrapping ProgramSet.get_outcomes, Program.get_prop_covered and Model.flush_junctions of the Model's own objects from the harness (no change to /repo)",
    "float rounding of coverage, outcome and unit conversion: compared to 1e-11 relative (capacity, eligible 1e-12)",
]
ASSUMPTIONS = [
    "derivative parameters (Euler state) are excluded and counted; NaN coverage/outcome (missing spending data, zero unit cost) is outside the model and counted",
    "junction target compartments: reported eligible uses the junction outflow, the loop uses the (empty) stock -- excluded by the hypothesis of report_eq_used and counted (junction_gap is the kernel-checked witness)",
    "a population aggregation targeted by a program is written after the program stage (precedence_aggregation); not generated",
]
RULE = (
    "cases = (processed model, parameter, population) with every compared time index counted as a trace; models: generated frameworks "
    "(vlib.genfw.random_spec + dependency chains/diamonds, precompute/postcompute functions, aggregations, limits, calibration factors, "
    "parameter scenarios) with a generated ProgramSet (1-4 programs sharing targets over several populations/compartments, one-off/continuous, "
    "constraints, saturation; covouts on number/probability/rate/duration/proportion/non-transition parameters with all three interactions) and "
    "generated instructions (start on/off grid/at t0/before t0, stop, spending/capacity/coverage overwrites), all step sizes of genfw.DTS; plus "
    "library demos udt, usdt, tb_simple, hypertension, hiv (tb in the thorough tier) with generated instructions and step sizes; "
    "non-trivial = the parameter is at some index set by a program, a function, an aggregation or a skip window, has a calibration factor != 1 "
    "or is clipped at a limit"
)
EXPECTED_BRANCHES = [
    "stage.data", "stage.data.transfer", "stage.function.dynamic", "stage.function.precompute", "stage.function.postcompute", "stage.program.number", "stage.program.pertime",
    "stage.program.other", "stage.aggregation", "clip.at_limit", "prog.oneoff", "prog.continuous", "prog.saturation", "prog.capacity_constraint",
    "overwrite.alloc", "overwrite.capacity", "overwrite.coverage", "prog.multi_pops", "prog.multi_comps", "prog.active_index", "prog.inactive_index",
    "report_eq_used.held", "ti0.double_update", "order.topological.dynamic_pars", "run.demo.udt", "run.generated", "run.directed", "used.coverage_overwrite",
    "clip.program_value", "clip.function_value", "equivalent_alloc.checked", "stage.skip.dynamic",
]


def run(ctx):
    params_corr.run_params(ctx, PROPERTY)


def replay(ctx, data):
    return params_corr.replay_params(ctx, PROPERTY, data)


if __name__ == "__main__":
    core.main(sys.modules[__name__])
