"""
C13 -- Active programs set targeted parameters exactly, and reports match the run.

Theorems: lean/AtomicaProofs/Properties/C13.lean (+ the precedence / clip theorems of C06Params.lean) about
`Atomica.Params` (lean/AtomicaModel/Params.lean).  Correspondence (mode C) and oracles: harness/vlib/params_corr.py.
"""
import sys

from vlib import closedprog_corr, core, params_corr

PROPERTY = "C13"
LEAN_MODS = ["AtomicaProofs.Properties.C13", "AtomicaProofs.Properties.C06Params", "AtomicaProofs.Properties.C13Closed"]
THEOREMS = [
    "Atomica.C13.program_value",            # active + targeted: stored value = clip(convert(outcome(coverages of this step)))
    "Atomica.C13.coverage_from_spending",   # the coverage of the step comes from this step's spending, unit cost and current target sizes
    "Atomica.C13.coverage_overwrite",
    "Atomica.C13.convert_number",
    "Atomica.C13.convert_perTime",
    "Atomica.C13.convert_other",
    "Atomica.C13.outcome_single",
    "Atomica.C13.frame",                    # no covout: computed as without programs
    "Atomica.C13.frame_inactive",
    "Atomica.C13.frame_not_in_loop",
    "Atomica.C13.report_eq_used",           # no junction target: reported eligible / coverage = the ones used in the loop
    "Atomica.C13.report_capacity",
    "Atomica.C13.report_alloc",
    "Atomica.C13.report_alloc_overwrite",
    "Atomica.C13.report_number",
    "Atomica.C13.junction_gap",             # witness of the documented exclusion
    "Atomica.C13.number_units_roundtrip",   # * popsize/dt here and / popsize * dt/T in update_links cancel
    "Atomica.C06.precedence_program",
    "Atomica.C06.precedence_function",
    "Atomica.C06.precedence_data",
    "Atomica.C06.precedence_skip",
    "Atomica.C06.precedence_aggregation",
    "Atomica.C06.clip_before_use",
    # closed loop WITH programs (ClosedProg.simulate): whole simulations from the specification alone
    "Atomica.C13.closed_is_ev",                              # Closed.simulateN = the generic loop with the policy Closed.evalPars
    # C09
    "Atomica.C13.closedprog_is_closed_before_start",         # indices before start_year: run with programs = run without, entry by entry (incl. definedness)
    "Atomica.C13.closedprog_prefix_before_start",            # ... as prefixes of two longer runs
    "Atomica.C13.closedprog_stock_at_start",                 # the stocks of the first active index coincide too
    "Atomica.C13.closedprog_after_stop",                     # after stop_year every parameter has its program-free value on the same state
    "Atomica.C13.closedprog_after_stop_data",                # ... a data parameter its databook value
    "Atomica.C13.closedprog_instructions_agree_before",      # two instruction sets interchangeable at the indices < m: same first m entries
    "Atomica.C13.closedprog_start_year_moved",               # instance: start year moved
    "Atomica.C13.progNow_congr_before",                      # instance: series that state the same values before Y
    # C13
    "Atomica.C13.closedprog_sets_targets",                   # active index, any state: targeted value = clip(convert(outcome(coverages on that state)))
    "Atomica.C13.closedprog_sets_targets_number",            # = clip(o * source_popsize / dt)
    "Atomica.C13.closedprog_sets_targets_perTime",           # = clip(o / dt)
    "Atomica.C13.closedprog_sets_targets_other",             # = clip(o)
    "Atomica.C13.eligible_of_state",                         # number eligible = sum of the target compartments of THIS state
    "Atomica.C13.coverage_of_state",                         # coverage = get_prop_covered(this step's capacity, eligible of this state)
    "Atomica.C13.coverage_of_overwrite",                     # a coverage overwrite decides
    "Atomica.C13.closedprog_sets_targets_run",               # along a defined run: entry k was stepped with evalParsP s k x, targeted values exact
    # C06
    "Atomica.C13.closedprog_untargeted_rule",                # untargeted: = program-free rule on the SAME-index values (overwritten ones included)
    "Atomica.C13.closedprog_inactive_rule",                  # inactive: the same for every parameter
    "Atomica.C13.closedprog_untargeted_unchanged_rule",      # not (transitively) dependent on a target: = program-free closed loop on the same state
    "Atomica.C13.closedprog_no_covouts",                     # no covouts: the run is the program-free run
    "Atomica.C13.parVal_is_evalOne",                         # the program-free rule is Params.evalOne on the closed loop's inputs
    "Atomica.C13.evalParsP_clipped",                         # every value within limits, program values included
    # lifting of the L1 theorems
    "Atomica.C13.evalParsP_propsNonneg",
    "Atomica.C13.closedprog_is_process",                     # a run with programs IS Engine.process on its own parameter stream
    "Atomica.C13.closedprog_total",                          # C01 conservation
    "Atomica.C13.closedprog_nonneg",                         # C02 non-negativity
    "Atomica.C13.closedprog_jempty",                         # C04/C10 junctions empty
    "Atomica.C13.closedprog_prefix",                         # end_extension with programs
]
TRUSTED = [
    "the value of a parameter function on given dependency values, exp() in the saturation curve, and the interpolated databook value are oracle inputs (the harness evaluates the implementation's parsed function / numpy.exp / ParameterSet.interpolate on the finished arrays); only their placement in the pipeline is modelled",
    "in-loop quantities are observed by wrapping ProgramSet.get_outcomes, Program.get_prop_covered and Model.flush_junctions of the Model's own objects from the harness (no change to /repo)",
    "float rounding of coverage, outcome and unit conversion: compared to 1e-11 relative (capacity, eligible 1e-12)",
    # closed loop with programs
    "closed loop with programs: extraction of the specification from the built Model / ParameterSet / ProgramSet / ProgramInstructions (vlib/closed_corr.extract + vlib/closedprog_corr.extract_p: target compartments as `_update_program_cache` resolves them, covout program order = dict order, explicit interactions parsed by params_corr.parse_imp)",
    "a year that equals a point of the float time vector (start / stop year, dated points of spending / unit cost / constraint / overwrite series) is sent as the exact grid point `t[0] + k*dt` of that index (the model's time of index k); every other year as the exact value of the float; a model is not compared (counted ambiguous) when float and exact grid fall on different sides of such a year",
    "exact rationals are cut off when a stock needs more than closed_corr.BUDGET_BITS bits; the computed prefix is compared (closedprog_prefix)",
    "what ProgramSet.get_outcomes received / returned in each step is observed by wrapping that method of the Model's own ProgramSet from the harness (used by the oracles only, never fed into the model)",
]
ASSUMPTIONS = [
    "derivative parameters (Euler state) are excluded and counted; NaN coverage/outcome (missing spending data, zero unit cost) is outside the model and counted",
    "junction target compartments: reported eligible uses the junction outflow, the loop uses the (empty) stock -- excluded by the hypothesis of report_eq_used and counted (junction_gap is the kernel-checked witness)",
    "a population aggregation targeted by a program is written after the program stage (precedence_aggregation); not generated",
    # closed loop with programs
    "saturation is not modelled (exp is not rational-closed): generated program sets carry no saturation data; a program set with saturation is counted closedprog.unsupported.saturation and not compared",
    "as closed_corr: linear interpolation of databook series, keyrings <= 24 rows; derivative parameters and skip windows (parameter scenarios) are modelled next to the program layer, but a covout on a derivative parameter (the program overwrites the rate `_dx`) is counted closedprog.unsupported.covout-on-derivative-parameter; programs are generated on one population type",
    "rounding-dependent discontinuities (covout sort by |outcome - baseline| ties, additive sum of coverages within 1e-9 of 1, eligible population that is floating-point dust, and those of closed_corr) are counted ambiguous and not compared",
    "a targeted output-only function parameter or population aggregation does not keep the program value (Params.evalOne: postcompute / aggregation stage); hypotheses of closedprog_sets_targets, evaluated on every covout (counted when not held)",
]
RULE = (
    "cases = (processed model, parameter, population) with every compared time index counted as a trace; models: generated frameworks "
    "(vlib.genfw.random_spec + dependency chains/diamonds, precompute/postcompute functions, aggregations, limits, calibration factors, "
    "parameter scenarios) with a generated ProgramSet (1-4 programs sharing targets over several populations/compartments, one-off/continuous, "
    "constraints, saturation; covouts on number/probability/rate/duration/proportion/non-transition parameters with all three interactions) and "
    "generated instructions (start on/off grid/at t0/before t0, stop, spending/capacity/coverage overwrites), all step sizes of genfw.DTS; plus "
    "library demos udt, usdt, tb_simple, hypertension, hiv (tb in the thorough tier) with generated instructions and step sizes; "
    "non-trivial = the parameter is at some index set by a program, a function, an aggregation or a skip window, has a calibration factor != 1 "
    "or is clipped at a limit"
    " ;; closed loop with programs: "
    "cases = generated small models (genfw.random_spec restricted as closed_corr: <= 3 ordinary compartments, <= 2 populations, <= 11 time points, junctions / "
    "residual junctions / timed / source / sinks / transfers / aggregations, enriched with ratio characteristics, functions, limits, calibration factors) WITH a "
    "generated program set: 1-3 programs (one-off / continuous, capacity constraints per year or absolute, time-varying spending and unit cost, several target "
    "populations / compartments incl. timed ones and occasionally a junction), covouts with 1-3 programs, all three coverage interactions and explicit interaction "
    "outcomes on number / probability / rate / duration / proportion parameters, data and function parameters, transition and non-transition parameters, with function "
    "parameters reading the targeted ones (one and two deep, link-driving and output-only); instructions with start year before / at / on / off the grid, optional stop "
    "year, spending / capacity / coverage overwrites; a quarter of the models have programs active at index 0 with an initialised junction.  Every stock row, link flow "
    "and parameter value of every computed index is compared.  non-trivial = at least one covout whose parameter the loop visits and programs active at some index"
)
EXPECTED_BRANCHES = [
    "stage.data", "stage.data.transfer", "stage.function.dynamic", "stage.function.precompute", "stage.function.postcompute", "stage.program.number", "stage.program.pertime",
    "stage.program.other", "stage.aggregation", "clip.at_limit", "prog.oneoff", "prog.continuous", "prog.saturation", "prog.capacity_constraint",
    "overwrite.alloc", "overwrite.capacity", "overwrite.coverage", "prog.multi_pops", "prog.multi_comps", "prog.active_index", "prog.inactive_index",
    "report_eq_used.held", "ti0.double_update", "order.topological.dynamic_pars", "run.demo.udt", "run.generated", "run.directed", "used.coverage_overwrite",
    "clip.program_value", "clip.function_value", "equivalent_alloc.checked", "stage.skip.dynamic",
    # closed loop with programs
    "closedprog.compared_models", "closedprog.compared_active_indices", "prog.active_at_index0", "prog.active_at_index0.junction_initialised", "prog.index0.preflush_outcomes_differ",
    "prog.starts_later", "prog.stop_inside_run", "instr.stop_year", "overwrite.alloc", "overwrite.capacity", "overwrite.coverage", "prog.oneoff", "prog.continuous",
    "prog.capacity_constraint", "prog.timevarying_book", "prog.multi_pops", "prog.multi_comps", "prog.timed_target", "covout.nprogs1", "covout.nprogs2", "covout.nprogs3",
    "covout.additive", "covout.nested", "covout.random", "covout.explicit_interaction", "target.units.number", "target.units.pertime", "target.units.other",
    "target.format.proportion", "target.format.probability", "target.format.rate", "target.format.number", "target.format.duration", "target.data", "target.function.dynamic",
    "target.function.precompute", "target.transition", "target.non_transition", "target.has_dependent_function", "target.limits", "target.clipped_program_value",
]


def run(ctx):
    params_corr.run_params(ctx, PROPERTY)
    # closed loop with programs: whole trajectories (stocks, flows, every parameter value) from the specification alone
    closedprog_corr.closedprog_selfcheck(ctx, n=ctx.n(2, 5))
    closedprog_corr.run_closedprog(ctx, PROPERTY, ctx.n(70, 2000))


def replay(ctx, data):
    c = (data.get("replay") or {}).get("case") or (data.get("broken") or [{}])[0].get("case")
    if isinstance(c, dict) and c.get("closedprog"):
        return closedprog_corr.replay_case(c)
    return params_corr.replay_params(ctx, PROPERTY, data)


if __name__ == "__main__":
    core.main(sys.modules[__name__])
